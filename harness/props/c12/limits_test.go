package c12

import (
	"fmt"

	"github.com/jcmturner/gokrb5/v8/client"
	"github.com/jcmturner/gokrb5/v8/config"
	"github.com/jcmturner/gokrb5/v8/keytab"

	"verif/simkdc"
	"verif/vh"
)

// Widened family "limit-values". The basic enumeration crosses the endpoint behaviours with three values of udp_preference_limit
// (1, 10, 32700). Every value krb5.conf accepts (0 .. 32700) is one of the statement's three kinds - 1 (TCP only), smaller than the
// request (TCP first, UDP second: also 0), larger than the request (UDP first, TCP second) - so here the same behaviours are
// crossed with the other values: the ends of the range, the neighbours of 1, the values around the size of the request the client
// really sends (measured with a probe login), MIT's default and a seeded sample in between. The permitted outcomes are those of
// the basic enumeration: they do not depend on the transport order, only on "1 = UDP not permitted".
const famLimit = "limit-values"

// probeRequestSize logs in through a healthy endpoint and returns the size of the AS-REQ the KDC received.
func probeRequestSize(k *simkdc.KDC, kt *keytab.Keytab) (int, error) {
	good, err := simkdc.NewEndpoint("probe#size", k, simkdc.Answers, simkdc.Answers)
	if err != nil {
		return 0, err
	}
	defer good.Close()
	cfg, err := config.NewFromString(fmt.Sprintf("[libdefaults]\n default_realm = %s\n dns_lookup_kdc = false\n dns_lookup_realm = false\n noaddresses = true\n default_tkt_enctypes = aes256-cts-hmac-sha1-96\n default_tgs_enctypes = aes256-cts-hmac-sha1-96\n udp_preference_limit = 1\n[realms]\n %s = {\n  kdc = %s\n }\n", realm, realm, good.Addr()))
	if err != nil {
		return 0, err
	}
	before := len(k.Requests())
	cl := client.NewWithKeytab("ktuser", realm, kt, cfg, client.DisablePAFXFAST(true))
	defer cl.Destroy()
	if err := cl.Login(); err != nil {
		return 0, fmt.Errorf("login through a healthy endpoint: %v", err)
	}
	reqs := k.Requests()
	if len(reqs) <= before {
		return 0, fmt.Errorf("the simulated KDC logged no request")
	}
	return len(reqs[before].Raw), nil
}

// limitClass groups the limits for the coverage counters.
func limitClass(limit, reqLen int) string {
	switch {
	case limit == 0 || limit == 2 || limit == 3:
		return fmt.Sprintf("limit_%d", limit)
	case limit >= reqLen-3 && limit <= reqLen+3:
		return "limit_at_request_size"
	case limit < reqLen:
		return "limit_below_request_size"
	case limit == 1465:
		return "limit_1465"
	}
	return "limit_above_request_size"
}

var limitReqLen int // size of the probe AS-REQ (set once, before the cases run)

// limitValues: the values of udp_preference_limit of the family (never 1, 10 or 32700, which the basic enumeration uses).
func limitValues(rnd *vh.Rand, reqLen int) (fixed, sampled []int) {
	fixed = []int{0, 2, 3, reqLen - 1, reqLen, reqLen + 1, 1465}
	n := 4
	if vh.Thorough() {
		n = 24
	}
	seen := map[int]bool{1: true, 10: true, 32700: true}
	for _, l := range fixed {
		seen[l] = true
	}
	for i := 0; len(sampled) < n; i++ {
		var l int
		switch i % 4 {
		case 0:
			l = 4 + rnd.Intn(reqLen-8) // below the request
		case 1:
			l = reqLen - 3 + rnd.Intn(7) // at the request (its size varies by a byte or two with the nonce)
		case 2:
			l = reqLen + 4 + rnd.Intn(1500)
		default:
			l = 1466 + rnd.Intn(32700-1466)
		}
		if l < 0 || l > 32700 || seen[l] {
			continue
		}
		seen[l] = true
		sampled = append(sampled, l)
	}
	return
}

// limitCases: every limit of the family x every behaviour pair of one KDC (without the silent sides in quick: a silent side
// costs the library's 5 s), then a seeded sample with two KDCs and with the other operations.
func limitCases(all []epMode, reqLen int) []assignment {
	rnd := vh.NewRand("c12", famLimit)
	fixed, sampled := limitValues(rnd, reqLen)
	limits := append(append([]int{}, fixed...), sampled...)
	var as []assignment
	var quiet []epMode
	for _, e := range all {
		if e.udp != simkdc.Silent && e.tcp != simkdc.Silent {
			quiet = append(quiet, e)
		}
	}
	for _, l := range limits {
		for _, e := range all {
			a := assignment{eps: []epMode{e}, limit: l, op: "login", fam: famLimit}
			if !vh.Thorough() && a.silent() > 0 {
				continue
			}
			as = append(as, a)
		}
	}
	n2 := 260
	if vh.Thorough() {
		n2 = 4000
	}
	ops := []string{"login", "login", "login", "tgs", "login-wrong-password"}
	for i := 0; i < n2; i++ {
		// the fixed values twice as often as the sampled ones
		l := fixed[rnd.Intn(len(fixed))]
		if rnd.Intn(3) == 0 {
			l = sampled[rnd.Intn(len(sampled))]
		}
		a := assignment{limit: l, op: ops[rnd.Intn(len(ops))], fam: famLimit}
		for j, nk := 0, 1+rnd.Intn(2); j < nk; j++ {
			a.eps = append(a.eps, quiet[rnd.Intn(len(quiet))])
		}
		if nk := len(a.eps); nk == 1 && a.op == "login" {
			a.eps = append(a.eps, quiet[rnd.Intn(len(quiet))]) // the one-KDC logins are enumerated above
		}
		as = append(as, a)
	}
	return as
}

// limitCoverage counts, per class of limit, the successes that needed the one or the other transport.
func limitCoverage(r recorder, a assignment, outcome string) {
	cls := limitClass(a.limit, limitReqLen)
	r.Inc("limit_values_" + cls + "_cases")
	if outcome != "success" {
		return
	}
	udp, tcp := false, false
	for _, e := range a.eps {
		udp = udp || e.udp == simkdc.Answers
		tcp = tcp || e.tcp == simkdc.Answers
	}
	switch {
	case udp && !tcp:
		r.Inc("limit_values_" + cls + "_success_only_udp_answers")
	case tcp && !udp:
		r.Inc("limit_values_" + cls + "_success_only_tcp_answers")
	}
}

// limitRequires: a run that did not see both transports carry a success for each class of limit is inconclusive.
func limitRequires(r *vh.Run) {
	for _, cls := range []string{"limit_0", "limit_2", "limit_3", "limit_at_request_size", "limit_1465"} {
		r.Require("limit_values_"+cls+"_success_only_udp_answers", 3)
		r.Require("limit_values_"+cls+"_success_only_tcp_answers", 3)
	}
	r.Require("limit_values_limit_below_request_size_cases", 5)
	r.Require("limit_values_limit_above_request_size_cases", 5)
	r.Require("limit_values_outcome_success", 150)
	r.Require("limit_values_outcome_failure", 80)
	r.Require("limit_values_outcome_krb_error_6", 40)
}
