package c12

import (
	"bytes"
	"encoding/binary"
	"errors"
	"fmt"
	"io"
	"net"
	"sort"
	"strconv"
	"strings"
	"sync"
	"sync/atomic"
	"time"

	"github.com/jcmturner/gokrb5/v8/client"
	"github.com/jcmturner/gokrb5/v8/config"
	"github.com/jcmturner/gokrb5/v8/keytab"
	"github.com/jcmturner/gokrb5/v8/messages"

	"verif/ref/kmsg"
	"verif/simkdc"
	"verif/vh"
)

// Widened families. The basic enumeration configures every KDC as "127.0.0.1:port" and every reply has its natural (small)
// size. Here the same outcome-set oracle judges
//   kdc-name   : KDCs configured by HOST NAME, the name having 1-3 addresses (127.0.0.x, ::1) of which the KDC's TCP service
//                listens on some and its UDP service on all or some;
//   dns-srv    : no kdc lines at all, dns_lookup_kdc = true: the realm publishes _kerberos._udp / _kerberos._tcp SRV record sets
//                which may name different hosts and ports per transport, or exist for one transport only;
//   reply-size : replies (AS-REP, TGS-REP, KRB-ERROR) padded to a chosen size: every size a KDC sends in one datagram
//                (up to 4096 bytes, MIT's kdc_max_dgram_reply_size) over UDP, and up to 70 000 bytes over TCP.

const (
	famName = "kdc-name"
	famSRV  = "dns-srv"
	famSize = "reply-size"

	maxDgram = 4096 // largest reply a KDC sends over UDP before it answers response-too-big
)

type wSide struct {
	mode string
	on   []bool // per address of the endpoint: is this side bound there (all false when the mode is refuses)
	size int    // reply size aimed at, 0 = natural
	pub  bool   // dns-srv: the side is published in the SRV record set of its transport
}

func (s wSide) bound() int {
	n := 0
	for _, b := range s.on {
		if b {
			n++
		}
	}
	return n
}

type wEP struct {
	byName       bool     // configured by host name (always for dns-srv)
	addrs        []string // addresses in the order the name server lists them; addrs[0] is the literal when !byName
	udp, tcp     wSide
	twoPorts     bool // dns-srv: the UDP and the TCP service use different port numbers
	prio, weight uint16
}

type wCase struct {
	fam    string
	eps    []wEP
	limit  int
	op     string
	nodata bool // dns-srv: the name of an unpublished record set exists without data (else: no such name)
	stanza bool // dns-srv: krb5.conf has a stanza for the realm, without kdc lines
}

func onString(on []bool) string {
	var sb strings.Builder
	for _, b := range on {
		if b {
			sb.WriteByte('1')
		} else {
			sb.WriteByte('0')
		}
	}
	return sb.String()
}

func (c wCase) String() string {
	var s []string
	for _, e := range c.eps {
		t := fmt.Sprintf("%s@%s:udp=%s/%s/%d:tcp=%s/%s/%d", map[bool]string{true: "name", false: "ip"}[e.byName], strings.Join(e.addrs, ","),
			e.udp.mode, onString(e.udp.on), e.udp.size, e.tcp.mode, onString(e.tcp.on), e.tcp.size)
		if c.fam == famSRV {
			t += fmt.Sprintf(":pub=%v/%v:2ports=%v:p%dw%d", e.udp.pub, e.tcp.pub, e.twoPorts, e.prio, e.weight)
		}
		s = append(s, t)
	}
	x := ""
	if c.fam == famSRV {
		x = fmt.Sprintf("/nodata=%v/stanza=%v", c.nodata, c.stanza)
	}
	return fmt.Sprintf("%s/limit=%d/%s%s/%s", c.fam, c.limit, c.op, x, strings.Join(s, ";"))
}

// effective computes the permitted outcomes. A side that is bound nowhere (or, for dns-srv, not published) cannot be reached:
// it counts as refusing. A TCP side bound on at least one address of the name is reachable: connecting to a host name tries
// the addresses of the name in turn. For a UDP side that is bound on some addresses only, the statement does not say whether
// the client has to find the address that answers: both readings are permitted (union of the outcome sets).
func (c wCase) effective() (a assignment, okS, okK, okF bool, why string, undetermined bool) {
	a = assignment{limit: c.limit, op: c.op}
	var amb []int
	for i, e := range c.eps {
		m := epMode{udp: e.udp.mode, tcp: e.tcp.mode}
		if e.tcp.bound() == 0 {
			m.tcp = simkdc.Refuses
		}
		switch b := e.udp.bound(); {
		case b == 0:
			m.udp = simkdc.Refuses
		case b < len(e.udp.on):
			amb = append(amb, i)
		}
		a.eps = append(a.eps, m)
	}
	var whys []string
	for mask := 0; mask < 1<<len(amb); mask++ {
		b := assignment{limit: a.limit, op: a.op, eps: append([]epMode{}, a.eps...)}
		for j, i := range amb {
			if mask>>j&1 == 1 {
				b.eps[i].udp = simkdc.Refuses
			}
		}
		s, k, f, w := allowed(b, 0)
		okS, okK, okF = okS || s, okK || k, okF || f
		if w != "" {
			whys = append(whys, w)
		}
	}
	sort.Strings(whys)
	for i, w := range whys {
		if i == 0 || whys[i-1] != w {
			why += w + "; "
		}
	}
	if len(amb) > 0 {
		why += "a UDP service answers on some addresses of its name only: reaching it is not demanded"
	}
	return a, okS, okK, okF, strings.TrimSuffix(why, "; "), len(amb) > 0
}

// ---- the sized KDC ----

// sizedKDC wraps a simulated KDC whose replies are padded: tickets by an authorization-data element inside the encrypted part
// (opaque to the client), KRB-ERRORs by their e-text.
type sizedKDC struct {
	mu  sync.Mutex
	k   *simkdc.KDC
	pad int // -1: natural size
}

func newSizedKDC(base *simkdc.KDC) *sizedKDC {
	s := &sizedKDC{pad: -1}
	s.k = simkdc.New(time.Now, vh.NewRand("c12kdc-sized").Bytes)
	s.k.Realms[realm] = base.Realms[realm] // the same principals and keys (read only from here on)
	s.k.Perturb = func(rp *simkdc.Reply) {
		if s.pad < 0 || rp.Raw != nil {
			return
		}
		if rp.Error != nil {
			t := strings.Repeat("e", s.pad)
			rp.Error.EText = &t
			return
		}
		rp.TktModel.AuthzData = append(append([]kmsg.AD{}, rp.TktModel.AuthzData...), kmsg.AD{Type: 1, Data: make([]byte, s.pad)})
	}
	return s
}

// handle answers the request with a reply of at most `size` bytes and as close to it as the encoding allows (natural size when
// size is 0 or smaller than the natural size).
func (s *sizedKDC) handle(req []byte, transport, name string, size int) []byte {
	s.mu.Lock()
	defer s.mu.Unlock()
	defer s.k.ResetLogs()
	s.pad = -1
	rep := s.k.Handle(req, transport, name)
	if size <= len(rep) {
		return rep
	}
	best := rep
	pad := size - len(rep) - 24
	for i := 0; i < 8 && pad >= 0; i++ {
		s.pad = pad
		got := s.k.Handle(req, transport, name)
		if len(got) <= size && len(got) > len(best) {
			best = got
		}
		if len(got) == size {
			break
		}
		pad += size - len(got)
		if len(got) < size && i >= 4 {
			break // a length octet boundary: the exact size is not reachable, keep the closest below
		}
	}
	s.pad = -1
	return best
}

// sizedError builds a KRB-ERROR of exactly `size` bytes (natural size if that is larger) whose e-text starts with tag.
func sizedError(code int32, tag string, size int) ([]byte, string) {
	mk := func(n int) ([]byte, string) {
		t := tag + strings.Repeat("x", n)
		return kmsg.KRBError{STime: time.Now().UTC().Truncate(time.Second), Code: code, Realm: "", SName: kmsg.N(0), EText: &t}.DER(), t
	}
	b, t := mk(0)
	if size <= len(b) {
		return b, t
	}
	n := size - len(b)
	for i := 0; i < 8 && n >= 0; i++ {
		b, t = mk(n)
		if len(b) == size {
			break
		}
		n += size - len(b)
	}
	for len(b) > size && n > 0 {
		n--
		b, t = mk(n)
	}
	return b, t
}

// ---- endpoints ----

type wRun struct {
	spec             *wEP
	name             string
	host             string
	kdc              *sizedKDC
	tag              string
	udpPort, tcpPort int
	udp              []*net.UDPConn
	tcp              []net.Listener
	wg               sync.WaitGroup
	conns            sync.Map
	UDPDatagrams     atomic.Int64
	TCPConns         atomic.Int64
	mu               sync.Mutex
	sent             [][]byte // complete replies sent
	sentSizes        []string
	etexts           []string // e-texts of the KRB-ERROR 6 replies sent
}

func reservePort(k *simkdc.KDC) (int, error) {
	e, err := simkdc.NewEndpoint("reserve", k, simkdc.Refuses, simkdc.Refuses)
	if err != nil {
		return 0, err
	}
	p := e.Port
	e.Close()
	return p, nil
}

func startWEP(name, host, tag string, spec *wEP, base *simkdc.KDC, kdc *sizedKDC) (*wRun, error) {
	var last error
	for try := 0; try < 20; try++ {
		e := &wRun{spec: spec, name: name, host: host, kdc: kdc, tag: tag}
		var err error
		if e.udpPort, err = reservePort(base); err != nil {
			return nil, err
		}
		e.tcpPort = e.udpPort
		if spec.twoPorts {
			if e.tcpPort, err = reservePort(base); err != nil {
				return nil, err
			}
		}
		ok := true
		for i, ip := range spec.addrs {
			if spec.tcp.on[i] {
				l, err := net.Listen("tcp", net.JoinHostPort(ip, strconv.Itoa(e.tcpPort)))
				if err != nil {
					ok, last = false, err
					break
				}
				e.tcp = append(e.tcp, l)
			}
			if spec.udp.on[i] {
				ua, err := net.ResolveUDPAddr("udp", net.JoinHostPort(ip, strconv.Itoa(e.udpPort)))
				if err != nil {
					ok, last = false, err
					break
				}
				u, err := net.ListenUDP("udp", ua)
				if err != nil {
					ok, last = false, err
					break
				}
				e.udp = append(e.udp, u)
			}
		}
		if !ok {
			e.Close()
			continue
		}
		for _, l := range e.tcp {
			e.wg.Add(1)
			go e.serveTCP(l)
		}
		for _, u := range e.udp {
			e.wg.Add(1)
			go e.serveUDP(u)
		}
		return e, nil
	}
	return nil, fmt.Errorf("cannot bind the endpoint's addresses: %v", last)
}

func (e *wRun) Close() {
	for _, u := range e.udp {
		u.Close()
	}
	for _, l := range e.tcp {
		l.Close()
	}
	e.conns.Range(func(k, _ any) bool { k.(net.Conn).Close(); return true })
	e.wg.Wait()
}

// reply builds what the side answers to req; complete says whether it is a well-formed answer sent in full.
func (e *wRun) reply(req []byte, transport string, side wSide) []byte {
	var rep []byte
	switch side.mode {
	case simkdc.Answers:
		rep = e.kdc.handle(req, transport, e.name, side.size)
	case simkdc.KrbError:
		var t string
		rep, t = sizedError(simkdc.ErrCPrincipalUnknown, e.tag, side.size)
		e.mu.Lock()
		e.etexts = append(e.etexts, t)
		e.mu.Unlock()
	case simkdc.TooBig:
		rep, _ = sizedError(simkdc.ErrResponseTooBig, e.tag, 0)
	case simkdc.EmptyReply:
		return []byte{}
	default:
		return nil
	}
	e.mu.Lock()
	e.sent = append(e.sent, rep)
	e.sentSizes = append(e.sentSizes, fmt.Sprintf("%s:%s:%d", transport, side.mode, len(rep)))
	e.mu.Unlock()
	return rep
}

func (e *wRun) serveUDP(c *net.UDPConn) {
	defer e.wg.Done()
	buf := make([]byte, 65536)
	for {
		n, addr, err := c.ReadFromUDP(buf)
		if err != nil {
			return
		}
		e.UDPDatagrams.Add(1)
		rep := e.reply(append([]byte{}, buf[:n]...), "udp", e.spec.udp)
		if rep == nil {
			continue
		}
		c.WriteToUDP(rep, addr)
	}
}

func (e *wRun) serveTCP(l net.Listener) {
	defer e.wg.Done()
	for {
		c, err := l.Accept()
		if err != nil {
			return
		}
		e.TCPConns.Add(1)
		e.conns.Store(c, true)
		e.wg.Add(1)
		go func(c net.Conn) {
			defer e.wg.Done()
			defer e.conns.Delete(c)
			defer c.Close()
			if e.spec.tcp.mode == simkdc.CloseAtOnce {
				return
			}
			c.SetDeadline(time.Now().Add(30 * time.Second))
			var hdr [4]byte
			if _, err := io.ReadFull(c, hdr[:]); err != nil {
				return
			}
			l := binary.BigEndian.Uint32(hdr[:])
			if l > 1<<20 {
				return
			}
			req := make([]byte, l)
			if _, err := io.ReadFull(c, req); err != nil {
				return
			}
			side := e.spec.tcp
			if side.mode == simkdc.CloseInBody {
				side.mode = simkdc.Answers
			}
			rep := e.reply(req, "tcp", side)
			if rep == nil {
				return
			}
			out := make([]byte, 4+len(rep))
			binary.BigEndian.PutUint32(out, uint32(len(rep)))
			copy(out[4:], rep)
			if e.spec.tcp.mode == simkdc.CloseInBody {
				c.Write(out[:4+len(rep)/2])
				return
			}
			c.Write(out)
		}(c)
	}
}

// ---- running one case ----

type wideEnv struct {
	dns   *dnsServer
	k     *simkdc.KDC
	kw    *sizedKDC
	kt    *keytab.Keytab
	srvMu sync.Mutex // the SRV record sets of the realm are process-wide: dns-srv cases run one at a time
	v6    bool
}

func runWide(r0 *vh.Run, env *wideEnv, c wCase, ck string, quiet bool, viol func(fp, what string, d map[string]any)) {
	r := recorder{r0, quiet}
	tag := fmt.Sprintf("c12-%016x-", vh.H64(ck))
	var eps []*wRun
	defer func() {
		for _, e := range eps {
			e.Close()
		}
	}()
	if c.fam == famSRV {
		env.srvMu.Lock()
		defer env.srvMu.Unlock()
	}
	var sb strings.Builder
	fmt.Fprintf(&sb, "[libdefaults]\n default_realm = %s\n dns_lookup_kdc = %v\n dns_lookup_realm = false\n noaddresses = true\n default_tkt_enctypes = aes256-cts-hmac-sha1-96\n default_tgs_enctypes = aes256-cts-hmac-sha1-96\n udp_preference_limit = %d\n", realm, c.fam == famSRV, c.limit)
	if c.fam != famSRV || c.stanza {
		fmt.Fprintf(&sb, "[realms]\n %s = {\n", realm)
	}
	var srvU, srvT []srvRec
	for i := range c.eps {
		spec := &c.eps[i]
		host := ""
		if spec.byName {
			host = fmt.Sprintf("kdc%d-%016x.c12.test", i, vh.H64(ck))
			if err := env.dns.setAddrs(host, spec.addrs); err != nil {
				r.Inconclusive("name server table: " + err.Error())
				return
			}
		}
		e, err := startWEP(fmt.Sprintf("%s#%d", ck, i), host, tag, spec, env.k, env.kw)
		if err != nil {
			r.Inconclusive("cannot create endpoint: " + err.Error())
			return
		}
		eps = append(eps, e)
		switch {
		case c.fam == famSRV:
			if spec.udp.pub {
				srvU = append(srvU, srvRec{prio: spec.prio, weight: spec.weight, port: e.udpPort, target: host})
			}
			if spec.tcp.pub {
				srvT = append(srvT, srvRec{prio: spec.prio, weight: spec.weight, port: e.tcpPort, target: host})
			}
		case spec.byName:
			fmt.Fprintf(&sb, "  kdc = %s:%d\n", host, e.udpPort)
		default:
			fmt.Fprintf(&sb, "  kdc = %s:%d\n", spec.addrs[0], e.udpPort)
		}
	}
	if c.fam == famSRV {
		if c.stanza {
			sb.WriteString("  default_domain = test.gokrb5\n")
		}
		env.dns.setSRV("_kerberos._udp."+realm, srvU, len(srvU) > 0 || c.nodata)
		env.dns.setSRV("_kerberos._tcp."+realm, srvT, len(srvT) > 0 || c.nodata)
		defer env.dns.setSRV("_kerberos._udp."+realm, nil, false)
		defer env.dns.setSRV("_kerberos._tcp."+realm, nil, false)
	}
	if c.fam != famSRV || c.stanza {
		sb.WriteString(" }\n")
	}
	sb.WriteString("[domain_realm]\n .test.gokrb5 = " + realm + "\n")
	cfg, err := config.NewFromString(sb.String())
	if err != nil {
		r.Inconclusive("config: " + err.Error())
		return
	}
	opErr, tkt, pnc, pv, pw := execOp(c.op, cfg, c.limit, env.k, env.kt, ck, func(cl *client.Client) { cl.Config = cfg })
	r.Eval(ck, true)
	var att []string
	var total int64
	for i, e := range eps {
		e.mu.Lock()
		att = append(att, fmt.Sprintf("kdc%d (%s udp port %d tcp port %d): udp datagrams=%d tcp conns=%d replies sent=%v", i, e.host, e.udpPort, e.tcpPort, e.UDPDatagrams.Load(), e.TCPConns.Load(), e.sentSizes))
		e.mu.Unlock()
		total += e.UDPDatagrams.Load() + e.TCPConns.Load()
	}
	a, okS, okK, okF, why, undet := c.effective()
	d := map[string]any{"case": ck, "family": c.fam, "assignment": c.String(), "effective_assignment": a.String(), "result": fmt.Sprint(opErr), "attempts_observed": att}
	if c.fam == famSRV {
		d["srv_udp"], d["srv_tcp"] = fmt.Sprint(srvU), fmt.Sprint(srvT)
	}
	msgs := 1
	if c.op == "login-password" {
		msgs = 2 // PREAUTH_REQUIRED, then the request with the encrypted timestamp
	}
	outcome, held := judge(r, verdictIn{a: a, okS: okS, okK: okK, okF: okF, why: why, opErr: opErr, pnc: pnc, pv: pv, pw: pw, total: total, msgs: msgs, fam: c.fam}, ck, d, viol)
	if !held {
		return
	}
	if undet {
		r.Inc("observe_udp_service_on_some_addresses_of_the_name_" + outcome)
	}
	// what came back is what a KDC sent
	switch outcome {
	case "success":
		if tkt != nil {
			found := false
			for _, e := range eps {
				e.mu.Lock()
				for _, s := range e.sent {
					if len(tkt.EncPart.Cipher) > 0 && bytes.Contains(s, tkt.EncPart.Cipher) {
						found = true
					}
				}
				e.mu.Unlock()
			}
			if !found {
				viol("C12|ticket-not-the-one-a-kdc-sent|"+c.fam, "the service ticket returned is in none of the replies the case's KDCs sent", d)
				return
			}
			r.Inc("ticket_compared_with_the_kdcs_reply")
		}
	case "krb_error_6":
		var kerr messages.KRBError
		if errors.As(opErr, &kerr) {
			found := false
			for _, e := range eps {
				e.mu.Lock()
				for _, t := range e.etexts {
					if t == kerr.EText {
						found = true
					}
				}
				e.mu.Unlock()
			}
			if !found {
				d["etext_surfaced_len"] = len(kerr.EText)
				viol("C12|krb-error-altered|"+c.fam, "the KRB-ERROR surfaced carries an e-text that no KDC of the case sent", d)
				return
			}
			r.Inc("krb_error_text_compared")
		} else {
			r.Inc("observe_krb_error_surfaced_without_the_message")
		}
	}
	// coverage of the regions the families exist for
	switch c.fam {
	case famName:
		if outcome == "success" {
			must := true // every endpoint that answers does so over TCP only, on a name whose first listed address has no TCP listener
			any := false
			for i, m := range a.eps {
				e := c.eps[i]
				if (c.limit != 1 && m.udp == simkdc.Answers) || m.tcp == simkdc.Answers && !(e.byName && len(e.addrs) > 1 && !e.tcp.on[0]) {
					must = false
				}
				if m.tcp == simkdc.Answers {
					any = true
				}
			}
			if must && any {
				r.Inc("kdc_name_success_needs_tcp_beyond_first_listed_address")
			}
		}
	case famSRV:
		differ := fmt.Sprint(srvU) != fmt.Sprint(srvT)
		if differ && outcome == "success" {
			r.Inc("dns_srv_success_record_sets_differ")
		}
		if differ && outcome == "krb_error_6" {
			r.Inc("dns_srv_krb_error_record_sets_differ")
		}
		if len(srvU) == 0 || len(srvT) == 0 {
			r.Inc("dns_srv_one_transport_unpublished_" + outcome)
		}
	case famSize:
		for _, e := range eps {
			e.mu.Lock()
			for _, s := range e.sentSizes {
				p := strings.Split(s, ":")
				n, _ := strconv.Atoi(p[2])
				if p[0] == "udp" && (p[1] == simkdc.Answers || p[1] == simkdc.KrbError) {
					switch {
					case n > 3072:
						r.Inc("reply_size_udp_3073_4096")
					case n > 2048:
						r.Inc("reply_size_udp_2049_3072")
					case n > 1500:
						r.Inc("reply_size_udp_1501_2048")
					case n > 1024:
						r.Inc("reply_size_udp_1025_1500")
					default:
						r.Inc("reply_size_udp_upto_1024")
					}
					if n == maxDgram {
						r.Inc("reply_size_udp_exactly_4096")
					}
				}
				if p[0] == "tcp" && n > maxDgram {
					r.Inc("reply_size_tcp_over_4096")
				}
			}
			e.mu.Unlock()
		}
	}
}

// ---- generating the cases ----

var wUDPModes = []string{simkdc.Answers, simkdc.Answers, simkdc.Refuses, simkdc.KrbError, simkdc.TooBig, simkdc.EmptyReply}
var wTCPModes = []string{simkdc.Answers, simkdc.Answers, simkdc.Refuses, simkdc.KrbError, simkdc.CloseAtOnce, simkdc.CloseInBody}

func allOn(n int, v bool) []bool {
	on := make([]bool, n)
	for i := range on {
		on[i] = v
	}
	return on
}

// someOn: a non-empty subset of n addresses, every subset equally likely.
func someOn(rnd *vh.Rand, n int) []bool {
	m := 1 + rnd.Intn(1<<n-1)
	on := make([]bool, n)
	for i := range on {
		on[i] = m>>i&1 == 1
	}
	return on
}

func pickAddrs(rnd *vh.Rand, n int, v6 bool) []string {
	var out []string
	seen := map[int]bool{}
	for len(out) < n {
		x := 1 + rnd.Intn(8)
		if seen[x] {
			continue
		}
		seen[x] = true
		out = append(out, fmt.Sprintf("127.0.0.%d", x))
	}
	if v6 && n > 1 && rnd.Intn(4) == 0 {
		out[rnd.Intn(n)] = "::1"
	}
	return out
}

func wideCases(v6 bool) []wCase {
	var cs []wCase
	limits := []int{1, 10, 32700}
	scale := func(q, t int) int {
		if vh.Thorough() {
			return t
		}
		return q
	}

	// kdc-name
	rnd := vh.NewRand("c12", famName)
	for i, n := 0, scale(220, 3000); i < n; i++ {
		c := wCase{fam: famName, limit: limits[rnd.Intn(3)], op: "login"}
		if rnd.Intn(6) == 0 {
			c.op = "tgs"
		}
		for j, nk := 0, 1+rnd.Intn(2); j < nk; j++ {
			e := wEP{byName: true}
			na := 1 + rnd.Intn(3)
			if j == 1 && rnd.Intn(4) == 0 {
				e.byName, na = false, 1
			}
			e.addrs = pickAddrs(rnd, na, v6)
			e.tcp.mode = wTCPModes[rnd.Intn(len(wTCPModes))]
			e.tcp.on = allOn(na, false)
			if e.tcp.mode != simkdc.Refuses {
				e.tcp.on = someOn(rnd, na)
			}
			e.udp.mode = wUDPModes[rnd.Intn(len(wUDPModes))]
			e.udp.on = allOn(na, false)
			if e.udp.mode != simkdc.Refuses {
				e.udp.on = allOn(na, true)
				if rnd.Intn(4) == 0 {
					e.udp.on = someOn(rnd, na)
				}
			}
			c.eps = append(c.eps, e)
		}
		cs = append(cs, c)
	}

	// dns-srv
	rnd = vh.NewRand("c12", famSRV)
	for i, n := 0, scale(120, 1500); i < n; i++ {
		c := wCase{fam: famSRV, limit: limits[rnd.Intn(3)], op: "login", nodata: rnd.Bool(), stanza: rnd.Bool()}
		if rnd.Intn(6) == 0 {
			c.op = "tgs"
		}
		for j, nk := 0, 1+rnd.Intn(3); j < nk; j++ {
			e := wEP{byName: true, prio: []uint16{0, 10, 20}[rnd.Intn(3)], weight: []uint16{0, 1, 10}[rnd.Intn(3)], twoPorts: rnd.Bool()}
			na := 1
			if rnd.Intn(4) == 0 {
				na = 2
			}
			e.addrs = pickAddrs(rnd, na, v6)
			switch rnd.Intn(3) {
			case 0:
				e.udp.pub, e.tcp.pub = true, true
			case 1:
				e.udp.pub = true
			default:
				e.tcp.pub = true
			}
			// a service that is not published does not exist: nothing is bound for it
			e.udp.mode, e.udp.on = simkdc.Refuses, allOn(na, false)
			if e.udp.pub {
				if e.udp.mode = wUDPModes[rnd.Intn(len(wUDPModes))]; e.udp.mode != simkdc.Refuses {
					e.udp.on = allOn(na, true)
				}
			}
			e.tcp.mode, e.tcp.on = simkdc.Refuses, allOn(na, false)
			if e.tcp.pub {
				if e.tcp.mode = wTCPModes[rnd.Intn(len(wTCPModes))]; e.tcp.mode != simkdc.Refuses {
					e.tcp.on = allOn(na, true)
				}
			}
			c.eps = append(c.eps, e)
		}
		cs = append(cs, c)
	}

	// reply-size: the boundary sizes and a sample in between, each as a plain answer and as a KRB-ERROR over UDP (UDP first, and
	// UDP as the fallback of TCP first), then a sample of mixed cases
	rnd = vh.NewRand("c12", famSize)
	sizes := []int{256, 512, 1024, 1400, 1472, 1473, 1500, 1501, 2048, 2049, 3000, 3500, 4000, 4095, 4096}
	for i, n := 0, scale(25, 400); i < n; i++ {
		sizes = append(sizes, 200+rnd.Intn(maxDgram-199))
	}
	one := func(udpMode string, udpSize int, tcpMode string, tcpSize int) wEP {
		e := wEP{addrs: []string{"127.0.0.1"}, udp: wSide{mode: udpMode, on: []bool{udpMode != simkdc.Refuses}, size: udpSize}, tcp: wSide{mode: tcpMode, on: []bool{tcpMode != simkdc.Refuses}, size: tcpSize}}
		return e
	}
	for _, s := range sizes {
		for _, l := range []int{32700, 10} {
			cs = append(cs, wCase{fam: famSize, limit: l, op: "login", eps: []wEP{one(simkdc.Answers, s, simkdc.Refuses, 0)}})
			cs = append(cs, wCase{fam: famSize, limit: l, op: "login", eps: []wEP{one(simkdc.KrbError, s, simkdc.Refuses, 0)}})
		}
		cs = append(cs, wCase{fam: famSize, limit: 32700, op: "login-password", eps: []wEP{one(simkdc.Answers, s, simkdc.Refuses, 0)}})
		cs = append(cs, wCase{fam: famSize, limit: 32700, op: "tgs", eps: []wEP{one(simkdc.Answers, s, simkdc.Refuses, 0)}})
	}
	tcpSizes := []int{4097, 8192, 16384, 32767, 32768, 65535, 65536, 70000}
	for _, s := range tcpSizes {
		for _, l := range limits {
			cs = append(cs, wCase{fam: famSize, limit: l, op: "login", eps: []wEP{one(simkdc.TooBig, 0, simkdc.Answers, s)}})
		}
		cs = append(cs, wCase{fam: famSize, limit: 1, op: "login", eps: []wEP{one(simkdc.Refuses, 0, simkdc.KrbError, s)}})
		cs = append(cs, wCase{fam: famSize, limit: 1, op: "tgs", eps: []wEP{one(simkdc.Refuses, 0, simkdc.Answers, s)}})
	}
	ops := []string{"login", "login", "login-password", "tgs"}
	for i, n := 0, scale(80, 1500); i < n; i++ {
		c := wCase{fam: famSize, limit: limits[rnd.Intn(3)], op: ops[rnd.Intn(len(ops))]}
		for j, nk := 0, 1+rnd.Intn(2); j < nk; j++ {
			um, tm := wUDPModes[rnd.Intn(len(wUDPModes))], wTCPModes[rnd.Intn(len(wTCPModes))]
			us, ts := sizes[rnd.Intn(len(sizes))], 0
			if rnd.Intn(3) == 0 {
				ts = 200 + rnd.Intn(70000)
			}
			c.eps = append(c.eps, one(um, us, tm, ts))
		}
		cs = append(cs, c)
	}
	return cs
}
