package c12

import (
	"context"
	"encoding/binary"
	"fmt"
	"net"
	"strings"
	"sync"
	"sync/atomic"
)

// A name server for the test process: host names with several addresses (A / AAAA records) and the SRV record sets with which
// a realm publishes its KDCs. net.DefaultResolver is pointed at it, so every name lookup gokrb5 makes (net.Dial with a host
// name, net.LookupSRV behind dnsutils.OrderedSRV) is answered from the tables below; nothing leaves the loopback interface.

type srvRec struct {
	prio, weight uint16
	port         int
	target       string // host name without the trailing dot
}

type dnsServer struct {
	pc      net.PacketConn
	mu      sync.RWMutex
	addrs   map[string][]net.IP // lower-case FQDN with trailing dot -> addresses in answer order
	srvs    map[string][]srvRec // lower-case FQDN with trailing dot -> records (an empty set answers NOERROR without data)
	queries atomic.Int64
	old     *net.Resolver
}

func fqdn(name string) string { return strings.ToLower(strings.TrimSuffix(name, ".")) + "." }

// startDNS starts the responder on a loopback UDP port and installs it as the process's resolver.
func startDNS() (*dnsServer, error) {
	pc, err := net.ListenPacket("udp4", "127.0.0.1:0")
	if err != nil {
		return nil, err
	}
	s := &dnsServer{pc: pc, addrs: map[string][]net.IP{}, srvs: map[string][]srvRec{}, old: net.DefaultResolver}
	go s.serve()
	at := pc.LocalAddr().String()
	net.DefaultResolver = &net.Resolver{
		PreferGo: true,
		Dial: func(ctx context.Context, network, address string) (net.Conn, error) {
			var d net.Dialer
			return d.DialContext(ctx, "udp4", at)
		},
	}
	return s, nil
}

func (s *dnsServer) stop() {
	net.DefaultResolver = s.old
	s.pc.Close()
}

func (s *dnsServer) setAddrs(name string, ips []string) error {
	var l []net.IP
	for _, ip := range ips {
		p := net.ParseIP(ip)
		if p == nil {
			return fmt.Errorf("bad address %q", ip)
		}
		l = append(l, p)
	}
	s.mu.Lock()
	s.addrs[fqdn(name)] = l
	s.mu.Unlock()
	return nil
}

// setSRV publishes the record set under the name; recs == nil with exists == false removes the name (NXDOMAIN).
func (s *dnsServer) setSRV(name string, recs []srvRec, exists bool) {
	s.mu.Lock()
	if exists {
		s.srvs[fqdn(name)] = append([]srvRec{}, recs...)
	} else {
		delete(s.srvs, fqdn(name))
	}
	s.mu.Unlock()
}

func packName(name string) []byte {
	var b []byte
	for _, l := range strings.Split(strings.TrimSuffix(name, "."), ".") {
		if l == "" {
			continue
		}
		b = append(b, byte(len(l)))
		b = append(b, l...)
	}
	return append(b, 0)
}

func (s *dnsServer) serve() {
	buf := make([]byte, 4096)
	for {
		n, from, err := s.pc.ReadFrom(buf)
		if err != nil {
			return
		}
		q := buf[:n]
		if n < 17 || q[2]&0x80 != 0 || binary.BigEndian.Uint16(q[4:6]) != 1 {
			continue
		}
		// the single question
		var labels []string
		i, ok := 12, true
		for {
			if i >= n {
				ok = false
				break
			}
			l := int(q[i])
			if l == 0 {
				break
			}
			if l > 63 || i+1+l > n {
				ok = false
				break
			}
			labels = append(labels, string(q[i+1:i+1+l]))
			i += 1 + l
		}
		if !ok || i+5 > n {
			continue
		}
		qend := i + 5
		qtype := binary.BigEndian.Uint16(q[i+1 : i+3])
		name := strings.ToLower(strings.Join(labels, ".")) + "."
		s.queries.Add(1)
		r := make([]byte, 12, 512)
		copy(r[0:2], q[0:2])
		r[2], r[3] = 0x84|q[2]&0x01, 0x80 // response, authoritative, RD as asked, RA, NOERROR
		r[5] = 1                          // one question, echoed as it was asked
		r = append(r, q[12:qend]...)
		s.mu.RLock()
		ips, knownA := s.addrs[name]
		srvs, knownS := s.srvs[name]
		s.mu.RUnlock()
		answers := 0
		rr := func(typ uint16, rdata []byte) {
			r = append(r, 0xc0, 0x0c, byte(typ>>8), byte(typ), 0, 1, 0, 0, 0, 0, byte(len(rdata)>>8), byte(len(rdata)))
			r = append(r, rdata...)
			answers++
		}
		switch {
		case !knownA && !knownS:
			r[3] |= 3 // NXDOMAIN
		case qtype == 1 || qtype == 28:
			for _, ip := range ips {
				if v4 := ip.To4(); v4 != nil {
					if qtype == 1 {
						rr(1, v4)
					}
				} else if qtype == 28 {
					rr(28, ip.To16())
				}
			}
		case qtype == 33:
			for _, sr := range srvs {
				rd := []byte{byte(sr.prio >> 8), byte(sr.prio), byte(sr.weight >> 8), byte(sr.weight), byte(sr.port >> 8), byte(sr.port)}
				rr(33, append(rd, packName(sr.target)...))
			}
		}
		binary.BigEndian.PutUint16(r[6:8], uint16(answers))
		s.pc.WriteTo(r, from)
	}
}
