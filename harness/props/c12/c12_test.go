package c12

import (
	"errors"
	"fmt"
	"net"
	"sort"
	"strings"
	"sync"
	"testing"
	"time"

	"github.com/jcmturner/gokrb5/v8/client"
	"github.com/jcmturner/gokrb5/v8/config"
	"github.com/jcmturner/gokrb5/v8/keytab"
	"github.com/jcmturner/gokrb5/v8/krberror"
	"github.com/jcmturner/gokrb5/v8/messages"

	_ "verif/props/pcommon" // non-UTC local time zone for the process
	"verif/ref/accept"
	"verif/ref/kcrypto"
	"verif/ref/kmsg"
	"verif/simkdc"
	"verif/vh"
)

const realm = "TEST.GOKRB5"

var udpModes = []string{simkdc.Answers, simkdc.Refuses, simkdc.Silent, simkdc.KrbError, simkdc.TooBig, simkdc.EmptyReply}
var tcpModes = []string{simkdc.Answers, simkdc.Refuses, simkdc.Silent, simkdc.KrbError, simkdc.CloseAtOnce, simkdc.CloseInLen, simkdc.CloseInBody}

type epMode struct{ udp, tcp string }

type assignment struct {
	eps   []epMode
	limit int
	op    string // login | tgs
	fam   string // "" for the basic enumeration, else the widened family the case belongs to
}

func (a assignment) String() string {
	var s []string
	for _, e := range a.eps {
		s = append(s, e.udp+"+"+e.tcp)
	}
	if a.fam != "" {
		return fmt.Sprintf("%s/limit=%d/%s/%s", a.fam, a.limit, a.op, strings.Join(s, ","))
	}
	return fmt.Sprintf("limit=%d/%s/%s", a.limit, a.op, strings.Join(s, ","))
}

func (a assignment) silent() int {
	n := 0
	for _, e := range a.eps {
		if e.udp == simkdc.Silent {
			n++
		}
		if e.tcp == simkdc.Silent {
			n++
		}
	}
	return n
}

// allowed computes the set of permitted outcomes from the assignment alone (order independent).
func allowed(a assignment, reqLen int) (success, krb6, failure bool, why string) {
	udpOK, tcpOK := a.limit != 1, true
	anyAnswer, anyKrb, tcpAnswer, udpTooBig := false, false, false, false
	for _, e := range a.eps {
		if udpOK {
			switch e.udp {
			case simkdc.Answers:
				anyAnswer = true
			case simkdc.KrbError:
				anyKrb = true
			case simkdc.TooBig:
				udpTooBig = true
			}
		}
		if tcpOK {
			switch e.tcp {
			case simkdc.Answers:
				anyAnswer, tcpAnswer = true, true
			case simkdc.KrbError:
				anyKrb = true
			}
		}
	}
	success = anyAnswer
	krb6 = anyKrb
	// The library takes the first reply of any kind it receives on a transport and moves to the next KDC only when an endpoint
	// gives no reply: if nothing answers correctly but some endpoint sends a KRB-ERROR, that error is what must come back -
	// unless a response-too-big on UDP may have ended the UDP round before the KRB-ERROR endpoint was reached.
	switch {
	case !anyAnswer && !anyKrb:
		failure, why = true, "no endpoint answers on a permitted transport"
	case !anyAnswer && udpTooBig:
		failure, why = true, "no endpoint answers correctly and a response-too-big on UDP may end the UDP round before the KRB-ERROR endpoint is reached"
	case !anyAnswer:
		why = "no endpoint answers correctly, but one sends a KRB-ERROR: it must be surfaced"
	case udpTooBig && !tcpAnswer:
		failure, why = true, "a KDC answered response-too-big on UDP and no KDC answers on TCP"
	}
	return
}

func TestProp(t *testing.T) {
	r := vh.Start("C12")
	defer r.Finish()
	if err := kcrypto.SelfTest(); err != nil {
		r.Inconclusive("reference self-test failed: " + err.Error())
		return
	}
	r.SetRule("fault enumeration: each configured KDC is a loopback endpoint whose UDP side behaves as one of {answers, refuses, silent, KRB-ERROR(6), response-too-big, empty datagram} and whose TCP side as one of {answers, refuses, silent, KRB-ERROR(6), closes at once, closes inside the length prefix, closes inside the body}; " +
		"crossed with udp_preference_limit in {1 (TCP only), 10 (smaller than any request: TCP first), 32700 (UDP first)}. 1 KDC: exhaustive (42 x 3); 2 KDCs: exhaustive in thorough (1764 x 3), restricted to <= 1 silent side in quick; 3 KDCs: seeded sample. " +
		"Oracle: the set of permitted outcomes computed from the assignment alone (the library randomises the KDC order); attempts observed by the endpoints are bounded. distinct = assignment; non-trivial = all")
	r.Assume("outcome sets: success permitted iff some endpoint answers on a permitted transport; KRB-ERROR 6 permitted iff some endpoint answers it on a permitted transport; plain failure permitted iff nothing answers and nothing sends a KRB-ERROR, or a UDP endpoint said response-too-big and nothing answers correctly on TCP; a surfaced KRB-ERROR is the KRBError itself or a client error of root cause KDC_Error naming the code")
	r.Note("'silent' costs the library's hard-coded 5 s per attempt: cases run concurrently; real time, no virtual clock")
	r.Note("widened families, judged by the same outcome sets (seeded samples, no silent sides): kdc-name = KDCs configured by host name, the name having 1-3 loopback addresses (A and AAAA records from the package's own name server behind net.DefaultResolver) with the TCP service listening on some of them and the UDP service on all or some; " +
		"dns-srv = no kdc lines, dns_lookup_kdc = true, the realm's _kerberos._udp / _kerberos._tcp SRV record sets name different hosts or ports per transport or exist for one transport only; " +
		"reply-size = AS-REP / TGS-REP / KRB-ERROR padded to every boundary size and a sample of sizes up to 4096 bytes over UDP and up to 70 000 bytes over TCP")
	r.Note("limit-values = the endpoint behaviours crossed with the other values of udp_preference_limit that krb5.conf accepts: 0, 2, 3, the size of the request the client sends and its neighbours, 1465, and a seeded sample up to 32700; " +
		"kpasswd = Client.ChangePasswd with two realms configured (each with its own KDC and kpasswd_server lines, default_realm the client's realm or the other one), every password-change server side behaving as answers / refuses / closes early (silent in the thorough tier)")
	r.Assume("every udp_preference_limit other than 1 permits both transports (0 is smaller than every request: TCP first, UDP second); the permitted outcomes do not depend on which transport is tried first")
	r.Assume("the password change is an exchange with the servers configured for the CLIENT's realm: it must succeed when one of them answers on every permitted transport (whatever the others and the servers of other realms do) and fail when none answers on a permitted transport; " +
		"whether it has to fall back to the other transport when a server answers on one of two permitted transports only is not determined by the statement (it names the KDC exchange): counted as observe_kpasswd_server_answers_on_one_of_two_transports_only_*, not judged")
	r.Assume("a KDC configured by a host name answers over TCP if its service listens on at least one address of the name (connecting to a name tries its addresses in turn); whether a UDP service that answers on only some addresses of its name must be found is not determined by the statement: such cases are judged under both readings and counted as observe_udp_service_on_some_addresses_of_the_name_*")
	r.Assume("a KDC located with DNS is configured for exactly the transports whose SRV record set names it, at the port given there; SRV priorities and weights are not judged")
	r.Assume("a reply of up to 4096 bytes in one UDP datagram (MIT kdc_max_dgram_reply_size) is a correct answer; larger replies are only sent over TCP")

	rnd := vh.NewRand("c12")
	k := simkdc.New(time.Now, vh.NewRand("c12kdc").Bytes)
	k.AddRealm(realm)
	k.Realms[realm].PreAuth = "none"
	p := k.AddService(realm, kmsg.N(1, "ktuser"), 18)
	k.AddService(realm, kmsg.N(2, "HTTP", "host.test.gokrb5"), 18)
	// a password client that must pre-authenticate: a login with the wrong password is answered PREAUTH_REQUIRED, then PREAUTH_FAILED
	if pc, err := k.AddPasswordClient(realm, kmsg.N(1, "pwuser"), "the right password", nil, 0, 18); err == nil {
		pc.PreAuth = "info2"
	} else {
		r.Inconclusive("password client: " + err.Error())
		return
	}
	kt := keytab.New()
	if err := kt.Unmarshal(accept.KeytabV2([]accept.KeytabEntry{{Realm: realm, Name: p.Name, Kvno: 1, Etype: 18, Key: p.Keys[0].Key, Timestamp: 1}})); err != nil {
		r.Inconclusive("keytab: " + err.Error())
		return
	}

	var as []assignment
	limits := []int{1, 10, 32700}
	var all []epMode
	for _, u := range udpModes {
		for _, tc := range tcpModes {
			all = append(all, epMode{u, tc})
		}
	}
	for _, l := range limits {
		for _, e := range all {
			as = append(as, assignment{eps: []epMode{e}, limit: l, op: "login"})
		}
	}
	n1 := len(as)
	for _, l := range limits {
		for _, e1 := range all {
			for _, e2 := range all {
				a := assignment{eps: []epMode{e1, e2}, limit: l, op: "login"}
				if !vh.Thorough() && a.silent() > 1 {
					continue
				}
				as = append(as, a)
			}
		}
	}
	n3 := 150
	if vh.Thorough() {
		n3 = 4000
	}
	for i := 0; i < n3; i++ {
		a := assignment{eps: []epMode{all[rnd.Intn(len(all))], all[rnd.Intn(len(all))], all[rnd.Intn(len(all))]}, limit: limits[rnd.Intn(3)], op: "login"}
		if !vh.Thorough() && a.silent() > 1 {
			i--
			continue
		}
		as = append(as, a)
	}
	// the TGS exchange goes through the same network layer: a sample with 2 KDCs
	for i := 0; i < 120; i++ {
		a := assignment{eps: []epMode{all[rnd.Intn(len(all))], all[rnd.Intn(len(all))]}, limit: limits[rnd.Intn(3)], op: "tgs"}
		if a.silent() > 0 {
			i--
			continue
		}
		as = append(as, a)
	}
	// a login with a wrong password: the KDC's second answer (KRB-ERROR 24, after PREAUTH_REQUIRED) must come back as that error
	for _, l := range limits {
		for _, e := range all {
			if e.udp == simkdc.Silent || e.tcp == simkdc.Silent {
				continue
			}
			as = append(as, assignment{eps: []epMode{e}, limit: l, op: "login-wrong-password"})
		}
	}
	for i := 0; i < 100; i++ {
		a := assignment{eps: []epMode{all[rnd.Intn(len(all))], all[rnd.Intn(len(all))]}, limit: limits[rnd.Intn(3)], op: "login-wrong-password"}
		if a.silent() > 0 {
			i--
			continue
		}
		as = append(as, a)
	}
	r.Count("assignments_1kdc", int64(n1))
	// the other values of udp_preference_limit (limits_test.go)
	var perr error
	if limitReqLen, perr = probeRequestSize(k, kt); perr != nil || limitReqLen < 64 {
		r.Inconclusive(fmt.Sprintf("cannot measure the size of the client's AS-REQ: %d bytes, %v", limitReqLen, perr))
		return
	}
	r.Count("limit_values_probe_request_size", int64(limitReqLen))
	as = append(as, limitCases(all, limitReqLen)...)

	// the widened families (wide_test.go): KDCs behind host names with several addresses, KDCs published with DNS SRV records, replies of every size
	dns, err := startDNS()
	if err != nil {
		r.Inconclusive("cannot start the test's name server: " + err.Error())
		return
	}
	defer dns.stop()
	env := &wideEnv{dns: dns, k: k, kw: newSizedKDC(k), kt: kt}
	if l, err := net.Listen("tcp6", "[::1]:0"); err == nil {
		l.Close()
		env.v6 = true
	} else {
		r.Note("no IPv6 loopback address: host names with A and AAAA records are not generated")
	}
	if why := dnsSelfTest(dns); why != "" {
		r.Inconclusive("the test's name server does not serve this process's resolver: " + why)
		return
	}
	wide := wideCases(env.v6)

	sem := make(chan struct{}, 400)
	var wg sync.WaitGroup
	type candidate struct {
		ck    string
		fp    string
		what  string
		d     map[string]any
		rerun func(viol func(fp, what string, d map[string]any))
	}
	var cands []candidate
	var candMu sync.Mutex
	// report files a verdict: the timing-sensitive ones are confirmed in isolation first
	report := func(ck string, rerun func(viol func(fp, what string, d map[string]any))) func(fp, what string, d map[string]any) {
		return func(fp, what string, d map[string]any) {
			if timingSensitive(fp) {
				// the outcome depends on every endpoint answering within the library's 5 s: confirm it without the other 399 cases
				candMu.Lock()
				cands = append(cands, candidate{ck, fp, what, d, rerun})
				candMu.Unlock()
				return
			}
			r.Violation(fp, what, d)
		}
	}
	// the dns-srv cases share the realm's two SRV names: they run one after the other, before the machine is loaded
	for _, c := range wide {
		ck := c.String()
		if c.fam != famSRV || !r.Mine(ck) {
			continue
		}
		c := c
		runWide(r, env, c, ck, false, report(ck, func(viol func(fp, what string, d map[string]any)) { runWide(r, env, c, ck, true, viol) }))
	}
	wsem := make(chan struct{}, 48)
	for _, c := range wide {
		ck := c.String()
		if c.fam == famSRV || !r.Mine(ck) {
			continue
		}
		wg.Add(1)
		wsem <- struct{}{}
		go func(c wCase, ck string) {
			defer wg.Done()
			defer func() { <-wsem }()
			runWide(r, env, c, ck, false, report(ck, func(viol func(fp, what string, d map[string]any)) { runWide(r, env, c, ck, true, viol) }))
		}(c, ck)
	}
	// the password-change exchange (kpasswd_test.go)
	kpw, err := newKpWorld()
	if err != nil {
		r.Inconclusive("password-change family: " + err.Error())
		return
	}
	defer kpw.close()
	for _, c := range kpCases() {
		ck := c.String()
		if !r.Mine(ck) {
			continue
		}
		wg.Add(1)
		wsem <- struct{}{}
		go func(c kpCase, ck string) {
			defer wg.Done()
			defer func() { <-wsem }()
			runKp(r, kpw, c, ck, false, report(ck, func(viol func(fp, what string, d map[string]any)) { runKp(r, kpw, c, ck, true, viol) }))
		}(c, ck)
	}
	// none of these waits for a silent endpoint: they are done in a moment, and the name lookups are not competing with the big batch
	wg.Wait()
	for _, a := range as {
		ck := a.String()
		if !r.Mine(ck) {
			continue
		}
		wg.Add(1)
		sem <- struct{}{}
		go func(a assignment, ck string) {
			defer wg.Done()
			defer func() { <-sem }()
			runCase(r, k, kt, a, ck, false, report(ck, func(viol func(fp, what string, d map[string]any)) { runCase(r, k, kt, a, ck, true, viol) }))
		}(a, ck)
	}
	wg.Wait()
	sort.Slice(cands, func(i, j int) bool { return cands[i].ck < cands[j].ck })
	confirmed := 0
	for _, c := range cands {
		if confirmed >= 3 {
			// not a timing artefact: report the rest as observed
			r.Violation(c.fp, c.what, c.d)
			continue
		}
		// Alone, nothing competes for the 5 s window: one reproduction in up to twelve isolated re-runs is enough (the outcome
		// may legitimately depend on the random KDC order, so it need not reproduce every time).
		again, tries := 0, 0
		for i := 0; i < 12 && again == 0; i++ {
			tries++
			c.rerun(func(fp, what string, d map[string]any) {
				if fp == c.fp {
					again++
				}
			})
		}
		if again > 0 {
			c.d["reproduced_in_isolation"] = fmt.Sprintf("at re-run %d of at most 12", tries)
			r.Violation(c.fp, c.what, c.d)
			confirmed++
		} else {
			r.Inc("failure_under_load_not_reproduced_in_isolation")
			res := fmt.Sprint(c.d["result"])
			if len(res) > 300 {
				res = res[:300] + "..."
			}
			r.Note(fmt.Sprintf("%s: '%s' was observed once with 400 cases in flight and in none of 12 re-runs alone: counted as a timing artefact of the harness, not judged (the result was: %s)", c.ck, c.fp, res))
		}
	}
	r.Exhaustive("all assignments for 1 KDC x 3 preference limits")
	r.Require("outcome_success", 500)
	r.Require("outcome_failure", 300)
	r.Require("outcome_krb_error_6", 100)
	r.Require("outcome_krb_error_24_after_preauth", 40)
	r.Require("tcp_first_udp_fallback_success", 5)
	r.Require("udp_toobig_tcp_success", 5)
	// the widened families
	limitRequires(r)
	kpRequires(r)
	r.Count("name_server_queries", dns.queries.Load())
	r.Require("kdc_name_outcome_success", 60)
	r.Require("kdc_name_outcome_failure", 15)
	r.Require("kdc_name_outcome_krb_error_6", 10)
	r.Require("kdc_name_success_needs_tcp_beyond_first_listed_address", 5)
	r.Require("dns_srv_outcome_success", 30)
	r.Require("dns_srv_outcome_failure", 10)
	r.Require("dns_srv_outcome_krb_error_6", 5)
	r.Require("dns_srv_success_record_sets_differ", 15)
	r.Require("dns_srv_one_transport_unpublished_success", 5)
	r.Require("reply_size_outcome_success", 80)
	r.Require("reply_size_outcome_krb_error_6", 30)
	r.Require("reply_size_udp_upto_1024", 10)
	r.Require("reply_size_udp_1025_1500", 10)
	r.Require("reply_size_udp_1501_2048", 10)
	r.Require("reply_size_udp_2049_3072", 10)
	r.Require("reply_size_udp_3073_4096", 10)
	r.Require("reply_size_udp_exactly_4096", 3)
	r.Require("reply_size_tcp_over_4096", 10)
	r.Require("ticket_compared_with_the_kdcs_reply", 10)
}

// dnsSelfTest checks that this process's resolver is served by the test's name server (else the name and SRV families would
// test nothing): a name with two addresses and an SRV record set must come back as published.
func dnsSelfTest(dns *dnsServer) string {
	if err := dns.setAddrs("selftest.c12.test", []string{"127.0.0.7", "127.0.0.3"}); err != nil {
		return err.Error()
	}
	ips, err := net.LookupHost("selftest.c12.test")
	if err != nil {
		return err.Error()
	}
	sort.Strings(ips)
	if strings.Join(ips, ",") != "127.0.0.3,127.0.0.7" {
		return fmt.Sprintf("selftest.c12.test resolved to %v", ips)
	}
	dns.setSRV("_kerberos._tcp.SELFTEST.C12.TEST", []srvRec{{prio: 1, weight: 2, port: 8888, target: "selftest.c12.test"}}, true)
	defer dns.setSRV("_kerberos._tcp.SELFTEST.C12.TEST", nil, false)
	_, recs, err := net.LookupSRV("kerberos", "tcp", "SELFTEST.C12.TEST")
	if err != nil || len(recs) != 1 || recs[0].Port != 8888 || recs[0].Target != "selftest.c12.test." {
		return fmt.Sprintf("SRV lookup: %v %v", recs, err)
	}
	if _, _, err := net.LookupSRV("kerberos", "udp", "SELFTEST.C12.TEST"); err == nil {
		return "an SRV record set that is not published was found"
	}
	return ""
}

// runCase runs one assignment. quiet re-runs (confirmation of a timing-sensitive verdict in isolation) record nothing but the
// violation, which goes to viol.
func runCase(r0 *vh.Run, k *simkdc.KDC, kt *keytab.Keytab, a assignment, ck string, quiet bool, viol func(fp, what string, d map[string]any)) {
	r := recorder{r0, quiet}
	var eps []*simkdc.Endpoint
	defer func() {
		for _, e := range eps {
			e.Close()
		}
	}()
	var sb strings.Builder
	fmt.Fprintf(&sb, "[libdefaults]\n default_realm = %s\n dns_lookup_kdc = false\n dns_lookup_realm = false\n noaddresses = true\n default_tkt_enctypes = aes256-cts-hmac-sha1-96\n default_tgs_enctypes = aes256-cts-hmac-sha1-96\n udp_preference_limit = %d\n[realms]\n %s = {\n", realm, a.limit, realm)
	// for the TGS operation the login must succeed first: it runs against an always-working endpoint list, then the config is switched
	for i, m := range a.eps {
		e, err := simkdc.NewEndpoint(fmt.Sprintf("%s#%d", ck, i), k, m.udp, m.tcp)
		if err != nil {
			r.Inconclusive("cannot create endpoint: " + err.Error())
			return
		}
		eps = append(eps, e)
		fmt.Fprintf(&sb, "  kdc = %s\n", e.Addr())
	}
	sb.WriteString(" }\n[domain_realm]\n .test.gokrb5 = " + realm + "\n")
	cfg, err := config.NewFromString(sb.String())
	if err != nil {
		r.Inconclusive("config: " + err.Error())
		return
	}
	opErr, _, pnc, pv, pw := execOp(a.op, cfg, a.limit, k, kt, ck, func(cl *client.Client) { cl.Config.Realms[0].KDC = cfg.Realms[0].KDC })
	r.Eval(ck, true)
	var att []string
	var total int64
	for i, e := range eps {
		att = append(att, fmt.Sprintf("kdc%d: udp datagrams=%d tcp conns=%d answered=%d", i, e.UDPDatagrams.Load(), e.TCPConns.Load(), e.Answered.Load()))
		total += e.UDPDatagrams.Load() + e.TCPConns.Load()
	}
	d := map[string]any{"case": ck, "assignment": a.String(), "result": fmt.Sprint(opErr), "attempts_observed": att}
	okS, okK, okF, why := allowed(a, 0)
	outcome, held := judge(r, verdictIn{a: a, okS: okS, okK: okK, okF: okF, why: why, opErr: opErr, pnc: pnc, pv: pv, pw: pw, total: total, msgs: 1, fam: a.fam}, ck, d, viol)
	if a.fam == famLimit && held {
		limitCoverage(r, a, outcome)
	}
}

// execOp runs the operation of a case against the configuration cfg. For the TGS operation the login must succeed first: it
// runs against an always-working endpoint, then swap points the client at the case's configuration and a service ticket is
// asked for. The ticket of a successful TGS operation is returned.
func execOp(op string, cfg *config.Config, limit int, k *simkdc.KDC, kt *keytab.Keytab, ck string, swap func(cl *client.Client)) (opErr error, tkt *messages.Ticket, pnc bool, pv, pw string) {
	pnc, pv, pw = vh.Guard(func() {
		switch op {
		case "login-wrong-password":
			cl := client.NewWithPassword("pwuser", realm, "not the right password", cfg, client.DisablePAFXFAST(true))
			defer cl.Destroy()
			opErr = cl.Login()
			return
		case "login-password":
			cl := client.NewWithPassword("pwuser", realm, "the right password", cfg, client.DisablePAFXFAST(true))
			defer cl.Destroy()
			opErr = cl.Login()
			return
		case "login":
			cl := client.NewWithKeytab("ktuser", realm, kt, cfg, client.DisablePAFXFAST(true))
			defer cl.Destroy()
			opErr = cl.Login()
			return
		}
		// tgs: login through a healthy endpoint, then swap the KDC list of the shared config and ask for a service ticket
		good, err := simkdc.NewEndpoint(ck+"#good", k, simkdc.Answers, simkdc.Answers)
		if err != nil {
			opErr = fmt.Errorf("setup: %v", err)
			return
		}
		defer good.Close()
		cfg2, err := config.NewFromString(fmt.Sprintf("[libdefaults]\n default_realm = %s\n dns_lookup_kdc = false\n dns_lookup_realm = false\n noaddresses = true\n default_tkt_enctypes = aes256-cts-hmac-sha1-96\n default_tgs_enctypes = aes256-cts-hmac-sha1-96\n udp_preference_limit = %d\n[realms]\n %s = {\n  kdc = %s\n }\n[domain_realm]\n .test.gokrb5 = %s\n", realm, limit, realm, good.Addr(), realm))
		if err != nil {
			opErr = fmt.Errorf("setup: %v", err)
			return
		}
		cl := client.NewWithKeytab("ktuser", realm, kt, cfg2, client.DisablePAFXFAST(true))
		defer cl.Destroy()
		if err := cl.Login(); err != nil {
			opErr = fmt.Errorf("setup: login through the healthy endpoint failed: %v", err)
			return
		}
		swap(cl)
		t, _, err := cl.GetServiceTicket("HTTP/host.test.gokrb5")
		opErr = err
		if err == nil {
			tkt = &t
		}
	})
	return
}

// verdictIn is what judge needs to know about a finished case.
type verdictIn struct {
	a             assignment // the (effective) assignment: modes per endpoint and transport, limit, operation
	okS, okK, okF bool       // permitted outcomes
	why           string
	opErr         error
	pnc           bool
	pv, pw        string
	total         int64  // connection attempts the endpoints observed
	msgs          int    // messages the operation sends when all goes well
	fam           string // "" for the basic enumeration, else the name of the widened family (suffix of fingerprints, prefix of counters)
}

// judge compares the outcome with the permitted set.
func judge(r recorder, v verdictIn, ck string, d map[string]any, viol func(fp, what string, d map[string]any)) (outcome string, held bool) {
	a, opErr, okS, okK, okF, why := v.a, v.opErr, v.okS, v.okK, v.okF, v.why
	sfx, pfx := "", ""
	if v.fam != "" {
		sfx, pfx = "|"+v.fam, strings.ReplaceAll(v.fam, "-", "_")+"_"
	}
	if v.pnc {
		viol(fmt.Sprintf("C12|panic|%s|%s", v.pw, vh.PanicClass(v.pv))+sfx, "client panicked: "+v.pv, d)
		return "panic", false
	}
	if opErr != nil && strings.HasPrefix(opErr.Error(), "setup:") {
		r.Inconclusive(ck + ": " + opErr.Error())
		return "setup", false
	}
	outcome = "failure"
	switch {
	case opErr == nil:
		outcome = "success"
	case carries(opErr, 6):
		outcome = "krb_error_6"
	}
	if a.op == "login-wrong-password" {
		// where a correct login would succeed, this one must end with the KDC's PREAUTH_FAILED
		switch {
		case opErr == nil:
			viol("C12|wrong-password-login-succeeded"+sfx, "a login with a wrong password succeeded", d)
			return outcome, false
		case carries(opErr, 24):
			if !okS {
				viol("C12|krb-error-not-sent|"+a.op+sfx, "KRB-ERROR 24 was surfaced although no endpoint answers on a permitted transport", d)
				return outcome, false
			}
			r.Inc(pfx + "outcome_krb_error_24_after_preauth")
			return "krb_error_24", true
		case outcome == "krb_error_6":
			// as for the other operations
		default:
			if !okF && okS && !okK {
				viol("C12|krb-error-not-surfaced|after-pre-authentication"+sfx, "every answering endpoint says PREAUTH_REQUIRED and then PREAUTH_FAILED, but the call failed with an error that is not that KDC error: "+opErr.Error(), d)
				return outcome, false
			}
		}
	}
	r.Inc(pfx + "outcome_" + outcome)
	d["permitted"] = fmt.Sprintf("success=%v krb-error-6=%v failure=%v (%s)", okS, okK, okF, why)
	first := firstOf(a.limit)
	switch outcome {
	case "success":
		if !okS {
			viol("C12|success-without-working-endpoint|"+first+sfx, "the exchange succeeded although no endpoint answers correctly on a permitted transport", d)
			return outcome, false
		}
	case "krb_error_6":
		if !okK {
			viol("C12|krb-error-not-sent|"+first+sfx, "a KRB-ERROR was surfaced that no endpoint sent", d)
			return outcome, false
		}
	default:
		if !okF && !okS {
			viol("C12|krb-error-not-surfaced|"+first+sfx, "no endpoint answers correctly and one sends KRB-ERROR 6, but the call failed with an error that is not that KDC error: "+opErr.Error(), d)
			return outcome, false
		}
		if !okF {
			cls := "other"
			if carries(opErr, 52) {
				cls = "response-too-big-surfaced"
			}
			viol("C12|failed-although-endpoint-works|"+first+"|"+cls+sfx, "the exchange failed although an endpoint answers correctly on a permitted transport: "+opErr.Error(), d)
			return outcome, false
		}
	}
	// bounded attempts: at most 2 x transports x KDCs per message
	bound := int64(2 * 2 * len(a.eps) * v.msgs)
	if v.total > bound {
		viol("C12|attempts-unbounded"+sfx, fmt.Sprintf("%d connection attempts observed for %d message(s), bound %d", v.total, v.msgs, bound), d)
		return outcome, false
	}
	if v.fam != "" {
		r.SampleKind(v.fam+"-"+outcome+"-"+first, 1, d)
		return outcome, true
	}
	// coverage counters for the interesting paths
	if outcome == "success" && a.limit == 10 {
		tcpWorks := false
		for _, e := range a.eps {
			if e.tcp == simkdc.Answers {
				tcpWorks = true
			}
		}
		if !tcpWorks {
			r.Inc("tcp_first_udp_fallback_success")
		}
	}
	if outcome == "success" && a.limit == 32700 {
		tb := false
		for _, e := range a.eps {
			if e.udp == simkdc.TooBig {
				tb = true
			}
		}
		if tb {
			r.Inc("udp_toobig_tcp_success")
		}
	}
	r.SampleKind(outcome+"-"+first, 1, d)
	return outcome, true
}

// firstOf names the transport order a udp_preference_limit stands for (a label of fingerprints and samples only; the permitted
// outcomes do not depend on the order): 1 is TCP only, a limit below the size of any Kerberos request is TCP first, MIT's default
// 1465 and above is UDP first for every request the package sends; in between the order depends on the size of the request.
func firstOf(limit int) string {
	switch {
	case limit == 1:
		return "tcp-only"
	case limit < 64:
		return "tcp-first"
	case limit >= 1465:
		return "udp-first"
	}
	return "limit-near-request-size"
}

// recorder forwards to the run unless the case is a quiet re-run.
type recorder struct {
	r     *vh.Run
	quiet bool
}

func (c recorder) Inc(k string) {
	if !c.quiet {
		c.r.Inc(k)
	}
}
func (c recorder) Eval(k string, nt bool) {
	if !c.quiet {
		c.r.Eval(k, nt)
	}
}
func (c recorder) Inconclusive(s string) {
	if !c.quiet {
		c.r.Inconclusive(s)
	}
}
func (c recorder) SampleKind(k string, n int, v any) {
	if !c.quiet {
		c.r.SampleKind(k, n, v)
	}
}

// carries reports whether err is the KDC's error with this code: the KRBError itself, or the client's error classified as
// coming from the KDC (root cause KDC_Error) whose text names the code. An error of another class that merely quotes the
// KRB-ERROR in a list of failed attempts is not the KDC's error surfaced.
func carries(err error, code int32) bool {
	var kerr messages.KRBError
	if errors.As(err, &kerr) {
		return kerr.ErrorCode == code // the KRBError itself, however it is wrapped
	}
	var cerr krberror.Krberror
	if errors.As(err, &cerr) && cerr.RootCause != krberror.KDCError {
		return false
	}
	return strings.Contains(err.Error(), fmt.Sprintf("(%d) ", code))
}

// timingSensitive: verdicts that say "the call failed although it should have worked" depend on the endpoints answering within
// the library's fixed 5 s window, which a loaded machine can miss; they are confirmed in isolation before they count.
func timingSensitive(fp string) bool {
	return strings.HasPrefix(fp, "C12|failed-although-endpoint-works") || strings.HasPrefix(fp, "C12|krb-error-not-surfaced")
}
