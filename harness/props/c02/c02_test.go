package c02

import (
	"fmt"
	"os"
	"runtime"
	"sort"
	"strings"
	"sync"
	"sync/atomic"
	"testing"
	"time"

	"github.com/anishathalye/porcupine"
	"github.com/jcmturner/gokrb5/v8/keytab"
	"github.com/jcmturner/gokrb5/v8/messages"
	"github.com/jcmturner/gokrb5/v8/service"
	"github.com/jcmturner/gokrb5/v8/types"

	"verif/props/pcommon"
	"verif/ref/accept"
	"verif/ref/kcrypto"
	"verif/ref/kmsg"
	"verif/sched"
	"verif/vh"
)

func TestMain(m *testing.M) {
	service.GetReplayCache(1 << 62) // janitor started outside any bubble; clean-up is driven explicitly
	os.Exit(m.Run())
}

const skew = 5 * time.Minute

// op is one recorded operation at the API boundary.
type op struct {
	Client  int    `json:"client"`
	Kind    string `json:"kind"` // present | cleanup | advance
	Key     string `json:"key,omitempty"`
	Replay  bool   `json:"replay"`
	Call    int64  `json:"call"`
	Return  int64  `json:"return"`
	Advance string `json:"advance,omitempty"`
}

type pkey struct {
	cname string
	ctime time.Time
	cusec int
	sname string
}

func (k pkey) String() string {
	return fmt.Sprintf("%s|%d.%06d|%s", k.cname, k.ctime.Unix(), k.cusec, k.sname)
}

var zoneCtr atomic.Uint64

func (k pkey) auth() (types.PrincipalName, types.Authenticator) {
	sn := types.PrincipalName{NameType: 2, NameString: strings.Split(k.sname, "/")}
	ct := k.ctime
	// The same instant can reach the cache as different time.Time values: a decoder builds a fresh *time.Location for every
	// GeneralizedTime with a numeric zone offset. Every other presentation therefore carries the instant in a newly made
	// fixed zone (never interned: not a whole number of hours), also with a monotonic-free wall representation.
	if zoneCtr.Add(1)%2 == 0 {
		ct = ct.In(time.FixedZone("", 5*3600+1800))
	}
	a := types.Authenticator{AVNO: 5, CRealm: "TEST.GOKRB5", CName: types.PrincipalName{NameType: 1, NameString: strings.Split(k.cname, "/")},
		CTime: ct, Cusec: k.cusec, SeqNumber: 1}
	return sn, a
}

// model: test-and-set per key
var model = porcupine.Model{
	Partition: func(history []porcupine.Operation) [][]porcupine.Operation {
		m := map[string][]porcupine.Operation{}
		for _, o := range history {
			in := o.Input.(op)
			if in.Kind != "present" {
				continue
			}
			m[in.Key] = append(m[in.Key], o)
		}
		keys := make([]string, 0, len(m))
		for k := range m {
			keys = append(keys, k)
		}
		sort.Strings(keys)
		var out [][]porcupine.Operation
		for _, k := range keys {
			out = append(out, m[k])
		}
		return out
	},
	Init: func() any { return false },
	Step: func(st, in, out any) (bool, any) {
		// present: the reply "replay" must equal "already accepted"; afterwards the key is accepted
		return out.(bool) == st.(bool), true
	},
	Equal: func(a, b any) bool { return a.(bool) == b.(bool) },
}

// judge checks a history: linearizability against the model and the plain counters.
func judge(h []op) (ok bool, why string) {
	acc := map[string]int{}
	n := map[string]int{}
	for _, o := range h {
		if o.Kind != "present" {
			continue
		}
		n[o.Key]++
		if !o.Replay {
			acc[o.Key]++
		}
	}
	for k, c := range n {
		if acc[k] > 1 {
			return false, fmt.Sprintf("authenticator %s accepted %d times", k, acc[k])
		}
		if acc[k] == 0 && c > 0 {
			return false, fmt.Sprintf("authenticator %s reported as a replay on every one of its %d presentations (first presentation mistaken for a replay)", k, c)
		}
	}
	var ops []porcupine.Operation
	for _, o := range h {
		if o.Kind != "present" {
			continue
		}
		ops = append(ops, porcupine.Operation{ClientId: o.Client, Input: o, Call: o.Call, Output: o.Replay, Return: o.Return})
	}
	res := porcupine.CheckOperationsTimeout(model, ops, 60*time.Second)
	if res == porcupine.Illegal {
		return false, "history is not linearizable against the test-and-set model"
	}
	if res == porcupine.Unknown {
		return true, "checker-timeout"
	}
	return true, ""
}

func TestProp(t *testing.T) {
	r := vh.Start("C02")
	defer r.Finish()
	r.SetRule("three monitors over the real replay cache: (1) every interleaving, at yield-point granularity, of 2-3 goroutine scenarios (cooperative scheduler over the verif yield hooks, depth-first over all choice sequences); " +
		"(2) free-running stress under the race detector: 2-8 goroutines released by a barrier present the same fresh authenticator and neighbours while clean-up runs, random Gosched at the hooks; " +
		"(3) sequential histories under a virtual clock: bounded-exhaustive over {present(k), advance, clean-up} with k in 2 clients x 3 timestamps x 2 services, plus long random histories through Cache.IsReplay and through the full service.VerifyAPREQ path with reference-minted AP-REQs. " +
		"Oracle: test-and-set model (porcupine linearizability, partitioned by authenticator) plus at-most-once / at-least-once counters. distinct = schedule / trial signature / history; non-trivial = contains >= 2 presentations")
	r.Assume("one clock skew per process (the singleton's janitor uses the first caller's skew); presentations are generated only while their timestamp passes the skew check, as VerifyAPREQ would")
	r.Assume("authenticators of clients with equal names in different realms are not exercised (the statement names the client principal; the cache keys on the name string)")
	if err := kcrypto.SelfTest(); err != nil {
		r.Inconclusive("reference self-test failed: " + err.Error())
		return
	}
	if !schedSelfTest(r) {
		return
	}
	phase := func(name string, f func()) {
		t0 := time.Now()
		f()
		r.Count("phase_seconds_"+name, int64(time.Since(t0).Seconds()+0.5))
		var ms runtime.MemStats
		runtime.ReadMemStats(&ms)
		rss := ""
		if b, err := os.ReadFile("/proc/self/status"); err == nil {
			for _, l := range strings.Split(string(b), "\n") {
				if strings.HasPrefix(l, "VmRSS:") || strings.HasPrefix(l, "VmHWM:") {
					rss += " " + strings.Join(strings.Fields(l), "")
				}
			}
		}
		fmt.Fprintf(os.Stderr, "C02 phase %s: %.1fs; go heap in use %d MiB, sys %d MiB;%s\n", name, time.Since(t0).Seconds(), ms.HeapInuse>>20, ms.Sys>>20, rss)
	}
	phase("cooperative_schedules", func() { monitorCoop(r) })
	phase("stress", func() { monitorStress(r) })
	phase("sequential_histories", func() { monitorHistories(t, r) })
	phase("verifyapreq_histories", func() { monitorVerifyPath(t, r) })
	r.Require("coop_schedules", 100)
	r.Require("coop_histories_ok", 100)
	r.Require("stress_trials", 10000)
	r.Require("stress_same_key_presentations", 20000)
	r.Require("seq_histories", 10000)
	r.Require("seq_replays_detected", 1000)
	r.Require("verifypath_presentations", 1000)
	r.Require("verifypath_replays_detected", 100)
}

// ---------------------------------------------------------------------------------------
// scheduler self-test: must break a racy counter and must not break a locked one

func schedSelfTest(r *vh.Run) bool {
	lost := 0
	mkRacy := func() []func(*sched.Run) {
		x := 0
		w := func(*sched.Run) { v := x; sched.Yield("between"); x = v + 1; sched.Yield("after"); _ = x }
		chk := func(*sched.Run) { sched.Yield("c"); sched.Yield("c2") }
		_ = chk
		return []func(*sched.Run){func(rr *sched.Run) { w(rr) }, func(rr *sched.Run) {
			w(rr)
			if x == 1 {
				lost++
			}
		}}
	}
	n, exhausted := sched.Explore(mkRacy, func(*sched.Run, []int, error) {}, 0)
	if !exhausted || lost == 0 {
		r.Inconclusive(fmt.Sprintf("scheduler self-test: racy counter not broken (%d schedules, lost=%d)", n, lost))
		return false
	}
	bad := 0
	mkLocked := func() []func(*sched.Run) {
		x := 0
		var mu sync.Mutex
		w := func(*sched.Run) { sched.Yield("before"); mu.Lock(); x++; mu.Unlock(); sched.Yield("after") }
		return []func(*sched.Run){w, func(rr *sched.Run) { w(rr) }, func(rr *sched.Run) { sched.Yield("z"); _ = x }}
	}
	final := 0
	_ = final
	n2, ex2 := sched.Explore(mkLocked, func(_ *sched.Run, _ []int, err error) {
		if err != nil {
			bad++
		}
	}, 0)
	if !ex2 || bad != 0 {
		r.Inconclusive(fmt.Sprintf("scheduler self-test: locked counter run failed (%d schedules, bad=%d)", n2, bad))
		return false
	}
	r.Count("sched_selftest_schedules", int64(n+n2))
	return true
}

// ---------------------------------------------------------------------------------------
// monitor 1: exhaustive interleavings

type scenario struct {
	name    string
	workers []string // "P:<key index>" or "C" (clean-up)
	keys    []pkey
}

func monitorCoop(r *vh.Run) {
	t0 := time.Now().UTC().Truncate(time.Second)
	k := pkey{"alice", t0, 10, "HTTP/s1"}
	k2 := pkey{"alice", t0, 11, "HTTP/s1"}                  // other microsecond
	kb := pkey{"bob", t0, 10, "HTTP/s1"}                    // other client
	ks2 := pkey{"alice", t0, 10, "HTTP/s2"}                 // same client+timestamp, other service
	kt := pkey{"alice", t0.Add(time.Second), 10, "HTTP/s1"} // other second
	kc := pkey{"alice/admin", t0, 10, "HTTP/s1"}            // other component list
	scs := []scenario{
		{"same-key x2", []string{"P:0", "P:0"}, []pkey{k}},
		{"same-key x3", []string{"P:0", "P:0", "P:0"}, []pkey{k}},
		{"same-key x2 + cleanup", []string{"P:0", "P:0", "C"}, []pkey{k}},
		{"distinct usec", []string{"P:0", "P:1", "P:0"}, []pkey{k, k2}},
		{"distinct client", []string{"P:0", "P:1", "P:0"}, []pkey{k, kb}},
		{"distinct second", []string{"P:0", "P:1", "P:1"}, []pkey{k, kt}},
		{"distinct components", []string{"P:0", "P:1", "P:0"}, []pkey{k, kc}},
		{"two services same client+ctime", []string{"P:0", "P:1", "P:0"}, []pkey{k, ks2}},
		{"two services + cleanup", []string{"P:0", "P:1", "C"}, []pkey{k, ks2}},
		{"sequential pair in one goroutine vs concurrent", []string{"P:0;P:0", "P:0"}, []pkey{k}},
		{"s1,s2,s1 in one goroutine vs cleanup", []string{"P:0;P:1;P:0", "C"}, []pkey{k, ks2}},
	}
	service.VerifYield = sched.Yield
	defer func() { service.VerifYield = nil }()
	for si, sc := range scs {
		if !r.MineIdx(si) {
			continue
		}
		var hist []op
		var hmu sync.Mutex
		mk := func() []func(*sched.Run) {
			cache := service.VerifNewReplayCache()
			hist = nil
			var ws []func(*sched.Run)
			for wi, spec := range sc.workers {
				wi, spec := wi, spec
				ws = append(ws, func(rr *sched.Run) {
					for _, one := range strings.Split(spec, ";") {
						if one == "C" {
							c := rr.Clock()
							cache.ClearOldEntries(skew)
							hmu.Lock()
							hist = append(hist, op{Client: wi, Kind: "cleanup", Call: c, Return: rr.Clock()})
							hmu.Unlock()
							continue
						}
						var ki int
						fmt.Sscanf(one, "P:%d", &ki)
						sn, a := sc.keys[ki].auth()
						c := rr.Clock()
						rep := cache.IsReplay(sn, a)
						hmu.Lock()
						hist = append(hist, op{Client: wi, Kind: "present", Key: sc.keys[ki].String(), Replay: rep, Call: c, Return: rr.Clock()})
						hmu.Unlock()
					}
				})
			}
			return ws
		}
		maxS := 50000
		if v := os.Getenv("C02_MAXS"); v != "" {
			fmt.Sscan(v, &maxS)
		}
		n, exhausted := sched.Explore(mk, func(rr *sched.Run, schedule []int, err error) {
			key := fmt.Sprintf("coop/%s/%v", sc.name, schedule)
			r.Eval(key, true)
			r.Inc("coop_schedules")
			var pts []string
			for _, s := range rr.Trace {
				pts = append(pts, fmt.Sprintf("w%d@%s", s.Worker, s.Point))
			}
			if err != nil {
				r.Violation("C02|coop|panic-or-scheduler|"+sc.name, "execution failed under the cooperative scheduler: "+err.Error(), map[string]any{"case": key, "scenario": sc.name, "schedule": schedule, "steps": pts})
				return
			}
			h := append([]op{}, hist...)
			ok, why := judge(h)
			if why == "checker-timeout" {
				r.Inconclusive("porcupine timed out on " + key)
			}
			if !ok {
				r.Violation("C02|coop|"+sc.name+"|"+classify(why), why, map[string]any{"case": key, "scenario": sc.name, "schedule": schedule, "steps": pts, "history": h})
				return
			}
			r.Inc("coop_histories_ok")
			if len(schedule) > 4 {
				r.SampleKind("coop-"+sc.name, 1, map[string]any{"scenario": sc.name, "schedule": schedule, "steps": pts, "history": h})
			}
		}, maxS)
		r.Count("coop_schedules_"+strings.ReplaceAll(sc.name, " ", "_"), int64(n))
		if !exhausted {
			r.Note(fmt.Sprintf("scenario %q not exhausted within %d schedules", sc.name, maxS))
		} else {
			r.Inc("coop_scenarios_exhausted")
		}
	}
	r.Exhaustive("interleavings of the listed 2-3 goroutine scenarios at yield-point granularity")
}

func classify(why string) string {
	switch {
	case strings.Contains(why, "accepted"):
		return "double-accept"
	case strings.Contains(why, "mistaken"):
		return "false-replay"
	}
	return "not-linearizable"
}

// ---------------------------------------------------------------------------------------
// monitor 2: free-running stress under the race detector

var yieldCtr uint64

func randomYield(string) {
	v := atomic.AddUint64(&yieldCtr, 0x9E3779B97F4A7C15)
	v ^= v >> 29
	switch v & 15 {
	case 0, 1:
		runtime.Gosched()
	case 2:
		for i := 0; i < int(v>>8&63); i++ {
			_ = i
		}
	}
}

func monitorStress(r *vh.Run) {
	trials := 200000
	if vh.Thorough() {
		trials = 1000000
	}
	_, ns := vh.Shard()
	trials /= ns
	service.VerifYield = randomYield
	defer func() { service.VerifYield = nil }()
	t0 := time.Now().UTC().Truncate(time.Second)
	sigs := map[uint64]struct{}{}
	var sigMu sync.Mutex
	nw := runtime.GOMAXPROCS(0) / 4
	if nw < 2 {
		nw = 2
	}
	per := trials / nw
	var wg sync.WaitGroup
	for w := 0; w < nw; w++ {
		wg.Add(1)
		go func(w int) {
			defer wg.Done()
			rnd := vh.NewRand("c02stress", w)
			cache := service.VerifNewReplayCache()
			for tr := 0; tr < per; tr++ {
				if tr%2000 == 1999 {
					cache = service.VerifNewReplayCache()
				}
				g := 2 + rnd.Intn(7)
				base := pkey{fmt.Sprintf("c%d", w), t0.Add(time.Duration(tr) * time.Second), rnd.Intn(1000000), "HTTP/s1"}
				// roles: most present the same key; some present neighbours; maybe one cleans up
				keys := make([]pkey, g)
				clean := -1
				for i := range keys {
					keys[i] = base
					switch rnd.Intn(10) {
					case 0:
						keys[i].cusec = (base.cusec + 1) % 1000000
					case 1:
						keys[i].cname = base.cname + "x"
					case 2:
						keys[i].sname = "HTTP/s2"
					case 3:
						if clean < 0 {
							clean = i
						}
					}
				}
				keys[0], keys[1] = base, base
				if clean == 0 || clean == 1 {
					clean = -1
				}
				var clock int64
				hist := make([]op, g)
				var start, done sync.WaitGroup
				start.Add(1)
				spins := make([]int, g)
				for i := range spins {
					spins[i] = rnd.Intn(200)
				}
				for i := 0; i < g; i++ {
					done.Add(1)
					go func(i int) {
						defer done.Done()
						start.Wait()
						for s := 0; s < spins[i]; s++ {
							_ = s
						}
						if i == clean {
							c := atomic.AddInt64(&clock, 1)
							cache.ClearOldEntries(skew)
							hist[i] = op{Client: i, Kind: "cleanup", Call: c, Return: atomic.AddInt64(&clock, 1)}
							return
						}
						sn, a := keys[i].auth()
						c := atomic.AddInt64(&clock, 1)
						rep := cache.IsReplay(sn, a)
						hist[i] = op{Client: i, Kind: "present", Key: keys[i].String(), Replay: rep, Call: c, Return: atomic.AddInt64(&clock, 1)}
					}(i)
				}
				start.Done()
				done.Wait()
				key := fmt.Sprintf("stress/w%d/t%d", w, tr)
				same := 0
				for i := range keys {
					if i != clean && keys[i] == base {
						same++
					}
				}
				// interleaving signature: order of call/return stamps by goroutine role
				var sb strings.Builder
				type ev struct {
					t int64
					s string
				}
				var evs []ev
				for i, o := range hist {
					evs = append(evs, ev{o.Call, fmt.Sprintf("c%d", i)}, ev{o.Return, fmt.Sprintf("r%d", i)})
				}
				sort.Slice(evs, func(a, b int) bool { return evs[a].t < evs[b].t })
				for _, e := range evs {
					sb.WriteString(e.s)
				}
				sg := vh.H64(fmt.Sprintf("%d|%s", g, sb.String()))
				sigMu.Lock()
				_, seen := sigs[sg]
				sigs[sg] = struct{}{}
				sigMu.Unlock()
				r.Eval(fmt.Sprintf("stress-sig/%x", sg), !seen || true)
				r.Inc("stress_trials")
				r.Count("stress_same_key_presentations", int64(same))
				ok, why := judge(hist)
				if !ok {
					r.Violation("C02|stress|"+classify(why), why+" (free-running goroutines)", map[string]any{"case": key, "goroutines": g, "history": hist})
				}
				if tr == 7 && w == 0 {
					r.SampleKind("stress", 1, map[string]any{"goroutines": g, "history": hist})
				}
			}
		}(w)
	}
	wg.Wait()
	r.Count("stress_distinct_interleaving_signatures", int64(len(sigs)))
}

// ---------------------------------------------------------------------------------------
// monitor 3: sequential histories under a virtual clock

type sym struct {
	kind string // P, A, C
	k    int    // key index for P
	d    time.Duration
}

func alphabet(t0 time.Time) ([]sym, []pkey) {
	var keys []pkey
	for _, c := range []string{"a", "b"} {
		for _, off := range []time.Duration{-skew, 0, skew} {
			for _, s := range []string{"HTTP/s1", "HTTP/s2"} {
				keys = append(keys, pkey{c, t0.Add(off), 0, s})
			}
		}
	}
	var al []sym
	for i := range keys {
		al = append(al, sym{kind: "P", k: i})
	}
	al = append(al, sym{kind: "A", d: skew / 2}, sym{kind: "A", d: skew}, sym{kind: "A", d: skew + time.Microsecond}, sym{kind: "C"})
	return al, keys
}

// runHistory executes a symbolic history on a fresh cache inside a bubble and judges it.
// histJob is one sequential history: a word over the alphabet.
type histJob struct {
	key    string
	word   []sym
	sample bool
}

// runHistories runs a batch of sequential histories inside ONE synctest bubble, each against a fresh cache and with its
// authenticator timestamps laid out around its own start (the next whole second of the virtual clock). A bubble per history
// would be simpler, but under the race detector every bubble costs about 20 KB that are never given back: a million
// histories took 21 GB.
func runHistories(t *testing.T, r *vh.Run, jobs []histJob) {
	type res struct {
		hist      []op
		pnc       bool
		pv, pw    string
		presented int
	}
	out := make([]res, len(jobs))
	pcommon.AtVirtual(t, time.Hour, func() {
		for ji, j := range jobs {
			now := time.Now()
			base := now.Truncate(time.Second).Add(time.Second)
			time.Sleep(base.Sub(now))
			_, keys := alphabet(base)
			o := &out[ji]
			o.pnc, o.pv, o.pw = vh.Guard(func() {
				cache := service.VerifNewReplayCache()
				var clk int64
				for _, s := range j.word {
					switch s.kind {
					case "A":
						time.Sleep(s.d)
						o.hist = append(o.hist, op{Kind: "advance", Advance: s.d.String()})
					case "C":
						cache.ClearOldEntries(skew)
						o.hist = append(o.hist, op{Kind: "cleanup"})
					case "P":
						k := keys[s.k]
						now := time.Now()
						ct := k.ctime.Add(time.Duration(k.cusec) * time.Microsecond)
						if now.Sub(ct) > skew || ct.Sub(now) > skew {
							o.hist = append(o.hist, op{Kind: "skipped-outside-skew", Key: k.String()})
							continue
						}
						sn, a := k.auth()
						clk++
						c := clk
						rep := cache.IsReplay(sn, a)
						clk++
						o.hist = append(o.hist, op{Kind: "present", Key: k.String(), Replay: rep, Call: c, Return: clk})
						o.presented++
					}
				}
			})
		}
	})
	for ji, j := range jobs {
		o := out[ji]
		judgeHistory(r, j.key, o.hist, o.pnc, o.pv, o.pw, o.presented, j.sample)
	}
}

func judgeHistory(r *vh.Run, key string, hist []op, pnc bool, pv, pw string, presented int, sample bool) {
	r.Eval(key, presented >= 2)
	r.Inc("seq_histories")
	if pnc {
		r.Violation("C02|seq|panic|"+pw, "replay cache panicked: "+pv, map[string]any{"case": key, "history": hist})
		return
	}
	for _, o := range hist {
		if o.Kind == "present" && o.Replay {
			r.Inc("seq_replays_detected")
		}
	}
	if ok, why := judge(hist); !ok {
		late := ""
		for _, o := range hist {
			if o.Kind == "advance" {
				late = "|after-advance"
			}
		}
		cl := ""
		for _, o := range hist {
			if o.Kind == "cleanup" {
				cl = "|with-cleanup"
			}
		}
		r.Violation("C02|seq|"+classify(why)+late+cl, why+" (sequential history, virtual clock)", map[string]any{"case": key, "history": hist})
		return
	}
	if sample {
		r.SampleKind("seq", 2, hist)
	}
}

func monitorHistories(t *testing.T, r *vh.Run) {
	t0 := pcommon.Epoch.Add(time.Hour)
	al, keys := alphabet(t0)
	depth := 4
	nrand, rlen := 2000, 200
	if vh.Thorough() {
		depth = 5
		nrand = 50000
	}
	// bounded-exhaustive words of length 1..depth
	total := 1
	for i := 0; i < depth; i++ {
		total *= len(al)
	}
	const batch = 2000
	vh.Workers((total+batch-1)/batch, func(b int) {
		var jobs []histJob
		for i := b * batch; i < (b+1)*batch && i < total; i++ {
			if !r.MineIdx(i) {
				continue
			}
			word := make([]sym, depth)
			v := i
			var sb strings.Builder
			for j := 0; j < depth; j++ {
				word[j] = al[v%len(al)]
				fmt.Fprintf(&sb, "%d.", v%len(al))
				v /= len(al)
			}
			jobs = append(jobs, histJob{"seq/exh/" + sb.String(), word, i == 4242})
		}
		if len(jobs) > 0 {
			runHistories(t, r, jobs)
		}
	})
	r.Exhaustive(fmt.Sprintf("sequential histories of length %d over %d symbols", depth, len(al)))
	const rbatch = 200
	vh.Workers((nrand+rbatch-1)/rbatch, func(b int) {
		var jobs []histJob
		for i := b * rbatch; i < (b+1)*rbatch && i < nrand; i++ {
			if !r.MineIdx(i) {
				continue
			}
			rnd := vh.NewRand("c02rand", i)
			word := make([]sym, rlen)
			for j := range word {
				// bias: advances rare so that many presentations fall in one window
				if rnd.Intn(12) == 0 {
					word[j] = al[len(keys)+rnd.Intn(4)]
				} else {
					word[j] = al[rnd.Intn(len(keys))]
				}
			}
			jobs = append(jobs, histJob{fmt.Sprintf("seq/rand/%d", i), word, i == 3})
		}
		if len(jobs) > 0 {
			runHistories(t, r, jobs)
		}
	})
}

// ---------------------------------------------------------------------------------------
// monitor 3b: the full VerifyAPREQ path (singleton cache => histories run one after another)

func monitorVerifyPath(t *testing.T, r *vh.Run) {
	si, _ := vh.Shard()
	if si != 0 {
		return
	}
	nh, hl := 150, 60
	if vh.Thorough() {
		nh, hl = 3000, 100
	}
	et := int32(18)
	svc := kmsg.N(2, "HTTP", "host.test.gokrb5")
	svc2 := kmsg.N(2, "HTTP", "other.test.gokrb5")
	ktm := []accept.KeytabEntry{
		{Realm: "TEST.GOKRB5", Name: svc, Kvno: 1, Etype: et, Timestamp: 1, Key: pcommon.RefKey(vh.NewRand("c02kt", 1), et)},
		{Realm: "TEST.GOKRB5", Name: svc2, Kvno: 1, Etype: et, Timestamp: 1, Key: pcommon.RefKey(vh.NewRand("c02kt", 2), et)},
	}
	gkt := keytab.New()
	if err := gkt.Unmarshal(accept.KeytabV2(ktm)); err != nil {
		r.Inconclusive("cannot load reference keytab: " + err.Error())
		return
	}
	set := service.NewSettings(gkt, service.DecodePAC(false))
	for h := 0; h < nh; h++ {
		rnd := vh.NewRand("c02verify", h)
		key := fmt.Sprintf("verifypath/%d", h)
		var hist []op
		var pnc bool
		var pv, pw string
		pcommon.AtVirtual(t, time.Hour, func() {
			pnc, pv, pw = vh.Guard(func() {
				service.VerifResetReplayCache()
				t0 := time.Now()
				type minted struct {
					k   pkey
					req []byte
				}
				var pool []minted
				mint := func(k pkey, sn kmsg.Name, ske accept.KeytabEntry) minted {
					cn := kmsg.N(1, k.cname)
					sess := kmsg.Key{Type: et, Value: pcommon.RefKey(rnd, et)}
					m := accept.Mint{ServiceKey: kmsg.Key{Type: et, Value: ske.Key}, Kvno: kmsg.U32(1), Realm: "TEST.GOKRB5", SName: sn,
						Tkt:  kmsg.EncTicketPart{Flags: 0x40800000, Key: sess, CRealm: "TEST.GOKRB5", CName: cn, AuthTime: t0.Add(-time.Minute), EndTime: t0.Add(10 * time.Hour)},
						Auth: kmsg.Authenticator{CRealm: "TEST.GOKRB5", CName: cn, CTime: k.ctime, Cusec: k.cusec},
						Conf: rnd.Bytes}
					b, err := m.Build()
					if err != nil {
						panic(err)
					}
					return minted{k, b}
				}
				var clk int64
				for i := 0; i < hl; i++ {
					x := rnd.Intn(20)
					switch {
					case x == 0:
						d := []time.Duration{skew / 2, skew, skew + time.Microsecond, skew + 500*time.Millisecond, time.Second - time.Microsecond, 300 * time.Millisecond}[rnd.Intn(6)]
						time.Sleep(d)
						hist = append(hist, op{Kind: "advance", Advance: d.String()})
					case x == 1:
						service.GetReplayCache(skew).ClearOldEntries(skew)
						hist = append(hist, op{Kind: "cleanup"})
					default:
						var m minted
						if len(pool) > 0 && x < 12 {
							m = pool[rnd.Intn(len(pool))] // re-present (the same bytes, or a re-minted request with the same authenticator)
						} else {
							now := time.Now()
							off := []time.Duration{-skew, -skew / 2, 0, skew / 2, skew}[rnd.Intn(5)]
							ct := now.Add(off).Truncate(time.Microsecond)
							k := pkey{cname: []string{"a", "b"}[rnd.Intn(2)], ctime: ct.Truncate(time.Second), cusec: int(ct.Sub(ct.Truncate(time.Second)) / time.Microsecond)}
							if rnd.Bool() {
								k.sname = "HTTP/host.test.gokrb5"
								m = mint(k, svc, ktm[0])
							} else {
								k.sname = "HTTP/other.test.gokrb5"
								m = mint(k, svc2, ktm[1])
							}
							pool = append(pool, m)
						}
						now := time.Now()
						ct := m.k.ctime.Add(time.Duration(m.k.cusec) * time.Microsecond)
						// outside the window the request is presented all the same: it must not be accepted (again); any error will do
						outside := now.Sub(ct) > skew || ct.Sub(now) > skew
						var a messages.APReq
						if err := a.Unmarshal(m.req); err != nil {
							panic("unmarshal of reference AP-REQ: " + err.Error())
						}
						clk++
						c := clk
						ok, _, err := service.VerifyAPREQ(&a, set)
						clk++
						o := op{Kind: "present", Key: m.k.String(), Call: c, Return: clk}
						if ok {
							o.Replay = false
						} else if outside {
							hist = append(hist, op{Kind: "present-outside-window-rejected", Key: m.k.String(), Call: c, Return: clk})
							continue
						} else if ke, isK := err.(messages.KRBError); isK && ke.ErrorCode == 34 {
							o.Replay = true
						} else {
							panic(fmt.Sprintf("valid request rejected with %v", err))
						}
						hist = append(hist, o)
					}
				}
			})
		})
		np := 0
		for _, o := range hist {
			if o.Kind == "present" {
				np++
				r.Inc("verifypath_presentations")
				if o.Replay {
					r.Inc("verifypath_replays_detected")
				}
			}
		}
		r.Eval(key, np >= 2)
		if pnc {
			r.Violation("C02|verifypath|error|"+pw, "VerifyAPREQ history failed: "+pv, map[string]any{"case": key, "history": hist})
			continue
		}
		if ok, why := judge(hist); !ok {
			r.Violation("C02|verifypath|"+classify(why), why+" (service.VerifyAPREQ, virtual clock)", map[string]any{"case": key, "history": hist})
			continue
		}
		if h == 0 {
			r.SampleKind("verifypath", 1, hist)
		}
	}
	service.VerifResetReplayCache()
}
