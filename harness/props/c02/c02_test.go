package c02

import (
	"encoding/json"
	"fmt"
	"os"
	"os/exec"
	"runtime"
	"sort"
	"strings"
	"sync"
	"sync/atomic"
	"testing"
	"testing/synctest"
	"time"

	"github.com/anishathalye/porcupine"
	"github.com/jcmturner/gokrb5/v8/keytab"
	"github.com/jcmturner/gokrb5/v8/messages"
	"github.com/jcmturner/gokrb5/v8/service"
	"github.com/jcmturner/gokrb5/v8/types"

	"verif/props/pcommon"
	"verif/ref/accept"
	"verif/ref/kcrypto"
	"verif/ref/kmsg"
	"verif/sched"
	"verif/vh"
)

func TestMain(m *testing.M) {
	if os.Getenv(janitorChildEnv) == "" && os.Getenv(firstUseChildEnv) == "" {
		service.GetReplayCache(1 << 62) // janitor started outside any bubble; clean-up is driven explicitly
	}
	os.Exit(m.Run())
}

const skew = 5 * time.Minute

// op is one recorded operation at the API boundary.
type op struct {
	Client  int    `json:"client"`
	Kind    string `json:"kind"` // present | cleanup | advance
	Key     string `json:"key,omitempty"`
	Replay  bool   `json:"replay"`
	Call    int64  `json:"call"`
	Return  int64  `json:"return"`
	Advance string `json:"advance,omitempty"`
	Skew    string `json:"skew,omitempty"` // permitted clock skew of the Settings a presentation went through (histories with several)
}

type pkey struct {
	cname string
	ctime time.Time
	cusec int
	sname string
}

func (k pkey) String() string {
	return fmt.Sprintf("%s|%d.%06d|%s", k.cname, k.ctime.Unix(), k.cusec, k.sname)
}

var zoneCtr atomic.Uint64

func (k pkey) auth() (types.PrincipalName, types.Authenticator) {
	// the name type of a principal name is a hint and not part of the name (RFC 4120 6.2): the same service is named with
	// different types from one presentation to the next
	sn := types.PrincipalName{NameType: []int32{2, 3, 2, 1, 2, 0}[zoneCtr.Add(1)%6], NameString: strings.Split(k.sname, "/")}
	ct := k.ctime
	// The same instant can reach the cache as different time.Time values: a decoder builds a fresh *time.Location for every
	// GeneralizedTime with a numeric zone offset. Every other presentation therefore carries the instant in a newly made
	// fixed zone (never interned: not a whole number of hours), also with a monotonic-free wall representation.
	if zoneCtr.Add(1)%2 == 0 {
		ct = ct.In(time.FixedZone("", 5*3600+1800))
	}
	a := types.Authenticator{AVNO: 5, CRealm: "TEST.GOKRB5", CName: types.PrincipalName{NameType: 1, NameString: strings.Split(k.cname, "/")},
		CTime: ct, Cusec: k.cusec, SeqNumber: 1}
	return sn, a
}

// model: test-and-set per key
var model = porcupine.Model{
	Partition: func(history []porcupine.Operation) [][]porcupine.Operation {
		m := map[string][]porcupine.Operation{}
		for _, o := range history {
			in := o.Input.(op)
			if in.Kind != "present" {
				continue
			}
			m[in.Key] = append(m[in.Key], o)
		}
		keys := make([]string, 0, len(m))
		for k := range m {
			keys = append(keys, k)
		}
		sort.Strings(keys)
		var out [][]porcupine.Operation
		for _, k := range keys {
			out = append(out, m[k])
		}
		return out
	},
	Init: func() any { return false },
	Step: func(st, in, out any) (bool, any) {
		// present: the reply "replay" must equal "already accepted"; afterwards the key is accepted
		return out.(bool) == st.(bool), true
	},
	Equal: func(a, b any) bool { return a.(bool) == b.(bool) },
}

// judge checks a history: linearizability against the model and the plain counters.
func judge(h []op) (ok bool, why string) {
	acc := map[string]int{}
	n := map[string]int{}
	for _, o := range h {
		if o.Kind != "present" {
			continue
		}
		n[o.Key]++
		if !o.Replay {
			acc[o.Key]++
		}
	}
	for k, c := range n {
		if acc[k] > 1 {
			return false, fmt.Sprintf("authenticator %s accepted %d times", k, acc[k])
		}
		if acc[k] == 0 && c > 0 {
			return false, fmt.Sprintf("authenticator %s reported as a replay on every one of its %d presentations (first presentation mistaken for a replay)", k, c)
		}
	}
	var ops []porcupine.Operation
	for _, o := range h {
		if o.Kind != "present" {
			continue
		}
		ops = append(ops, porcupine.Operation{ClientId: o.Client, Input: o, Call: o.Call, Output: o.Replay, Return: o.Return})
	}
	res := porcupine.CheckOperationsTimeout(model, ops, 60*time.Second)
	if res == porcupine.Illegal {
		return false, "history is not linearizable against the test-and-set model"
	}
	if res == porcupine.Unknown {
		return true, "checker-timeout"
	}
	return true, ""
}

func TestProp(t *testing.T) {
	r := vh.Start("C02")
	defer r.Finish()
	r.SetRule("three monitors over the real replay cache: (1) every interleaving, at yield-point granularity, of 2-3 goroutine scenarios (cooperative scheduler over the verif yield hooks, depth-first over all choice sequences); " +
		"(2) free-running stress under the race detector: 2-8 goroutines released by a barrier present the same fresh authenticator and neighbours while clean-up runs, random Gosched at the hooks; " +
		"(3) sequential histories under a virtual clock: bounded-exhaustive over {present(k), advance, clean-up} with k in 2 clients x 3 timestamps x 2 services, plus long random histories through Cache.IsReplay and through the full service.VerifyAPREQ path with reference-minted AP-REQs. " +
		"Oracle: test-and-set model (porcupine linearizability, partitioned by authenticator) plus at-most-once / at-least-once counters. distinct = schedule / trial signature / history; non-trivial = contains >= 2 presentations")
	r.Assume("the cache's own janitor runs with one clock skew per process (it uses the first caller's skew); presentations are generated only while their timestamp passes the skew check, as VerifyAPREQ would. " +
		"Where one process verifies through Settings with several clock skews (multiskew processes; the janitor has the first of them), a second acceptance is judged only while the timestamp passes the smallest of them")
	r.Assume("authenticators of clients with equal names in different realms are not exercised (the statement names the client principal; the cache keys on the name string)")
	if err := kcrypto.SelfTest(); err != nil {
		r.Inconclusive("reference self-test failed: " + err.Error())
		return
	}
	if !schedSelfTest(r) {
		return
	}
	// stated before the monitors run: a run that ends early (a panic that escapes a monitor) is then inconclusive, not silent
	r.Require("coop_schedules", 100)
	r.Require("coop_histories_ok", 100)
	r.Require("stress_trials", 10000)
	r.Require("stress_same_key_presentations", 20000)
	r.Require("seq_histories", 10000)
	r.Require("seq_replays_detected", 1000)
	r.Require("verifypath_presentations", 1000)
	r.Require("verifypath_replays_detected", 100)
	r.Require("volume_represented", 100000)
	r.Require("janitor_presentations", 1000)
	r.Require("janitor_replays_detected", 100)
	r.Require("janitor_wakeups_with_entries", 10)
	r.Require("multiskew_presentations", 1000)
	r.Require("multiskew_replays_detected", 100)
	r.Require("multiskew_represented_through_other_skew", 100)
	r.Require("stressexp_trials", 1000)
	r.Require("stressexp_presentations_overlapping_cleanup", 300)
	r.Require("firstuse_processes", 20)
	r.Require("firstuse_processes_with_overlapping_first_calls", 10)
	r.Require("firstuse_replays_detected", 20)
	phase := func(name string, f func()) {
		t0 := time.Now()
		f()
		r.Count("phase_seconds_"+name, int64(time.Since(t0).Seconds()+0.5))
		var ms runtime.MemStats
		runtime.ReadMemStats(&ms)
		rss := ""
		if b, err := os.ReadFile("/proc/self/status"); err == nil {
			for _, l := range strings.Split(string(b), "\n") {
				if strings.HasPrefix(l, "VmRSS:") || strings.HasPrefix(l, "VmHWM:") {
					rss += " " + strings.Join(strings.Fields(l), "")
				}
			}
		}
		fmt.Fprintf(os.Stderr, "C02 phase %s: %.1fs; go heap in use %d MiB, sys %d MiB;%s\n", name, time.Since(t0).Seconds(), ms.HeapInuse>>20, ms.Sys>>20, rss)
	}
	phase("cooperative_schedules", func() { monitorCoop(r) })
	phase("stress", func() { monitorStress(r) })
	phase("stress_expired_client", func() { monitorStressExpired(r) })
	phase("sequential_histories", func() { monitorHistories(t, r) })
	phase("verifyapreq_histories", func() { monitorVerifyPath(t, r) })
	phase("volume", func() { monitorVolume(t, r) })
	phase("janitor_processes", func() { monitorJanitor(t, r) })
	phase("first_use_processes", func() { monitorFirstUse(t, r) })
}

// ---------------------------------------------------------------------------------------
// scheduler self-test: must break a racy counter and must not break a locked one

func schedSelfTest(r *vh.Run) bool {
	lost := 0
	mkRacy := func() []func(*sched.Run) {
		x := 0
		w := func(*sched.Run) { v := x; sched.Yield("between"); x = v + 1; sched.Yield("after"); _ = x }
		chk := func(*sched.Run) { sched.Yield("c"); sched.Yield("c2") }
		_ = chk
		return []func(*sched.Run){func(rr *sched.Run) { w(rr) }, func(rr *sched.Run) {
			w(rr)
			if x == 1 {
				lost++
			}
		}}
	}
	n, exhausted := sched.Explore(mkRacy, func(*sched.Run, []int, error) {}, 0)
	if !exhausted || lost == 0 {
		r.Inconclusive(fmt.Sprintf("scheduler self-test: racy counter not broken (%d schedules, lost=%d)", n, lost))
		return false
	}
	bad := 0
	mkLocked := func() []func(*sched.Run) {
		x := 0
		var mu sync.Mutex
		w := func(*sched.Run) { sched.Yield("before"); mu.Lock(); x++; mu.Unlock(); sched.Yield("after") }
		return []func(*sched.Run){w, func(rr *sched.Run) { w(rr) }, func(rr *sched.Run) { sched.Yield("z"); _ = x }}
	}
	final := 0
	_ = final
	n2, ex2 := sched.Explore(mkLocked, func(_ *sched.Run, _ []int, err error) {
		if err != nil {
			bad++
		}
	}, 0)
	if !ex2 || bad != 0 {
		r.Inconclusive(fmt.Sprintf("scheduler self-test: locked counter run failed (%d schedules, bad=%d)", n2, bad))
		return false
	}
	r.Count("sched_selftest_schedules", int64(n+n2))
	return true
}

// ---------------------------------------------------------------------------------------
// monitor 1: exhaustive interleavings

type scenario struct {
	name    string
	workers []string // "P:<key index>" or "C" (clean-up)
	keys    []pkey
}

func monitorCoop(r *vh.Run) {
	t0 := time.Now().UTC().Truncate(time.Second)
	k := pkey{"alice", t0, 10, "HTTP/s1"}
	k2 := pkey{"alice", t0, 11, "HTTP/s1"}                  // other microsecond
	kb := pkey{"bob", t0, 10, "HTTP/s1"}                    // other client
	ks2 := pkey{"alice", t0, 10, "HTTP/s2"}                 // same client+timestamp, other service
	kt := pkey{"alice", t0.Add(time.Second), 10, "HTTP/s1"} // other second
	kc := pkey{"alice/admin", t0, 10, "HTTP/s1"}            // other component list
	scs := []scenario{
		{"same-key x2", []string{"P:0", "P:0"}, []pkey{k}},
		{"same-key x3", []string{"P:0", "P:0", "P:0"}, []pkey{k}},
		{"same-key x2 + cleanup", []string{"P:0", "P:0", "C"}, []pkey{k}},
		{"distinct usec", []string{"P:0", "P:1", "P:0"}, []pkey{k, k2}},
		{"distinct client", []string{"P:0", "P:1", "P:0"}, []pkey{k, kb}},
		{"distinct second", []string{"P:0", "P:1", "P:1"}, []pkey{k, kt}},
		{"distinct components", []string{"P:0", "P:1", "P:0"}, []pkey{k, kc}},
		{"two services same client+ctime", []string{"P:0", "P:1", "P:0"}, []pkey{k, ks2}},
		{"two services + cleanup", []string{"P:0", "P:1", "C"}, []pkey{k, ks2}},
		{"sequential pair in one goroutine vs concurrent", []string{"P:0;P:0", "P:0"}, []pkey{k}},
		{"s1,s2,s1 in one goroutine vs cleanup", []string{"P:0;P:1;P:0", "C"}, []pkey{k, ks2}},
	}
	service.VerifYield = sched.Yield
	defer func() { service.VerifYield = nil }()
	for si, sc := range scs {
		if !r.MineIdx(si) {
			continue
		}
		var hist []op
		var hmu sync.Mutex
		mk := func() []func(*sched.Run) {
			cache := service.VerifNewReplayCache()
			hist = nil
			var ws []func(*sched.Run)
			for wi, spec := range sc.workers {
				wi, spec := wi, spec
				ws = append(ws, func(rr *sched.Run) {
					for _, one := range strings.Split(spec, ";") {
						if one == "C" {
							c := rr.Clock()
							cache.ClearOldEntries(skew)
							hmu.Lock()
							hist = append(hist, op{Client: wi, Kind: "cleanup", Call: c, Return: rr.Clock()})
							hmu.Unlock()
							continue
						}
						var ki int
						fmt.Sscanf(one, "P:%d", &ki)
						sn, a := sc.keys[ki].auth()
						c := rr.Clock()
						rep := cache.IsReplay(sn, a)
						hmu.Lock()
						hist = append(hist, op{Client: wi, Kind: "present", Key: sc.keys[ki].String(), Replay: rep, Call: c, Return: rr.Clock()})
						hmu.Unlock()
					}
				})
			}
			return ws
		}
		maxS := 50000
		if v := os.Getenv("C02_MAXS"); v != "" {
			fmt.Sscan(v, &maxS)
		}
		n, exhausted := sched.Explore(mk, func(rr *sched.Run, schedule []int, err error) {
			key := fmt.Sprintf("coop/%s/%v", sc.name, schedule)
			r.Eval(key, true)
			r.Inc("coop_schedules")
			var pts []string
			for _, s := range rr.Trace {
				pts = append(pts, fmt.Sprintf("w%d@%s", s.Worker, s.Point))
			}
			if err != nil {
				r.Violation("C02|coop|panic-or-scheduler|"+sc.name, "execution failed under the cooperative scheduler: "+err.Error(), map[string]any{"case": key, "scenario": sc.name, "schedule": schedule, "steps": pts})
				return
			}
			h := append([]op{}, hist...)
			ok, why := judge(h)
			if why == "checker-timeout" {
				r.Inconclusive("porcupine timed out on " + key)
			}
			if !ok {
				r.Violation("C02|coop|"+sc.name+"|"+classify(why), why, map[string]any{"case": key, "scenario": sc.name, "schedule": schedule, "steps": pts, "history": h})
				return
			}
			r.Inc("coop_histories_ok")
			if len(schedule) > 4 {
				r.SampleKind("coop-"+sc.name, 1, map[string]any{"scenario": sc.name, "schedule": schedule, "steps": pts, "history": h})
			}
		}, maxS)
		r.Count("coop_schedules_"+strings.ReplaceAll(sc.name, " ", "_"), int64(n))
		if !exhausted {
			r.Note(fmt.Sprintf("scenario %q not exhausted within %d schedules", sc.name, maxS))
		} else {
			r.Inc("coop_scenarios_exhausted")
		}
	}
	r.Exhaustive("interleavings of the listed 2-3 goroutine scenarios at yield-point granularity")
}

func classify(why string) string {
	switch {
	case strings.Contains(why, "accepted"):
		return "double-accept"
	case strings.Contains(why, "mistaken"):
		return "false-replay"
	}
	return "not-linearizable"
}

// ---------------------------------------------------------------------------------------
// monitor 2: free-running stress under the race detector

var yieldCtr uint64

func randomYield(string) {
	v := atomic.AddUint64(&yieldCtr, 0x9E3779B97F4A7C15)
	v ^= v >> 29
	switch v & 15 {
	case 0, 1:
		runtime.Gosched()
	case 2:
		for i := 0; i < int(v>>8&63); i++ {
			_ = i
		}
	}
}

func monitorStress(r *vh.Run) {
	trials := 200000
	if vh.Thorough() {
		trials = 1000000
	}
	_, ns := vh.Shard()
	trials /= ns
	service.VerifYield = randomYield
	defer func() { service.VerifYield = nil }()
	t0 := time.Now().UTC().Truncate(time.Second)
	sigs := map[uint64]struct{}{}
	var sigMu sync.Mutex
	nw := runtime.GOMAXPROCS(0) / 4
	if nw < 2 {
		nw = 2
	}
	per := trials / nw
	var wg sync.WaitGroup
	for w := 0; w < nw; w++ {
		wg.Add(1)
		go func(w int) {
			defer wg.Done()
			rnd := vh.NewRand("c02stress", w)
			cache := service.VerifNewReplayCache()
			for tr := 0; tr < per; tr++ {
				if tr%2000 == 1999 {
					cache = service.VerifNewReplayCache()
				}
				g := 2 + rnd.Intn(7)
				base := pkey{fmt.Sprintf("c%d", w), t0.Add(time.Duration(tr) * time.Second), rnd.Intn(1000000), "HTTP/s1"}
				// roles: most present the same key; some present neighbours; maybe one cleans up
				keys := make([]pkey, g)
				clean := -1
				for i := range keys {
					keys[i] = base
					switch rnd.Intn(10) {
					case 0:
						keys[i].cusec = (base.cusec + 1) % 1000000
					case 1:
						keys[i].cname = base.cname + "x"
					case 2:
						keys[i].sname = "HTTP/s2"
					case 3:
						if clean < 0 {
							clean = i
						}
					}
				}
				keys[0], keys[1] = base, base
				if clean == 0 || clean == 1 {
					clean = -1
				}
				var clock int64
				hist := make([]op, g)
				var start, done sync.WaitGroup
				start.Add(1)
				spins := make([]int, g)
				for i := range spins {
					spins[i] = rnd.Intn(200)
				}
				for i := 0; i < g; i++ {
					done.Add(1)
					go func(i int) {
						defer done.Done()
						start.Wait()
						for s := 0; s < spins[i]; s++ {
							_ = s
						}
						if i == clean {
							c := atomic.AddInt64(&clock, 1)
							cache.ClearOldEntries(skew)
							hist[i] = op{Client: i, Kind: "cleanup", Call: c, Return: atomic.AddInt64(&clock, 1)}
							return
						}
						sn, a := keys[i].auth()
						c := atomic.AddInt64(&clock, 1)
						rep := cache.IsReplay(sn, a)
						hist[i] = op{Client: i, Kind: "present", Key: keys[i].String(), Replay: rep, Call: c, Return: atomic.AddInt64(&clock, 1)}
					}(i)
				}
				start.Done()
				done.Wait()
				key := fmt.Sprintf("stress/w%d/t%d", w, tr)
				same := 0
				for i := range keys {
					if i != clean && keys[i] == base {
						same++
					}
				}
				// interleaving signature: order of call/return stamps by goroutine role
				var sb strings.Builder
				type ev struct {
					t int64
					s string
				}
				var evs []ev
				for i, o := range hist {
					evs = append(evs, ev{o.Call, fmt.Sprintf("c%d", i)}, ev{o.Return, fmt.Sprintf("r%d", i)})
				}
				sort.Slice(evs, func(a, b int) bool { return evs[a].t < evs[b].t })
				for _, e := range evs {
					sb.WriteString(e.s)
				}
				sg := vh.H64(fmt.Sprintf("%d|%s", g, sb.String()))
				sigMu.Lock()
				_, seen := sigs[sg]
				sigs[sg] = struct{}{}
				sigMu.Unlock()
				r.Eval(fmt.Sprintf("stress-sig/%x", sg), !seen || true)
				r.Inc("stress_trials")
				r.Count("stress_same_key_presentations", int64(same))
				ok, why := judge(hist)
				if !ok {
					r.Violation("C02|stress|"+classify(why), why+" (free-running goroutines)", map[string]any{"case": key, "goroutines": g, "history": hist})
				}
				if tr == 7 && w == 0 {
					r.SampleKind("stress", 1, map[string]any{"goroutines": g, "history": hist})
				}
			}
		}(w)
	}
	wg.Wait()
	r.Count("stress_distinct_interleaving_signatures", int64(len(sigs)))
}

// ---------------------------------------------------------------------------------------
// monitor 3: sequential histories under a virtual clock

type sym struct {
	kind string // P, A, C
	k    int    // key index for P
	d    time.Duration
}

func alphabet(t0 time.Time) ([]sym, []pkey) {
	var keys []pkey
	for _, c := range []string{"a", "b"} {
		for _, off := range []time.Duration{-skew, 0, skew} {
			for _, s := range []string{"HTTP/s1", "HTTP/s2"} {
				keys = append(keys, pkey{c, t0.Add(off), 0, s})
			}
		}
	}
	var al []sym
	for i := range keys {
		al = append(al, sym{kind: "P", k: i})
	}
	al = append(al, sym{kind: "A", d: skew / 2}, sym{kind: "A", d: skew}, sym{kind: "A", d: skew + time.Microsecond}, sym{kind: "C"})
	return al, keys
}

// runHistory executes a symbolic history on a fresh cache inside a bubble and judges it.
// histJob is one sequential history: a word over the alphabet.
type histJob struct {
	key    string
	word   []sym
	sample bool
}

// runHistories runs a batch of sequential histories inside ONE synctest bubble, each against a fresh cache and with its
// authenticator timestamps laid out around its own start (the next whole second of the virtual clock). A bubble per history
// would be simpler, but under the race detector every bubble costs about 20 KB that are never given back: a million
// histories took 21 GB.
func runHistories(t *testing.T, r *vh.Run, jobs []histJob) {
	type res struct {
		hist      []op
		pnc       bool
		pv, pw    string
		presented int
	}
	out := make([]res, len(jobs))
	pcommon.AtVirtual(t, time.Hour, func() {
		for ji, j := range jobs {
			now := time.Now()
			base := now.Truncate(time.Second).Add(time.Second)
			time.Sleep(base.Sub(now))
			_, keys := alphabet(base)
			o := &out[ji]
			o.pnc, o.pv, o.pw = vh.Guard(func() {
				cache := service.VerifNewReplayCache()
				var clk int64
				for _, s := range j.word {
					switch s.kind {
					case "A":
						time.Sleep(s.d)
						o.hist = append(o.hist, op{Kind: "advance", Advance: s.d.String()})
					case "C":
						cache.ClearOldEntries(skew)
						o.hist = append(o.hist, op{Kind: "cleanup"})
					case "P":
						k := keys[s.k]
						now := time.Now()
						ct := k.ctime.Add(time.Duration(k.cusec) * time.Microsecond)
						if now.Sub(ct) > skew || ct.Sub(now) > skew {
							o.hist = append(o.hist, op{Kind: "skipped-outside-skew", Key: k.String()})
							continue
						}
						sn, a := k.auth()
						clk++
						c := clk
						rep := cache.IsReplay(sn, a)
						clk++
						o.hist = append(o.hist, op{Kind: "present", Key: k.String(), Replay: rep, Call: c, Return: clk})
						o.presented++
					}
				}
			})
		}
	})
	for ji, j := range jobs {
		o := out[ji]
		judgeHistory(r, j.key, o.hist, o.pnc, o.pv, o.pw, o.presented, j.sample)
	}
}

func judgeHistory(r *vh.Run, key string, hist []op, pnc bool, pv, pw string, presented int, sample bool) {
	r.Eval(key, presented >= 2)
	r.Inc("seq_histories")
	if pnc {
		r.Violation("C02|seq|panic|"+pw, "replay cache panicked: "+pv, map[string]any{"case": key, "history": hist})
		return
	}
	for _, o := range hist {
		if o.Kind == "present" && o.Replay {
			r.Inc("seq_replays_detected")
		}
	}
	if ok, why := judge(hist); !ok {
		late := ""
		for _, o := range hist {
			if o.Kind == "advance" {
				late = "|after-advance"
			}
		}
		cl := ""
		for _, o := range hist {
			if o.Kind == "cleanup" {
				cl = "|with-cleanup"
			}
		}
		r.Violation("C02|seq|"+classify(why)+late+cl, why+" (sequential history, virtual clock)", map[string]any{"case": key, "history": hist})
		return
	}
	if sample {
		r.SampleKind("seq", 2, hist)
	}
}

func monitorHistories(t *testing.T, r *vh.Run) {
	t0 := pcommon.Epoch.Add(time.Hour)
	al, keys := alphabet(t0)
	depth := 4
	nrand, rlen := 2000, 200
	if vh.Thorough() {
		depth = 5
		nrand = 50000
	}
	// bounded-exhaustive words of length 1..depth
	total := 1
	for i := 0; i < depth; i++ {
		total *= len(al)
	}
	const batch = 2000
	vh.Workers((total+batch-1)/batch, func(b int) {
		var jobs []histJob
		for i := b * batch; i < (b+1)*batch && i < total; i++ {
			if !r.MineIdx(i) {
				continue
			}
			word := make([]sym, depth)
			v := i
			var sb strings.Builder
			for j := 0; j < depth; j++ {
				word[j] = al[v%len(al)]
				fmt.Fprintf(&sb, "%d.", v%len(al))
				v /= len(al)
			}
			jobs = append(jobs, histJob{"seq/exh/" + sb.String(), word, i == 4242})
		}
		if len(jobs) > 0 {
			runHistories(t, r, jobs)
		}
	})
	r.Exhaustive(fmt.Sprintf("sequential histories of length %d over %d symbols", depth, len(al)))
	const rbatch = 200
	vh.Workers((nrand+rbatch-1)/rbatch, func(b int) {
		var jobs []histJob
		for i := b * rbatch; i < (b+1)*rbatch && i < nrand; i++ {
			if !r.MineIdx(i) {
				continue
			}
			rnd := vh.NewRand("c02rand", i)
			word := make([]sym, rlen)
			for j := range word {
				// bias: advances rare so that many presentations fall in one window
				if rnd.Intn(12) == 0 {
					word[j] = al[len(keys)+rnd.Intn(4)]
				} else {
					word[j] = al[rnd.Intn(len(keys))]
				}
			}
			jobs = append(jobs, histJob{fmt.Sprintf("seq/rand/%d", i), word, i == 3})
		}
		if len(jobs) > 0 {
			runHistories(t, r, jobs)
		}
	})
}

// ---------------------------------------------------------------------------------------
// monitor 3b: the full VerifyAPREQ path (singleton cache => histories run one after another)

// vpEnv is what the VerifyAPREQ histories share: two services with their keys in one keytab.
type vpEnv struct {
	et        int32
	svc, svc2 kmsg.Name
	ktm       []accept.KeytabEntry
	gkt       *keytab.Keytab
}

func newVPEnv() (*vpEnv, error) {
	e := &vpEnv{et: 18, svc: kmsg.N(2, "HTTP", "host.test.gokrb5"), svc2: kmsg.N(2, "HTTP", "other.test.gokrb5")}
	e.ktm = []accept.KeytabEntry{
		{Realm: "TEST.GOKRB5", Name: e.svc, Kvno: 1, Etype: e.et, Timestamp: 1, Key: pcommon.RefKey(vh.NewRand("c02kt", 1), e.et)},
		{Realm: "TEST.GOKRB5", Name: e.svc2, Kvno: 1, Etype: e.et, Timestamp: 1, Key: pcommon.RefKey(vh.NewRand("c02kt", 2), e.et)},
	}
	e.gkt = keytab.New()
	if err := e.gkt.Unmarshal(accept.KeytabV2(e.ktm)); err != nil {
		return nil, err
	}
	return e, nil
}

// history drives one random history of presentations, advances of the (virtual) clock and clean-ups through
// service.VerifyAPREQ and the process-wide cache, for the permitted skew sk. It must run inside a bubble; it panics when a
// valid request is refused for another reason than being a replay. fine: short advances and timestamps anywhere in the
// window (for skews of a few seconds, where the janitor of the cache wakes several times within one history).
func (e *vpEnv) history(rnd *vh.Rand, hl int, sk time.Duration, fine bool) (hist []op) {
	return e.historySkews(rnd, hl, []time.Duration{sk}, fine, nil)
}

// skewStats counts what a history with several skews reached.
type skewStats struct {
	crossSkew       int // re-presentations, inside the smallest window, through Settings with another skew than the accepting ones
	unjudgedSecond  int // second acceptances outside the smallest window (inside the window of the Settings used): not judged
	outsideSmallest int // presentations inside their own window and outside the smallest one
}

// mintReq builds an AP-REQ for authenticator k with the reference implementation (second: for the second service).
func (e *vpEnv) mintReq(rnd *vh.Rand, k pkey, second bool, t0 time.Time) []byte {
	et := e.et
	sn, ske := e.svc, e.ktm[0]
	if second {
		sn, ske = e.svc2, e.ktm[1]
	}
	cn := kmsg.N(1, k.cname)
	sess := kmsg.Key{Type: et, Value: pcommon.RefKey(rnd, et)}
	m := accept.Mint{ServiceKey: kmsg.Key{Type: et, Value: ske.Key}, Kvno: kmsg.U32(1), Realm: "TEST.GOKRB5", SName: sn,
		Tkt:  kmsg.EncTicketPart{Flags: 0x40800000, Key: sess, CRealm: "TEST.GOKRB5", CName: cn, AuthTime: t0.Add(-time.Minute), EndTime: t0.Add(10 * time.Hour)},
		Auth: kmsg.Authenticator{CRealm: "TEST.GOKRB5", CName: cn, CTime: k.ctime, Cusec: k.cusec},
		Conf: rnd.Bytes}
	b, err := m.Build()
	if err != nil {
		panic(err)
	}
	return b
}

// historySkews is history for a service process that verifies through several Settings differing in their permitted clock
// skew (sks; two listeners of one process, say): every presentation goes through one of them, drawn at random, and is inside
// or outside the window of THAT skew; explicit clean-ups retain for one of the skews. The replay cache is the process's, so
// an authenticator accepted through one Settings is a replay through every other. Where the skews disagree about the
// authenticator still being acceptable (inside the window used, outside the smallest) a second acceptance is counted and
// not judged. With one skew this is exactly history (no extra draws from rnd).
func (e *vpEnv) historySkews(rnd *vh.Rand, hl int, sks []time.Duration, fine bool, st *skewStats) (hist []op) {
	sets := make([]*service.Settings, len(sks))
	minSk := sks[0]
	for i, s := range sks {
		sets[i] = service.NewSettings(e.gkt, service.DecodePAC(false), service.MaxClockSkew(s))
		if s < minSk {
			minSk = s
		}
	}
	pick := func() int {
		if len(sks) == 1 {
			return 0
		}
		return rnd.Intn(len(sks))
	}
	if st == nil {
		st = &skewStats{}
	}
	acceptedVia := map[string]int{}
	t0 := time.Now()
	type minted struct {
		k   pkey
		req []byte
	}
	var pool []minted
	mint := func(k pkey, second bool) minted { return minted{k, e.mintReq(rnd, k, second, t0)} }
	var clk int64
	for i := 0; i < hl; i++ {
		x := rnd.Intn(20)
		si := pick()
		sk, set := sks[si], sets[si]
		switch {
		case x == 0 || (fine && x < 6):
			var d time.Duration
			if fine {
				d = []time.Duration{100 * time.Millisecond, 250 * time.Millisecond, 300 * time.Millisecond, 450 * time.Millisecond, 700 * time.Millisecond, sk / 2, sk + time.Microsecond}[rnd.Intn(7)]
			} else {
				d = []time.Duration{sk / 2, sk, sk + time.Microsecond, sk + 500*time.Millisecond, time.Second - time.Microsecond, 300 * time.Millisecond}[rnd.Intn(6)]
			}
			time.Sleep(d)
			hist = append(hist, op{Kind: "advance", Advance: d.String()})
		case x == 6 && !fine:
			service.GetReplayCache(sk).ClearOldEntries(sk)
			hist = append(hist, op{Kind: "cleanup"})
		default:
			var m minted
			represent := len(pool) > 0 && x < 14
			if represent {
				m = pool[rnd.Intn(len(pool))] // re-present (the same bytes, or a re-minted request with the same authenticator)
			} else {
				now := time.Now()
				off := []time.Duration{-sk, -sk / 2, 0, sk / 2, sk}[rnd.Intn(5)]
				if fine {
					off = time.Duration(rnd.Intn(int(2*sk/time.Microsecond)+1))*time.Microsecond - sk
				}
				ct := now.Add(off).Truncate(time.Microsecond)
				k := pkey{cname: []string{"a", "b"}[rnd.Intn(2)], ctime: ct.Truncate(time.Second), cusec: int(ct.Sub(ct.Truncate(time.Second)) / time.Microsecond)}
				if rnd.Bool() {
					k.sname = "HTTP/host.test.gokrb5"
					m = mint(k, false)
				} else {
					k.sname = "HTTP/other.test.gokrb5"
					m = mint(k, true)
				}
				pool = append(pool, m)
			}
			now := time.Now()
			ct := m.k.ctime.Add(time.Duration(m.k.cusec) * time.Microsecond)
			// outside the window the request is presented all the same: it must not be accepted (again); any error will do
			outside := now.Sub(ct) > sk || ct.Sub(now) > sk
			var a messages.APReq
			if err := a.Unmarshal(m.req); err != nil {
				panic("unmarshal of reference AP-REQ: " + err.Error())
			}
			if represent && rnd.Intn(3) == 0 {
				// the service name of a ticket travels in the clear and its name type is only a hint (RFC 4120 6.2): a replay
				// whose ticket says another name type is the same authenticator for the same service
				a.Ticket.SName.NameType = []int32{1, 3, 0}[rnd.Intn(3)]
			}
			clk++
			c := clk
			ok, _, err := service.VerifyAPREQ(&a, set)
			clk++
			o := op{Kind: "present", Key: m.k.String(), Call: c, Return: clk}
			if len(sks) > 1 {
				o.Skew = sk.String()
			}
			// the skews of the process disagree about this authenticator: inside the window used, outside the smallest one
			disputed := !outside && (now.Sub(ct) > minSk || ct.Sub(now) > minSk)
			via, accepted := acceptedVia[o.Key]
			if disputed {
				st.outsideSmallest++
			}
			if accepted && via != si && !outside && !disputed {
				st.crossSkew++
			}
			if ok && !accepted {
				acceptedVia[o.Key] = si
			}
			if ok && accepted && disputed {
				st.unjudgedSecond++
				o.Kind = "present-accepted-again-outside-smallest-skew-unjudged"
				hist = append(hist, o)
				continue
			}
			if ok {
				o.Replay = false
			} else if outside {
				hist = append(hist, op{Kind: "present-outside-window-rejected", Key: m.k.String(), Call: c, Return: clk})
				continue
			} else if ke, isK := err.(messages.KRBError); isK && ke.ErrorCode == 34 {
				o.Replay = true
			} else {
				panic(fmt.Sprintf("valid request rejected with %v", err))
			}
			hist = append(hist, o)
		}
	}
	return hist
}

func monitorVerifyPath(t *testing.T, r *vh.Run) {
	si, _ := vh.Shard()
	if si != 0 {
		return
	}
	nh, hl := 150, 60
	if vh.Thorough() {
		nh, hl = 3000, 100
	}
	e, err := newVPEnv()
	if err != nil {
		r.Inconclusive("cannot load reference keytab: " + err.Error())
		return
	}
	for h := 0; h < nh; h++ {
		rnd := vh.NewRand("c02verify", h)
		key := fmt.Sprintf("verifypath/%d", h)
		var hist []op
		var pnc bool
		var pv, pw string
		pcommon.AtVirtual(t, time.Hour, func() {
			pnc, pv, pw = vh.Guard(func() {
				service.VerifResetReplayCache()
				hist = e.history(rnd, hl, skew, false)
			})
		})
		judgeVerifyHistory(r, key, "verifypath", hist, pnc, pv, pw, h == 0)
	}
	service.VerifResetReplayCache()
}

func judgeVerifyHistory(r *vh.Run, key, fam string, hist []op, pnc bool, pv, pw string, sample bool) {
	np := 0
	for _, o := range hist {
		if o.Kind == "present" {
			np++
			r.Inc(fam + "_presentations")
			if o.Replay {
				r.Inc(fam + "_replays_detected")
			}
		}
	}
	r.Eval(key, np >= 2)
	if pnc {
		r.Violation("C02|"+fam+"|error|"+pw, "VerifyAPREQ history failed: "+pv, map[string]any{"case": key, "history": hist})
		return
	}
	if ok, why := judge(hist); !ok {
		r.Violation("C02|"+fam+"|"+classify(why), why+" (service.VerifyAPREQ, virtual clock)", map[string]any{"case": key, "history": hist})
		return
	}
	if sample {
		r.SampleKind(fam, 1, hist)
	}
}

// ---------------------------------------------------------------------------------------
// monitor 3c: volume. One client presents a large number of distinct authenticators inside one window, then every one of
// them again: each must be a replay however many the cache has been given to remember.

func monitorVolume(t *testing.T, r *vh.Run) {
	si, _ := vh.Shard()
	if si != 0 {
		return
	}
	n := 200000
	if vh.Thorough() {
		n = 2000000
	}
	var hist []op
	var firstAccepted, forgotten int
	var firstForgotten string
	pnc, pv, pw := false, "", ""
	pcommon.AtVirtual(t, time.Hour, func() {
		pnc, pv, pw = vh.Guard(func() {
			cache := service.VerifNewReplayCache()
			base := time.Now().Truncate(time.Second)
			key := func(i int) pkey {
				// at most 500000 per second of client time: microseconds and three services spread the rest
				return pkey{cname: "bulk", ctime: base.Add(time.Duration(i/1500000) * time.Second), cusec: (i / 3) % 500000 * 2, sname: []string{"HTTP/s1", "HTTP/s2", "host/s1"}[i%3]}
			}
			for i := 0; i < n; i++ {
				sn, a := key(i).auth()
				if !cache.IsReplay(sn, a) {
					firstAccepted++
				}
				if i%50000 == 25000 {
					cache.ClearOldEntries(skew)
					time.Sleep(time.Second)
				}
			}
			for i := 0; i < n; i++ {
				k := key(i)
				sn, a := k.auth()
				rep := cache.IsReplay(sn, a)
				if !rep {
					forgotten++
					if firstForgotten == "" {
						firstForgotten = fmt.Sprintf("presentation %d of %d (%s)", i, n, k)
					}
				}
				if i < 3 || !rep && len(hist) < 20 {
					hist = append(hist, op{Kind: "present", Key: k.String(), Replay: rep})
				}
			}
		})
	})
	r.Eval("volume", true)
	r.Count("volume_first_presentations_accepted", int64(firstAccepted))
	r.Count("volume_represented", int64(n))
	if pnc {
		r.Violation("C02|volume|panic|"+pw, "replay cache panicked: "+pv, map[string]any{"case": "volume"})
		return
	}
	if firstAccepted != n {
		r.Violation("C02|volume|first-presentation-refused", fmt.Sprintf("%d of %d distinct authenticators of one client were taken for replays on their first presentation", n-firstAccepted, n), map[string]any{"case": "volume"})
	}
	if forgotten > 0 {
		r.Violation("C02|volume|accepted-twice", fmt.Sprintf("after %d distinct authenticators of one client inside one window, %d of them are accepted a second time; first: %s", n, forgotten, firstForgotten),
			map[string]any{"case": "volume", "history": hist})
	}
}

// ---------------------------------------------------------------------------------------
// monitor 3d: the cache's own janitor. The process-wide cache starts its clean-up goroutine with the skew of its first user
// and there is one per process, so each skew gets a process of its own: this test binary again, running TestJanitorChild
// inside one bubble in which the janitor sleeps and wakes on the virtual clock while histories with short advances and
// timestamps anywhere in the window go through service.VerifyAPREQ. The child writes its histories to a file and exits;
// they are judged here with the same oracle as all others.

const janitorChildEnv = "C02_JANITOR_CHILD"

type janitorOut struct {
	Skew      string `json:"skew"`
	Histories [][]op `json:"histories"`
	Errors    []string `json:"errors"`
	// WakeupsWithEntries: times the clock passed a multiple of the skew since the cache was made while the cache held entries
	WakeupsWithEntries int `json:"wakeups_with_entries"`
	// processes verifying through Settings with several skews ("a+b" in the specification): see skewStats
	CrossSkew       int `json:"cross_skew"`
	OutsideSmallest int `json:"outside_smallest"`
	UnjudgedSecond  int `json:"unjudged_second"`
}

func TestJanitorChild(t *testing.T) {
	spec := os.Getenv(janitorChildEnv)
	if spec == "" {
		t.Skip("helper process of TestProp")
	}
	var skS, out string
	var n, hl int
	var seed int
	if _, err := fmt.Sscanf(spec, "%s %d %d %d %s", &skS, &n, &hl, &seed, &out); err != nil {
		t.Fatal(err)
	}
	// "a+b+c": one process whose Settings differ in the permitted clock skew; the cache's janitor gets the first
	var sks []time.Duration
	for _, f := range strings.Split(skS, "+") {
		d, err := time.ParseDuration(f)
		if err != nil {
			t.Fatal(err)
		}
		sks = append(sks, d)
	}
	sk := sks[0]
	e, err := newVPEnv()
	if err != nil {
		t.Fatal(err)
	}
	res := janitorOut{Skew: skS}
	synctest.Test(t, func(t *testing.T) {
		time.Sleep(time.Hour)
		made := time.Now()
		service.GetReplayCache(sk) // the janitor starts here, inside the bubble, with this skew
		for h := 0; h < n; h++ {
			rnd := vh.NewRand(fmt.Sprintf("c02janitor/%s/%d", skS, seed), h)
			var hist []op
			t1 := time.Now()
			if p, v, w := vh.Guard(func() {
				service.VerifResetReplayCache()
				var st skewStats
				hist = e.historySkews(rnd, hl, sks, sk < time.Minute, &st)
				res.CrossSkew += st.crossSkew
				res.OutsideSmallest += st.outsideSmallest
				res.UnjudgedSecond += st.unjudgedSecond
			}); p {
				res.Errors = append(res.Errors, fmt.Sprintf("history %d: %s @ %s", h, v, w))
			}
			res.WakeupsWithEntries += int(time.Since(made)/sk - t1.Sub(made)/sk)
			res.Histories = append(res.Histories, hist)
		}
		b, _ := json.Marshal(res)
		if err := os.WriteFile(out, b, 0o644); err != nil {
			fmt.Fprintln(os.Stderr, "janitor child:", err)
			os.Exit(3)
		}
		os.Exit(0) // the janitor never ends: leave from inside the bubble
	})
}

func monitorJanitor(t *testing.T, r *vh.Run) {
	si, _ := vh.Shard()
	if si != 0 {
		return
	}
	n, hl := 120, 60
	if vh.Thorough() {
		n, hl = 2000, 100
	}
	// with a "+": one process whose Settings differ in the permitted clock skew (two listeners, say). The replay cache is the
	// process's, not a Settings'. These run in processes of their own as well: an implementation is free to start goroutines
	// when it meets a new skew, as it does for its janitor, and those would outlive a bubble of this process.
	skews := []string{"2500ms", "1700ms", "7s", "999ms", "3s", "5m+10m", "10m+5m+3m", "2500ms+5s", "4s+1700ms+7s"}
	exe, err := os.Executable()
	if err != nil {
		r.Inconclusive("janitor processes: " + err.Error())
		return
	}
	type result struct {
		out  janitorOut
		err  string
		race bool
	}
	results := make([]result, len(skews))
	vh.Workers(len(skews), func(i int) {
		f, err := os.CreateTemp(os.Getenv("VERIF_WORK"), "c02-janitor-*.json")
		if err != nil {
			results[i].err = err.Error()
			return
		}
		f.Close()
		defer os.Remove(f.Name())
		cmd := exec.Command(exe, "-test.run", "^TestJanitorChild$", "-test.timeout", "0")
		cmd.Env = append(os.Environ(), fmt.Sprintf("%s=%s %d %d %d %s", janitorChildEnv, skews[i], n, hl, vh.Seed(), f.Name()))
		ob, err := cmd.CombinedOutput()
		if err != nil {
			results[i].err = fmt.Sprintf("%v: %s", err, tail(string(ob), 2000))
			results[i].race = strings.Contains(string(ob), "WARNING: DATA RACE")
			return
		}
		b, err := os.ReadFile(f.Name())
		if err == nil {
			err = json.Unmarshal(b, &results[i].out)
		}
		if err != nil {
			results[i].err = err.Error()
		}
	})
	for i, res := range results {
		if res.race {
			r.Violation("C02|janitor|data-race", "data race reported in the process running the cache's janitor: "+res.err, map[string]any{"case": "janitor/" + skews[i]})
			continue
		}
		if res.err != "" {
			r.Inconclusive("janitor process for skew " + skews[i] + ": " + res.err)
			continue
		}
		fam := "janitor"
		if strings.Contains(skews[i], "+") {
			fam = "multiskew"
			r.Inc("multiskew_processes")
			r.Count("multiskew_represented_through_other_skew", int64(res.out.CrossSkew))
			r.Count("observe_multiskew_presentations_outside_smallest_skew", int64(res.out.OutsideSmallest))
			r.Count("observe_multiskew_second_acceptance_outside_smallest_skew_unjudged", int64(res.out.UnjudgedSecond))
		} else {
			r.Count("janitor_wakeups_with_entries", int64(res.out.WakeupsWithEntries))
		}
		for _, e := range res.out.Errors {
			r.Violation("C02|"+fam+"|error", "VerifyAPREQ history failed in the janitor process: "+e, map[string]any{"case": fam + "/" + skews[i]})
		}
		for h, hist := range res.out.Histories {
			judgeVerifyHistory(r, fmt.Sprintf("%s/%s/%d", fam, skews[i], h), fam, hist, false, "", "", h == 0 && (i == 0 || i == 5))
		}
	}
}

func tail(s string, n int) string {
	if len(s) > n {
		return s[len(s)-n:]
	}
	return s
}
