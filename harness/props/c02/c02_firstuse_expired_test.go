package c02

import (
	"encoding/json"
	"fmt"
	"os"
	"os/exec"
	"runtime"
	"strings"
	"sync"
	"sync/atomic"
	"testing"
	"time"

	"github.com/jcmturner/gokrb5/v8/messages"
	"github.com/jcmturner/gokrb5/v8/service"

	"verif/vh"
)

// ---------------------------------------------------------------------------------------
// monitor 2b: free-running clean-up against the first fresh authenticator of a client all of whose earlier authenticators
// have expired. The cache is large (many other clients with live entries), so a clean-up lasts long enough for
// presentations to arrive while it is under way; most presenters wait until the clean-up goroutine is about to call
// ClearOldEntries (a flag of the harness, nothing of the implementation is looked at). Every authenticator presented while
// the clean-up ran is presented again after everything has returned: it is still inside the window and must be a replay.

var spinSink atomic.Uint64

func monitorStressExpired(r *vh.Run) {
	trials, fillers := 4000, 1500
	if vh.Thorough() {
		trials, fillers = 60000, 6000
	}
	_, ns := vh.Shard()
	trials /= ns
	service.VerifYield = randomYield
	defer func() { service.VerifYield = nil }()
	nw := runtime.GOMAXPROCS(0) / 4
	if nw < 2 {
		nw = 2
	}
	per := trials / nw
	var wg sync.WaitGroup
	for w := 0; w < nw; w++ {
		wg.Add(1)
		go func(w int) {
			defer wg.Done()
			rnd := vh.NewRand("c02expired", w)
			var cache *service.Cache
			for tr := 0; tr < per; tr++ {
				now := time.Now().UTC().Truncate(time.Second)
				if tr%400 == 0 {
					cache = service.VerifNewReplayCache()
					for i := 0; i < fillers; i++ {
						sn, a := pkey{fmt.Sprintf("filler%d", i), now.Add(-time.Duration(i%120) * time.Second), i, "HTTP/s1"}.auth()
						cache.IsReplay(sn, a)
					}
				}
				victim := fmt.Sprintf("victim%d-%d", w, tr)
				svc := func() string { return []string{"HTTP/s1", "HTTP/s2"}[rnd.Intn(2)] }
				// earlier authenticators of the victim, all outside the window by now (recorded by a verification long ago)
				for j, n := 0, 1+rnd.Intn(3); j < n; j++ {
					sn, a := pkey{victim, now.Add(-skew - time.Duration(1+rnd.Intn(3600))*time.Second), rnd.Intn(1000000), svc()}.auth()
					if rnd.Bool() {
						cache.AddEntry(sn, a)
					} else {
						cache.IsReplay(sn, a)
					}
				}
				var clock int64
				var hist []op
				present := func(client int, k pkey) op {
					sn, a := k.auth()
					c := atomic.AddInt64(&clock, 1)
					rep := cache.IsReplay(sn, a)
					return op{Client: client, Kind: "present", Key: k.String(), Replay: rep, Call: c, Return: atomic.AddInt64(&clock, 1)}
				}
				// one time in four the victim also has an authenticator that is still inside the window
				var again []pkey
				if rnd.Intn(4) == 0 {
					k := pkey{victim, now.Add(-time.Duration(rnd.Intn(200)) * time.Second), rnd.Intn(1000000), svc()}
					hist = append(hist, present(100, k))
					again = append(again, k)
				}
				np := 1 + rnd.Intn(3)
				nc := 1
				if rnd.Intn(5) == 0 {
					nc = 2
				}
				keys := make([]pkey, np)
				for i := range keys {
					keys[i] = pkey{victim, now.Add(time.Duration(rnd.Intn(241)-120) * time.Second), rnd.Intn(1000000), svc()}
					if i > 0 && rnd.Intn(3) == 0 {
						keys[i] = keys[0]
					} else {
						again = append(again, keys[i])
					}
				}
				waits := make([]bool, np)
				spins := make([]int, np)
				for i := range spins {
					waits[i] = rnd.Intn(10) < 7
					spins[i] = rnd.Intn(4000)
				}
				conc := make([]op, np+nc)
				var start, done sync.WaitGroup
				var cleaning atomic.Int32
				start.Add(1)
				for i := 0; i < np+nc; i++ {
					done.Add(1)
					go func(i int) {
						defer done.Done()
						start.Wait()
						if i >= np {
							c := atomic.AddInt64(&clock, 1)
							cleaning.Add(1)
							cache.ClearOldEntries(skew)
							conc[i] = op{Client: i, Kind: "cleanup", Call: c, Return: atomic.AddInt64(&clock, 1)}
							return
						}
						for n := 0; waits[i] && cleaning.Load() == 0 && n < 1000000; n++ {
							runtime.Gosched()
						}
						for s := 0; s < spins[i]; s++ {
							spinSink.Add(1)
						}
						conc[i] = present(i, keys[i])
					}(i)
				}
				start.Done()
				done.Wait()
				hist = append(hist, conc...)
				overlap := 0
				for i := 0; i < np; i++ {
					for j := np; j < np+nc; j++ {
						if conc[i].Call < conc[j].Return && conc[j].Call < conc[i].Return {
							overlap++
							break
						}
					}
				}
				// afterwards every authenticator that was accepted is still inside the window: a replay
				for _, k := range again {
					hist = append(hist, present(101, k))
				}
				key := fmt.Sprintf("stressexp/w%d/t%d", w, tr)
				r.Eval(key, true)
				r.Inc("stressexp_trials")
				r.Count("stressexp_presentations_overlapping_cleanup", int64(overlap))
				ok, why := judge(hist)
				if !ok {
					r.Violation("C02|stress-expired-client|"+classify(why), why+" (free-running clean-up while a client whose earlier authenticators have all expired presents a fresh one)",
						map[string]any{"case": key, "presenters": np, "cleaners": nc, "history": hist})
				}
				if tr == 5 && w == 0 {
					r.SampleKind("stress-expired-client", 1, map[string]any{"presenters": np, "cleaners": nc, "history": hist})
				}
			}
		}(w)
	}
	wg.Wait()
}

// ---------------------------------------------------------------------------------------
// monitor 3e: the first use of the process-wide cache. What a service process does first may well be several verifications at
// once, and a process has only one first use: this test binary again, once per attempt, running TestFirstUseChild, in which
// 2-8 goroutines released together make the process's first calls of service.VerifyAPREQ, most with the same authenticator
// (the same bytes or re-minted), followed by one more presentation of each after all have returned. Some processes have
// refused requests before (timestamp outside the window: refused before the replay cache is consulted). Judged here with the
// at-most-once oracle; the binary is a race-detector build, and a race report of the child that names gokrb5 is reported.

const firstUseChildEnv = "C02_FIRSTUSE_CHILD"

type firstUseOut struct {
	Goroutines int      `json:"goroutines"`
	Warm       bool     `json:"warm"`
	History    []op     `json:"history"`
	Errors     []string `json:"errors"`
}

func TestFirstUseChild(t *testing.T) {
	spec := os.Getenv(firstUseChildEnv)
	if spec == "" {
		t.Skip("helper process of TestProp")
	}
	var idx int
	var out string
	if _, err := fmt.Sscanf(spec, "%d %s", &idx, &out); err != nil {
		t.Fatal(err)
	}
	e, err := newVPEnv()
	if err != nil {
		t.Fatal(err)
	}
	rnd := vh.NewRand("c02firstuse", idx)
	g := 2 + rnd.Intn(7)
	res := firstUseOut{Goroutines: g, Warm: rnd.Bool()}
	set := service.NewSettings(e.gkt, service.DecodePAC(false), service.MaxClockSkew(skew))
	now := time.Now().UTC()
	ct := now.Add(time.Duration(rnd.Intn(241)-120) * time.Second).Truncate(time.Microsecond)
	base := pkey{cname: "first", ctime: ct.Truncate(time.Second), cusec: int(ct.Sub(ct.Truncate(time.Second)) / time.Microsecond), sname: "HTTP/host.test.gokrb5"}
	keys := make([]pkey, g)
	reqs := make([]*messages.APReq, g)
	raws := make([][]byte, g)
	stale := make([]*messages.APReq, g)
	parse := func(b []byte) *messages.APReq {
		var a messages.APReq
		if err := a.Unmarshal(b); err != nil {
			t.Fatal("unmarshal of reference AP-REQ: " + err.Error())
		}
		return &a
	}
	baseReq := e.mintReq(rnd, base, false, now)
	for i := range keys {
		keys[i] = base
		if i >= 2 {
			switch rnd.Intn(8) {
			case 0:
				keys[i].cusec = (base.cusec + 1) % 1000000
			case 1:
				keys[i].cname = "second"
			}
		}
		b := baseReq
		if keys[i] != base || rnd.Bool() {
			b = e.mintReq(rnd, keys[i], false, now) // the same authenticator in another request
		}
		reqs[i], raws[i] = parse(b), b
		old := keys[i]
		old.ctime = old.ctime.Add(-time.Hour)
		stale[i] = parse(e.mintReq(rnd, old, false, now))
	}
	var clock int64
	hist := make([]op, g)
	errs := make([]string, g)
	verify := func(client int, k pkey, a *messages.APReq) (op, string) {
		c := atomic.AddInt64(&clock, 1)
		ok, _, err := service.VerifyAPREQ(a, set)
		o := op{Client: client, Kind: "present", Key: k.String(), Call: c, Return: atomic.AddInt64(&clock, 1)}
		if ok {
			return o, ""
		}
		if ke, isK := err.(messages.KRBError); isK && ke.ErrorCode == 34 {
			o.Replay = true
			return o, ""
		}
		o.Kind = "present-refused"
		return o, fmt.Sprintf("valid request of goroutine %d rejected with %v", client, err)
	}
	var ready, released atomic.Int32
	var done sync.WaitGroup
	for i := 0; i < g; i++ {
		done.Add(1)
		go func(i int) {
			defer done.Done()
			if res.Warm {
				service.VerifyAPREQ(stale[i], set) // refused for its timestamp; the replay cache is not reached
			}
			ready.Add(1)
			for released.Load() == 0 {
				runtime.Gosched()
			}
			hist[i], errs[i] = verify(i, keys[i], reqs[i])
		}(i)
	}
	for ready.Load() < int32(g) {
		runtime.Gosched()
	}
	released.Store(1)
	done.Wait()
	res.History = hist
	seen := map[pkey]bool{}
	for i, k := range keys {
		if !seen[k] {
			seen[k] = true
			o, es := verify(100, k, parse(raws[i]))
			res.History = append(res.History, o)
			errs = append(errs, es)
		}
	}
	for _, e := range errs {
		if e != "" {
			res.Errors = append(res.Errors, e)
		}
	}
	b, _ := json.Marshal(res)
	if err := os.WriteFile(out, b, 0o644); err != nil {
		fmt.Fprintln(os.Stderr, "first-use child:", err)
		os.Exit(3)
	}
	os.Exit(0) // the cache's janitor never ends
}

func monitorFirstUse(t *testing.T, r *vh.Run) {
	si, _ := vh.Shard()
	if si != 0 {
		return
	}
	n := 48
	if vh.Thorough() {
		n = 600
	}
	exe, err := os.Executable()
	if err != nil {
		r.Inconclusive("first-use processes: " + err.Error())
		return
	}
	raceLog := ""
	for _, f := range strings.Fields(os.Getenv("GORACE")) {
		if strings.HasPrefix(f, "log_path=") {
			raceLog = strings.TrimPrefix(f, "log_path=")
		}
	}
	type result struct {
		out    firstUseOut
		err    string
		code   int
		output string
		race   string
	}
	results := make([]result, n)
	vh.Workers(n, func(i int) {
		res := &results[i]
		f, err := os.CreateTemp(os.Getenv("VERIF_WORK"), "c02-firstuse-*.json")
		if err != nil {
			res.err = err.Error()
			return
		}
		f.Close()
		defer os.Remove(f.Name())
		cmd := exec.Command(exe, "-test.run", "^TestFirstUseChild$", "-test.timeout", "120s")
		cmd.Env = append(os.Environ(), fmt.Sprintf("%s=%d %s", firstUseChildEnv, i, f.Name()))
		ob, err := cmd.CombinedOutput()
		res.output = tail(string(ob), 3000)
		if err != nil {
			res.code = -1
			if cmd.ProcessState != nil {
				res.code = cmd.ProcessState.ExitCode()
			}
			if res.code != 66 { // 66: the race detector's exit status; the child has written its history all the same
				res.err = err.Error()
				return
			}
			res.race = string(ob)
			if !strings.Contains(res.race, "WARNING: DATA RACE") && raceLog != "" && cmd.ProcessState != nil {
				if b, err := os.ReadFile(fmt.Sprintf("%s.%d", raceLog, cmd.ProcessState.Pid())); err == nil {
					res.race = string(b)
				}
			}
		}
		b, err := os.ReadFile(f.Name())
		if err == nil {
			err = json.Unmarshal(b, &res.out)
		}
		if err != nil {
			res.err = "no history from the child: " + err.Error()
		}
	})
	for i, res := range results {
		key := fmt.Sprintf("firstuse/%d", i)
		if res.code == 66 {
			r.Inc("firstuse_processes_with_race_report")
			if strings.Contains(res.race, "github.com/jcmturner/gokrb5/") {
				r.Violation("C02|firstuse|data-race", "data race reported in a process whose first verifications ran concurrently", map[string]any{"case": key, "report": tail(res.race, 3000)})
			} else {
				r.Inconclusive("first-use process " + key + ": race report that does not name gokrb5: " + tail(res.race, 1500))
			}
		}
		if res.err != "" {
			if (strings.Contains(res.output, "panic:") || strings.Contains(res.output, "fatal error:")) && strings.Contains(res.output, "github.com/jcmturner/gokrb5/") {
				r.Violation("C02|firstuse|crash", "the process whose first verifications ran concurrently crashed", map[string]any{"case": key, "output": res.output})
			} else {
				r.Inconclusive("first-use process " + key + ": " + res.err + ": " + res.output)
			}
			continue
		}
		r.Inc("firstuse_processes")
		for _, e := range res.out.Errors {
			r.Violation("C02|firstuse|error", "a valid request among the first of a process was refused for another reason than being a replay: "+e, map[string]any{"case": key, "history": res.out.History})
		}
		hist := res.out.History
		g := res.out.Goroutines
		overlapping := false
		for a := 0; a < g && a < len(hist); a++ {
			for b := a + 1; b < g && b < len(hist); b++ {
				if hist[a].Call < hist[b].Return && hist[b].Call < hist[a].Return {
					overlapping = true
				}
			}
		}
		if overlapping {
			r.Inc("firstuse_processes_with_overlapping_first_calls")
		}
		if res.out.Warm {
			r.Inc("firstuse_processes_that_refused_requests_before")
		}
		np := 0
		for _, o := range hist {
			if o.Kind == "present" {
				np++
				r.Inc("firstuse_presentations")
				if o.Replay {
					r.Inc("firstuse_replays_detected")
				}
			}
		}
		r.Eval(key, np >= 2)
		if ok, why := judge(hist); !ok {
			r.Violation("C02|firstuse|"+classify(why), why+" (concurrent first verifications of a fresh process, service.VerifyAPREQ)", map[string]any{"case": key, "goroutines": g, "history": hist})
			continue
		}
		if i == 0 {
			r.SampleKind("firstuse", 1, hist)
		}
	}
}
