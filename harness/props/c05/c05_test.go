package c05

import (
	"bytes"
	"fmt"
	"testing"

	"github.com/jcmturner/gokrb5/v8/crypto"
	"github.com/jcmturner/gokrb5/v8/types"

	"verif/props/pcommon"
	"verif/ref/kcrypto"
	"verif/vh"
)

type cse struct {
	Et    int32  `json:"etype"`
	Len   int    `json:"len"`
	Usage uint32 `json:"usage"`
	Key   string `json:"key"`
	PT    string `json:"plaintext"`
	Dir   string `json:"dir"`
}

func TestProp(t *testing.T) {
	r := vh.Start("C05")
	defer r.Finish()
	if err := kcrypto.SelfTest(); err != nil {
		r.Inconclusive("reference self-test failed: " + err.Error())
		return
	}
	r.SetRule("enumerated: etype {16,17,18,19,20,23} x plaintext length 0..130 (thorough: 0..300 and the neighbours of 512, 1024, 4096, 16384, 65536) x usage set (29 iana constants + 127,128,255,256,1024,2^31) x K seeded keys (2 quick / 12 thorough; the last one shared byte-for-byte by all etypes of equal key length) x seeded contents, " +
		"plus a key usage sweep (every usage number 1..4095, thorough: 1..65535 and 100 000 seeded 32-bit numbers, per etype with a fixed key and a 21-byte plaintext); " +
		"plus fault injection at the random source (a rand.Reader that fails after 0/1/7/15 bytes, in a test binary built with the repository's go <= 1.23 toolchain: error or still-different ciphertexts); " +
		"each in both directions (gokrb5 encrypt -> reference decrypt, reference encrypt -> gokrb5 decrypt) through crypto.GetEncryptedData/DecryptMessage and the EType interface; " +
		"distinct = (etype,len,usage,key index); non-trivial = every case (each performs two encryptions and four decryptions)")
	r.Assume("reference implementation ref/kcrypto written from RFC 3961/3962/8009/4757, self-tested against the RFC vectors on every run")
	nkeys := 2
	lens := make([]int, 0, 400)
	for n := 0; n <= 130; n++ {
		lens = append(lens, n)
	}
	if vh.Thorough() {
		nkeys = 12
		for n := 131; n <= 300; n++ {
			lens = append(lens, n)
		}
		// block, page and 16-bit boundaries
		lens = append(lens, 511, 512, 513, 1023, 1024, 1025, 4095, 4096, 4097, 16383, 16384, 16385, 65535, 65536, 65537)
	}
	type job struct {
		et  int32
		ki  int
		key []byte
	}
	var jobs []job
	for _, et := range kcrypto.Etypes {
		for ki := 0; ki < nkeys; ki++ {
			k := pcommon.RefKey(vh.NewRand("c05key", et, ki), et)
			if ki == nkeys-1 {
				k = pcommon.SharedKey(et, 0) // the same bytes for every etype of equal key length
			}
			jobs = append(jobs, job{et, ki, k})
		}
	}
	type unit struct {
		j job
		n int
	}
	var units []unit
	for _, j := range jobs {
		for _, n := range lens {
			if n > 300 && j.ki >= 2 {
				continue // the long plaintexts with two keys per etype
			}
			units = append(units, unit{j, n})
		}
	}
	vh.Workers(len(units), func(i int) {
		u := units[i]
		for ui, usage := range pcommon.UsageSet {
			if u.n > 300 && ui%6 != 0 {
				continue // and every sixth usage
			}
			one(r, u.j.et, u.j.ki, u.j.key, u.n, usage)
		}
	})
	usageSweep(r)
	randFault(r)
	r.Exhaustive("etype x length 0..130 x usage set")
	r.Require("usage_sweep_interoperates", 20000)
	r.Require("gokrb5_encrypt_ref_decrypt_ok", 1000)
	r.Require("ref_encrypt_gokrb5_decrypt_ok", 1000)
	r.Require("same_buffer_decrypts_again", 1000)
	for _, et := range kcrypto.Etypes {
		r.Require(fmt.Sprintf("etype_%d_cases", et), 100)
	}
}

func one(r *vh.Run, et int32, ki int, key []byte, n int, usage uint32) {
	ck := fmt.Sprintf("et=%d/len=%d/usage=%d/key=%d", et, n, usage, ki)
	if !r.Mine(ck) {
		return
	}
	rnd := vh.NewRand("c05pt", ck)
	pt := rnd.Bytes(n)
	c := cse{Et: et, Len: n, Usage: usage, Key: fmt.Sprintf("%x", key), PT: fmt.Sprintf("%x", pt)}
	r.Eval(ck, true)
	r.Inc(fmt.Sprintf("etype_%d_cases", et))
	r.SampleKind(fmt.Sprintf("et%d", et), 1, c)
	ekey := types.EncryptionKey{KeyType: et, KeyValue: append([]byte{}, key...)}
	viol := func(kind, what string, extra map[string]any) {
		d := map[string]any{"case": ck, "input": c}
		for k, v := range extra {
			d[k] = v
		}
		cls := "usage<128"
		if usage >= 128 {
			cls = "usage>=128"
		}
		r.Violation(fmt.Sprintf("C05|%s|etype=%d|%s", kind, et, cls), what, d)
	}

	// direction 1: gokrb5 encrypts (twice), reference decrypts
	var ed1, ed2 types.EncryptedData
	var err1, err2 error
	if p, v, w := vh.Guard(func() {
		ed1, err1 = crypto.GetEncryptedData(append([]byte{}, pt...), ekey, usage, 1)
		ed2, err2 = crypto.GetEncryptedData(append([]byte{}, pt...), ekey, usage, 1)
	}); p {
		viol("panic-encrypt|"+w+"|"+vh.PanicClass(v), "GetEncryptedData panicked: "+v, nil)
	} else if err1 != nil || err2 != nil {
		if n == 0 && et == kcrypto.DES3 {
			// RFC 3961: des3 pads (confounder|plaintext) which is never empty; an error for an empty plaintext would still be a defect
		}
		viol("encrypt-error", fmt.Sprintf("GetEncryptedData returned error %v / %v", err1, err2), nil)
	} else {
		if ed1.EType != et {
			viol("encrypt-etype-label", fmt.Sprintf("EncryptedData.EType=%d", ed1.EType), nil)
		}
		if want := kcrypto.CiphertextLen(et, n); len(ed1.Cipher) != want {
			viol("ciphertext-length", fmt.Sprintf("ciphertext length %d, RFC formula gives %d", len(ed1.Cipher), want), map[string]any{"ciphertext": fmt.Sprintf("%x", ed1.Cipher)})
		}
		p1, conf1, e1 := kcrypto.Decrypt(et, key, usage, ed1.Cipher)
		p2, conf2, e2 := kcrypto.Decrypt(et, key, usage, ed2.Cipher)
		if e1 != nil || e2 != nil {
			viol("ref-cannot-decrypt", fmt.Sprintf("reference cannot decrypt gokrb5 ciphertext: %v", e1), map[string]any{"ciphertext": fmt.Sprintf("%x", ed1.Cipher)})
		} else {
			if !ptEqual(et, p1, pt) || !ptEqual(et, p2, pt) {
				viol("ref-decrypts-other", fmt.Sprintf("reference decrypts gokrb5 ciphertext to %x", p1), map[string]any{"ciphertext": fmt.Sprintf("%x", ed1.Cipher)})
			} else {
				r.Inc("gokrb5_encrypt_ref_decrypt_ok")
			}
			if bytes.Equal(conf1, conf2) {
				viol("confounder-reused", fmt.Sprintf("two encryptions used the same confounder %x", conf1), nil)
			}
			if bytes.Equal(conf1, make([]byte, len(conf1))) {
				viol("confounder-zero", "confounder is all zero", nil)
			}
		}
		if bytes.Equal(ed1.Cipher, ed2.Cipher) {
			viol("ciphertext-identical", "two encryptions of the same plaintext are byte-identical", nil)
		} else {
			r.Inc("two_encryptions_differ")
		}
		// gokrb5 must also decrypt its own output through the EType interface
		et0, _ := crypto.GetEtype(et)
		var back []byte
		var berr error
		if p, v, w := vh.Guard(func() { back, berr = et0.DecryptMessage(key, ed1.Cipher, usage) }); p {
			viol("panic-decrypt|"+w+"|"+vh.PanicClass(v), "EType.DecryptMessage panicked: "+v, nil)
		} else if berr != nil || !ptEqual(et, back, pt) {
			viol("self-roundtrip", fmt.Sprintf("EType.DecryptMessage of own ciphertext: %x err %v", back, berr), nil)
		}
	}

	// direction 2: reference encrypts, gokrb5 decrypts (both API levels)
	conf := rnd.Bytes(kcrypto.ConfLen(et))
	ct, err := kcrypto.EncryptConf(et, key, usage, pt, conf)
	if err != nil {
		r.Inconclusive("reference encryption failed: " + err.Error())
		return
	}
	var got []byte
	var gerr error
	if p, v, w := vh.Guard(func() { got, gerr = crypto.DecryptMessage(append([]byte{}, ct...), ekey, usage) }); p {
		viol("panic-decrypt|"+w+"|"+vh.PanicClass(v), "DecryptMessage panicked: "+v, map[string]any{"ciphertext": fmt.Sprintf("%x", ct)})
	} else if gerr != nil {
		viol("gokrb5-cannot-decrypt", fmt.Sprintf("gokrb5 cannot decrypt reference ciphertext: %v", gerr), map[string]any{"ciphertext": fmt.Sprintf("%x", ct)})
	} else if !ptEqual(et, got, pt) {
		viol("gokrb5-decrypts-other", fmt.Sprintf("gokrb5 decrypts reference ciphertext to %x", got), map[string]any{"ciphertext": fmt.Sprintf("%x", ct)})
	} else {
		r.Inc("ref_encrypt_gokrb5_decrypt_ok")
	}
	// the same ciphertext buffer again: after a successful decryption, and after an attempt under another usage that must be
	// rejected (a receiver that tries several keys or usages presents one buffer repeatedly)
	buf := append([]byte{}, ct...)
	var g1, g2 []byte
	var ge1, ge2, geo error
	if p, v, w := vh.Guard(func() {
		g1, ge1 = crypto.DecryptMessage(buf, ekey, usage)
		_, geo = crypto.DecryptMessage(buf, ekey, usage+1)
		g2, ge2 = crypto.DecryptMessage(buf, ekey, usage)
	}); p {
		viol("panic-decrypt|"+w+"|"+vh.PanicClass(v), "DecryptMessage panicked on a repeated buffer: "+v, map[string]any{"ciphertext": fmt.Sprintf("%x", ct)})
	} else if ge1 == nil && (ge2 != nil || !ptEqual(et, g2, pt)) {
		viol("gokrb5-cannot-decrypt-again", fmt.Sprintf("the same ciphertext buffer decrypts the first time and not the second: %x err %v (other usage in between: %v; buffer modified: %v)", g2, ge2, geo, !bytes.Equal(buf, ct)),
			map[string]any{"ciphertext": fmt.Sprintf("%x", ct), "buffer_afterwards": fmt.Sprintf("%x", buf)})
	} else if ge1 == nil && ptEqual(et, g1, pt) {
		r.Inc("same_buffer_decrypts_again")
	}
	ed := types.EncryptedData{EType: et, KVNO: 3, Cipher: append([]byte{}, ct...)}
	if p, v, w := vh.Guard(func() { got, gerr = crypto.DecryptEncPart(ed, ekey, usage) }); p {
		viol("panic-decrypt|"+w+"|"+vh.PanicClass(v), "DecryptEncPart panicked: "+v, nil)
	} else if gerr != nil || !ptEqual(et, got, pt) {
		viol("gokrb5-decryptencpart", fmt.Sprintf("DecryptEncPart: %x err %v", got, gerr), nil)
	}
}

// ptEqual: equality up to the zero padding RFC 3961 prescribes for des3.
func ptEqual(et int32, got, want []byte) bool {
	if et != kcrypto.DES3 {
		return bytes.Equal(got, want)
	}
	if len(got) < len(want) || !bytes.Equal(got[:len(want)], want) {
		return false
	}
	if len(got)-len(want) >= 8 {
		return false
	}
	for _, b := range got[len(want):] {
		if b != 0 {
			return false
		}
	}
	return true
}

// usageSweep: the usage number enters the derivation of Ke and Ki through n-fold, whose end-around carries depend on the bit
// pattern of the number; the usages the library itself uses say nothing about the others.
func usageSweep(r *vh.Run) {
	max, nrand := uint32(4096), 0
	if vh.Thorough() {
		max, nrand = 65536, 100000
	}
	const chunk = 256
	type unit struct {
		et   int32
		from uint32
		rnd  bool
	}
	var units []unit
	for _, et := range kcrypto.Etypes {
		for f := uint32(0); f < max; f += chunk {
			units = append(units, unit{et, f, false})
		}
		for i := 0; i < nrand; i += chunk {
			units = append(units, unit{et, uint32(i), true})
		}
	}
	vh.Workers(len(units), func(i int) {
		u := units[i]
		if !r.Mine(fmt.Sprintf("usage-sweep/et=%d/from=%d/rnd=%v", u.et, u.from, u.rnd)) {
			return
		}
		key := pcommon.RefKey(vh.NewRand("c05sweepkey", u.et), u.et)
		ekey := types.EncryptionKey{KeyType: u.et, KeyValue: key}
		g := vh.NewRand("c05sweep", u.et, u.from, u.rnd)
		for j := uint32(0); j < chunk; j++ {
			usage := u.from + j
			if u.rnd {
				usage = uint32(g.U64())
			}
			if usage == 0 {
				// not a key usage (RFC 4120 7.5.1 numbers them from 1); the library uses 0 internally for "do not derive" and
				// returns an error when asked to encrypt with it
				continue
			}
			ck := fmt.Sprintf("usage-sweep/et=%d/usage=%d", u.et, usage)
			r.Eval(ck, true)
			pt := g.Bytes(21)
			d := map[string]any{"case": ck, "etype": u.et, "usage": usage, "key": fmt.Sprintf("%x", key), "plaintext": fmt.Sprintf("%x", pt)}
			ct, err := kcrypto.EncryptConf(u.et, key, usage, pt, g.Bytes(kcrypto.ConfLen(u.et)))
			if err != nil {
				r.Inconclusive("reference encryption failed: " + err.Error())
				return
			}
			var got []byte
			var gerr, eerr error
			var ed types.EncryptedData
			if p, v, w := vh.Guard(func() {
				got, gerr = crypto.DecryptMessage(append([]byte{}, ct...), ekey, usage)
				ed, eerr = crypto.GetEncryptedData(append([]byte{}, pt...), ekey, usage, 1)
			}); p {
				r.Violation(fmt.Sprintf("C05|panic|%s|%s|etype=%d|usage-sweep", w, vh.PanicClass(v), u.et), "panicked: "+v, d)
				continue
			}
			if gerr != nil || !ptEqual(u.et, got, pt) {
				d["ciphertext"] = fmt.Sprintf("%x", ct)
				r.Violation(fmt.Sprintf("C05|gokrb5-cannot-decrypt|etype=%d|usage-sweep", u.et), fmt.Sprintf("gokrb5 does not decrypt the reference ciphertext for key usage %d: %x err %v", usage, got, gerr), d)
				continue
			}
			if eerr != nil {
				r.Violation(fmt.Sprintf("C05|encrypt-error|etype=%d|usage-sweep", u.et), fmt.Sprintf("GetEncryptedData failed for key usage %d: %v", usage, eerr), d)
				continue
			}
			if back, _, derr := kcrypto.Decrypt(u.et, key, usage, ed.Cipher); derr != nil || !ptEqual(u.et, back, pt) {
				d["ciphertext"] = fmt.Sprintf("%x", ed.Cipher)
				r.Violation(fmt.Sprintf("C05|ref-cannot-decrypt|etype=%d|usage-sweep", u.et), fmt.Sprintf("the reference does not decrypt gokrb5's ciphertext for key usage %d: %v", usage, derr), d)
				continue
			}
			r.Inc("usage_sweep_interoperates")
		}
	})
}
