package c05

import (
	"bufio"
	"bytes"
	"encoding/json"
	"fmt"
	"os"
	"os/exec"
	"path/filepath"
	"strings"

	"verif/vh"
)

// randFault: fault injection at the random source. The injection itself runs in a test binary of its own, built with the
// repository's Go toolchain (the default `go`): with go <= 1.23 crypto/rand.Read returns the error of a failing rand.Reader,
// since go 1.24 it cannot fail, and this harness needs go 1.26. See /verif/harness123/randfault.
func randFault(r *vh.Run) {
	if !r.Mine("randfault") {
		return
	}
	goBin, err := exec.LookPath("go")
	if err != nil {
		r.Note("fault injection at the random source not run: no default `go` on PATH")
		r.Inc("randfault_not_applicable")
		return
	}
	env := append(os.Environ(), "GOFLAGS=-mod=mod", "GOPROXY=off", "GOSUMDB=off", "GOTOOLCHAIN=local")
	vc := exec.Command(goBin, "env", "GOVERSION")
	vc.Env = env
	vb, _ := vc.Output()
	ver := strings.TrimSpace(string(vb))
	var maj, min int
	fmt.Sscanf(ver, "go%d.%d", &maj, &min)
	if maj != 1 || min >= 24 || min == 0 {
		r.Note("fault injection at the random source not run: the default go is " + ver + "; since go 1.24 crypto/rand.Read cannot return an error, so there is no fault to inject")
		r.Inc("randfault_not_applicable")
		return
	}
	dir := os.Getenv("VERIF_DIR")
	if dir == "" {
		dir = "/verif"
	}
	mod := filepath.Join(dir, "harness123")
	args := []string{"test", "-count=1", "-v", "-run", "^TestRandFault$"}
	if alt := os.Getenv("VERIF_REPO"); alt != "" {
		// development aid: judge a scratch copy of the repository
		gm, err1 := os.ReadFile(filepath.Join(mod, "go.mod"))
		gs, err2 := os.ReadFile(filepath.Join(mod, "go.sum"))
		wd := os.Getenv("VERIF_WORK")
		if err1 != nil || err2 != nil || wd == "" {
			r.Inconclusive("randfault: cannot prepare the alternative module file")
			return
		}
		mf := filepath.Join(wd, "randfault-alt.mod")
		os.WriteFile(mf, []byte(strings.Replace(string(gm), "=> /repo/v8", "=> "+alt+"/v8", 1)), 0o644)
		os.WriteFile(strings.TrimSuffix(mf, ".mod")+".sum", gs, 0o644)
		args = append(args, "-modfile="+mf)
	}
	args = append(args, "./randfault/")
	cmd := exec.Command(goBin, args...)
	cmd.Dir = mod
	cmd.Env = env
	out, err := cmd.CombinedOutput()
	n := 0
	sc := bufio.NewScanner(bytes.NewReader(out))
	sc.Buffer(make([]byte, 1<<20), 1<<20)
	for sc.Scan() {
		l := sc.Text()
		if !strings.HasPrefix(l, "RANDFAULT ") {
			continue
		}
		var d struct {
			Etype     int32  `json:"etype"`
			Usage     uint32 `json:"usage"`
			Len       int    `json:"plaintext_len"`
			Good      int    `json:"random_bytes_before_failure"`
			API       string `json:"api"`
			Err1      string `json:"err1"`
			Err2      string `json:"err2"`
			Identical bool   `json:"both_succeeded_with_identical_ciphertexts"`
			CT        string `json:"ciphertext"`
			Panic     string `json:"panic"`
			Go        string `json:"go"`
		}
		if json.Unmarshal([]byte(strings.TrimPrefix(l, "RANDFAULT ")), &d) != nil {
			continue
		}
		n++
		ck := fmt.Sprintf("randfault/et=%d/usage=%d/len=%d/good=%d/%s", d.Etype, d.Usage, d.Len, d.Good, d.API)
		r.Eval(ck, true)
		det := map[string]any{"case": ck, "etype": d.Etype, "usage": d.Usage, "plaintext_len": d.Len, "random_bytes_delivered_before_the_injected_failure": d.Good, "api": d.API,
			"first_call": d.Err1, "second_call": d.Err2, "toolchain": d.Go}
		switch {
		case d.Panic != "":
			r.Violation(fmt.Sprintf("C05|randfault|panic|etype=%d", d.Etype), "encryption panicked when the random source failed: "+d.Panic, det)
		case d.Identical:
			det["ciphertext"] = d.CT
			r.Violation(fmt.Sprintf("C05|randfault|same-ciphertext|etype=%d", d.Etype), "with a failing random source two encryptions of one plaintext succeeded and are byte-identical: no fresh confounder, and no error", det)
		case d.Err1 != "<nil>":
			r.Inc("randfault_error_returned")
		default:
			r.Inc("randfault_enough_randomness_delivered")
		}
	}
	if n == 0 {
		tail := string(out)
		if len(tail) > 600 {
			tail = tail[len(tail)-600:]
		}
		r.Inconclusive(fmt.Sprintf("randfault: the go %s test binary produced no cases (%v): %s", ver, err, tail))
		return
	}
	r.Note(fmt.Sprintf("fault injection at the random source: %d cases run in a test binary built with %s (harness123/randfault)", n, ver))
}
