package c07

import (
	"bytes"
	"fmt"
	"sync"
	"testing"

	"github.com/jcmturner/gokrb5/v8/crypto"

	"verif/props/pcommon"
	"verif/ref/kcrypto"
	"verif/vh"
)

var cksumTypes = []int32{12, 15, 16, 19, 20, -138}

func TestProp(t *testing.T) {
	r := vh.Start("C07")
	defer r.Finish()
	if err := kcrypto.SelfTest(); err != nil {
		r.Inconclusive("reference self-test failed: " + err.Error())
		return
	}
	r.SetRule("enumerated: checksum type {12,15,16,19,20,-138} x data length 0..200 x usage set x K seeded keys (the last key of every type has the same bytes for all types of equal key length): GetChecksumHash compared with the reference and VerifyChecksum(correct)=true; " +
		"for EVERY case the values other plausible derivations give for the same key, data and usage (reference checksum of the usage with reversed bytes, usage+-1, two seeded usages; HMAC under Ki, Ke or the underived key; for -138 the message type untranslated, big-endian, without the signature key) must verify false unless equal to the RFC value; " +
		"for every 8th case negatives: every truncation, one-byte extensions, every single-bit flip of the checksum, other data, other key, other usage, empty and nil checksum must verify false; " +
		"usage sweep: every key usage number 0..4095 (thorough: 0..65535 and 200 000 seeded 32-bit numbers) per type with a fixed key and 19 bytes of data, value and verification; " +
		"keys of every wrong length 0..40 with nil, empty, all-zero and correct-for-another-length checksums must never verify; " +
		"GetChksumEtype checked against the IANA registry for every id in -200..200. distinct = (type,len,usage,key[,negative]); all non-trivial")
	r.Assume("reference checksums ref/kcrypto (RFC 3961 5.3/6.3, RFC 3962 7, RFC 8009 6, RFC 4757 4) self-tested against RFC vectors on every run")
	nkeys := 2
	if vh.Thorough() {
		nkeys = 4
	}
	// IANA table
	for id := int32(-200); id <= 200; id++ {
		ck := fmt.Sprintf("iana/%d", id)
		if !r.Mine(ck) {
			continue
		}
		r.Eval(ck, true)
		et, err := crypto.GetChksumEtype(id)
		want, supported := kcrypto.EtypeOfCksum[id]
		switch {
		case supported && err != nil:
			r.Violation(fmt.Sprintf("C07|iana|id=%d|rejected", id), fmt.Sprintf("GetChksumEtype(%d) failed: %v", id, err), map[string]any{"case": ck})
		case supported && (et.GetETypeID() != want || et.GetHashID() != id):
			r.Violation(fmt.Sprintf("C07|iana|id=%d|wrong-family", id), fmt.Sprintf("GetChksumEtype(%d) selects etype %d (hash id %d), IANA assigns etype %d", id, et.GetETypeID(), et.GetHashID(), want), map[string]any{"case": ck})
		case !supported && err == nil:
			r.Violation(fmt.Sprintf("C07|iana|id=%d|accepted", id), fmt.Sprintf("GetChksumEtype(%d) accepts an id outside the supported set (etype %d)", id, et.GetETypeID()), map[string]any{"case": ck})
		default:
			r.Inc("iana_ids_checked")
		}
	}
	type unit struct {
		ct int32
		ki int
		n  int
	}
	var units []unit
	for _, ct := range cksumTypes {
		for ki := 0; ki < nkeys; ki++ {
			for n := 0; n <= 200; n++ {
				units = append(units, unit{ct, ki, n})
			}
		}
	}
	vh.Workers(len(units), func(i int) {
		u := units[i]
		et := kcrypto.EtypeOfCksum[u.ct]
		key := pcommon.RefKey(vh.NewRand("c07key", u.ct, u.ki), et)
		if u.ki == nkeys-1 {
			key = pcommon.SharedKey(et, 0) // the same bytes for every type of equal key length
		}
		for ui, usage := range pcommon.UsageSet {
			one(r, u.ct, et, u.ki, key, u.n, usage, (u.n+ui)%8 == 0)
		}
	})
	usageSweep(r)
	wrongSizeKeys(r)
	retained(r)
	r.Exhaustive("checksum type x data length 0..200 x usage set; ids -200..200")
	r.Require("usage_sweep_equal", 20000)
	r.Require("wrong_size_key_never_verifies", 500)
	r.Require("checksum_equal", 5000)
	r.Require("retained_checksums_unchanged", 5000)
	r.Require("verify_exact_true", 5000)
	r.Require("neg_bitflip_false", 5000)
	r.Require("neg_truncation_false", 500)
	r.Require("iana_ids_checked", 401)
	r.Require("neg_near_miss_false", 50000)
	r.Require("neg_rc4_untranslated_msgtype_presented", 300)
}

func one(r *vh.Run, ctype, et int32, ki int, key []byte, n int, usage uint32, negatives bool) {
	ck := fmt.Sprintf("type=%d/len=%d/usage=%d/key=%d", ctype, n, usage, ki)
	if !r.Mine(ck) {
		return
	}
	rnd := vh.NewRand("c07", ck)
	data := rnd.Bytes(n)
	r.Eval(ck, true)
	want, err := kcrypto.Checksum(et, key, usage, data)
	if err != nil {
		r.Inconclusive("reference checksum: " + err.Error())
		return
	}
	e, gerr := crypto.GetChksumEtype(ctype)
	if gerr != nil {
		return // reported by the IANA part
	}
	cls := "usage<128"
	if usage >= 128 {
		cls = "usage>=128"
	}
	detail := func(extra map[string]any) map[string]any {
		d := map[string]any{"case": ck, "type": ctype, "usage": usage, "key": fmt.Sprintf("%x", key), "data": fmt.Sprintf("%x", data), "expected": fmt.Sprintf("%x", want)}
		for k, v := range extra {
			d[k] = v
		}
		return d
	}
	var got []byte
	if p, v, w := vh.Guard(func() { got, err = e.GetChecksumHash(key, append([]byte{}, data...), usage) }); p {
		r.Violation(fmt.Sprintf("C07|panic|%s|%s|type=%d|%s", w, vh.PanicClass(v), ctype, cls), "GetChecksumHash panicked: "+v, detail(nil))
		return
	}
	if err != nil || !bytes.Equal(got, want) {
		r.Violation(fmt.Sprintf("C07|value|type=%d|%s", ctype, cls), fmt.Sprintf("GetChecksumHash = %x (err %v), RFC value %x", got, err, want), detail(nil))
	} else {
		r.Inc("checksum_equal")
	}
	r.SampleKind(fmt.Sprintf("type%d", ctype), 1, detail(map[string]any{"gokrb5": fmt.Sprintf("%x", got)}))
	verify := func(kind string, k, d, c []byte, u uint32, expect bool, counter string) {
		sub := ck + "/" + kind
		r.Eval(sub, true)
		var ok bool
		if p, v, w := vh.Guard(func() { ok = e.VerifyChecksum(k, d, c, u) }); p {
			r.Violation(fmt.Sprintf("C07|panic|%s|%s|type=%d|verify", w, vh.PanicClass(v), ctype), "VerifyChecksum panicked: "+v, detail(map[string]any{"case": sub, "presented": fmt.Sprintf("%x", c)}))
			return
		}
		if ok != expect {
			kk := kind
			if i := bytes.IndexByte([]byte(kind), ':'); i > 0 {
				kk = kind[:i]
			}
			r.Violation(fmt.Sprintf("C07|verify=%v|type=%d|%s|%s", ok, ctype, kk, cls), fmt.Sprintf("VerifyChecksum returned %v, expected %v (%s)", ok, expect, kind),
				detail(map[string]any{"case": sub, "presented": fmt.Sprintf("%x", c), "presented_usage": u, "presented_key": fmt.Sprintf("%x", k), "presented_data": fmt.Sprintf("%x", d)}))
			return
		}
		r.Inc(counter)
	}
	verify("exact", key, data, want, usage, true, "verify_exact_true")
	// every case: the values other plausible derivations give for the same key, data and usage
	for i, m := range nearMisses(rnd, pcommon.UsageSet, et, key, usage, data) {
		if bytes.Equal(m.c, want) {
			r.Inc("near_miss_equals_rfc_value_skipped")
			continue
		}
		verify(nearMissLabel(i, m), key, data, m.c, usage, false, "neg_near_miss_false")
		if et == kcrypto.RC4 && kcrypto.RC4Usage(usage) != usage && m.kind == "alt-rc4-msgtype-untranslated" {
			r.Inc("neg_rc4_untranslated_msgtype_presented")
		}
	}
	if !negatives {
		return
	}
	for l := 0; l < len(want); l++ {
		verify(fmt.Sprintf("truncate:%d", l), key, data, want[:l], usage, false, "neg_truncation_false")
	}
	verify("nil", key, data, nil, usage, false, "neg_empty_false")
	exts := []byte{0x00, 0xff, want[0], byte(rnd.U64())}
	if vh.Thorough() {
		exts = make([]byte, 256)
		for i := range exts {
			exts[i] = byte(i)
		}
	}
	for _, b := range exts {
		verify(fmt.Sprintf("extend:%02x", b), key, data, append(append([]byte{}, want...), b), usage, false, "neg_extension_false")
	}
	verify("prepend", key, data, append([]byte{0}, want...), usage, false, "neg_extension_false")
	for i := 0; i < len(want)*8; i++ {
		c := append([]byte{}, want...)
		c[i/8] ^= 0x80 >> uint(i%8)
		verify(fmt.Sprintf("bitflip:%d", i), key, data, c, usage, false, "neg_bitflip_false")
	}
	if n > 0 {
		d2 := append([]byte{}, data...)
		d2[rnd.Intn(n)] ^= 1 << uint(rnd.Intn(8))
		verify("otherdata:flip", key, d2, want, usage, false, "neg_otherdata_false")
		verify("otherdata:short", key, data[:n-1], want, usage, false, "neg_otherdata_false")
	}
	verify("otherdata:long", key, append(append([]byte{}, data...), 0), want, usage, false, "neg_otherdata_false")
	k2 := append([]byte{}, key...)
	k2[rnd.Intn(len(k2))] ^= 0x10
	verify("otherkey:bit", k2, data, want, usage, false, "neg_otherkey_false")
	verify("otherkey:random", pcommon.RefKey(rnd, et), data, want, usage, false, "neg_otherkey_false")
	for _, u := range pcommon.UsageSet {
		if u == usage || (et == kcrypto.RC4 && kcrypto.RC4Usage(u) == kcrypto.RC4Usage(usage)) {
			continue
		}
		verify(fmt.Sprintf("otherusage:%d", u), key, data, want, u, false, "neg_otherusage_false")
	}
}

// usageSweep: the key usage number enters the key derivation through n-fold, whose end-around carries depend on the bit
// pattern of the number: a handful of usages can be wrong while every usage the library itself uses is right.
func usageSweep(r *vh.Run) {
	max := uint32(4096)
	nrand := 0
	if vh.Thorough() {
		max, nrand = 65536, 200000
	}
	const chunk = 512
	type unit struct {
		ct   int32
		from uint32
		rnd  int // >0: this many seeded 32-bit usages instead of a range
	}
	var units []unit
	for _, ct := range cksumTypes {
		for f := uint32(0); f < max; f += chunk {
			units = append(units, unit{ct, f, 0})
		}
		for i := 0; i < nrand; i += chunk {
			units = append(units, unit{ct, uint32(i), chunk})
		}
	}
	vh.Workers(len(units), func(i int) {
		u := units[i]
		uk := fmt.Sprintf("usage-sweep/type=%d/from=%d/rnd=%d", u.ct, u.from, u.rnd)
		if !r.Mine(uk) {
			return
		}
		et := kcrypto.EtypeOfCksum[u.ct]
		key := pcommon.RefKey(vh.NewRand("c07sweepkey", u.ct), et)
		data := vh.NewRand("c07sweepdata", u.ct).Bytes(19)
		e, gerr := crypto.GetChksumEtype(u.ct)
		if gerr != nil {
			return
		}
		g := vh.NewRand("c07sweepusages", u.ct, u.from)
		for j := uint32(0); j < chunk; j++ {
			usage := u.from + j
			if u.rnd > 0 {
				usage = uint32(g.U64())
			}
			ck := fmt.Sprintf("usage-sweep/type=%d/usage=%d", u.ct, usage)
			r.Eval(ck, true)
			want, err := kcrypto.Checksum(et, key, usage, data)
			if err != nil {
				r.Inconclusive("reference checksum: " + err.Error())
				return
			}
			var got []byte
			var ok bool
			d := map[string]any{"case": ck, "type": u.ct, "usage": usage, "key": fmt.Sprintf("%x", key), "data": fmt.Sprintf("%x", data), "expected": fmt.Sprintf("%x", want)}
			if p, v, w := vh.Guard(func() {
				got, err = e.GetChecksumHash(key, append([]byte{}, data...), usage)
				ok = e.VerifyChecksum(key, append([]byte{}, data...), want, usage)
			}); p {
				r.Violation(fmt.Sprintf("C07|panic|%s|%s|type=%d|usage-sweep", w, vh.PanicClass(v), u.ct), "checksum panicked: "+v, d)
				continue
			}
			switch {
			case err != nil || !bytes.Equal(got, want):
				d["gokrb5"] = fmt.Sprintf("%x", got)
				r.Violation(fmt.Sprintf("C07|value|type=%d|usage-sweep", u.ct), fmt.Sprintf("GetChecksumHash = %x (err %v), RFC value %x for key usage %d", got, err, want, usage), d)
			case !ok:
				r.Violation(fmt.Sprintf("C07|verify=false|type=%d|exact|usage-sweep", u.ct), fmt.Sprintf("VerifyChecksum rejects the RFC value for key usage %d", usage), d)
			default:
				r.Inc("usage_sweep_equal")
			}
		}
	})
}

// wrongSizeKeys: with a key that is not a key of the checksum type's family there is no defined checksum, so nothing may
// verify - in particular not the empty checksum, which is what a failed computation leaves behind.
func wrongSizeKeys(r *vh.Run) {
	for _, ct := range cksumTypes {
		et := kcrypto.EtypeOfCksum[ct]
		if et == kcrypto.RC4 {
			continue // HMAC-MD5 takes keys of any length
		}
		e, gerr := crypto.GetChksumEtype(ct)
		if gerr != nil {
			continue
		}
		for kl := 0; kl <= 40; kl++ {
			if kl == kcrypto.KeyLen(et) {
				continue
			}
			ck := fmt.Sprintf("wrong-size-key/type=%d/keylen=%d", ct, kl)
			if !r.Mine(ck) {
				continue
			}
			g := vh.NewRand("c07wrongkey", ct, kl)
			key := g.Bytes(kl)
			data := g.Bytes(23)
			right, _ := kcrypto.Checksum(et, pcommon.RefKey(g, et), 7, data)
			var hashOfKey []byte
			vh.Guard(func() { hashOfKey, _ = e.GetChecksumHash(key, append([]byte{}, data...), 7) })
			cands := map[string][]byte{"nil": nil, "empty": {}, "zeros": make([]byte, len(right)), "right-for-a-valid-key": right, "one-zero": {0}}
			if len(hashOfKey) > 0 {
				cands["what-GetChecksumHash-returned-for-this-key"] = hashOfKey
			}
			for name, c := range cands {
				sub := ck + "/" + name
				r.Eval(sub, true)
				var ok bool
				d := map[string]any{"case": sub, "type": ct, "key": fmt.Sprintf("%x", key), "data": fmt.Sprintf("%x", data), "presented": fmt.Sprintf("%x", c)}
				if p, v, w := vh.Guard(func() { ok = e.VerifyChecksum(key, append([]byte{}, data...), c, 7) }); p {
					r.Violation(fmt.Sprintf("C07|panic|%s|%s|type=%d|wrong-size-key", w, vh.PanicClass(v), ct), "VerifyChecksum panicked: "+v, d)
					continue
				}
				if ok && name != "what-GetChecksumHash-returned-for-this-key" {
					r.Violation(fmt.Sprintf("C07|verify=true|type=%d|wrong-size-key|%s", ct, name), fmt.Sprintf("VerifyChecksum returns true for a %d-byte key (the type takes %d bytes) and the %s checksum", kl, kcrypto.KeyLen(et), name), d)
					continue
				}
				r.Inc("wrong_size_key_never_verifies")
			}
		}
	}
}

// retained: a checksum the library has returned belongs to the caller. Four goroutines per type compute checksums over data of
// many lengths and keep the returned slices (not copies); after every 64 calls, and once more when all goroutines are done,
// every slice kept must still hold the RFC value - whatever calls were made after it, by this goroutine or the others - and
// the data and key handed in must be unmodified.
func retained(r *vh.Run) {
	rounds := 8
	if vh.Thorough() {
		rounds = 64
	}
	for _, ct := range cksumTypes {
		ck := fmt.Sprintf("retained/type=%d", ct)
		if !r.Mine(ck) {
			continue
		}
		r.Eval(ck, true)
		et := kcrypto.EtypeOfCksum[ct]
		e, gerr := crypto.GetChksumEtype(ct)
		if gerr != nil {
			continue
		}
		type kept struct {
			got, want []byte
			usage     uint32
			n         int
		}
		const G = 4
		all := make([][]kept, G)
		var bad [G]string
		var wg sync.WaitGroup
		check := func(g int, ks []kept, when string) bool {
			for i, k := range ks {
				if !bytes.Equal(k.got, k.want) {
					bad[g] = fmt.Sprintf("checksum %d of goroutine %d (usage %d, %d bytes of data) was %x when returned and reads %x %s", i, g, k.usage, k.n, k.want, k.got, when)
					return false
				}
			}
			return true
		}
		for g := 0; g < G; g++ {
			wg.Add(1)
			go func(g int) {
				defer wg.Done()
				rnd := vh.NewRand("c07retained", ct, g)
				key := pcommon.RefKey(rnd, et)
				p, v, w := vh.Guard(func() {
					for i := 0; i < rounds*64; i++ {
						n := []int{0, 1, 16, 19, 64, 200, 1000, 1500, 5000}[rnd.Intn(9)]
						data := rnd.Bytes(n)
						usage := pcommon.UsageSet[rnd.Intn(len(pcommon.UsageSet))]
						want, err := kcrypto.Checksum(et, key, usage, data)
						if err != nil {
							return
						}
						dc, kc := append([]byte{}, data...), append([]byte{}, key...)
						got, err := e.GetChecksumHash(kc, dc, usage)
						if err != nil || !bytes.Equal(got, want) {
							continue // a wrong value is the business of the enumeration above
						}
						if !bytes.Equal(dc, data) || !bytes.Equal(kc, key) {
							bad[g] = "GetChecksumHash modified the data or key it was given"
							return
						}
						all[g] = append(all[g], kept{got, want, usage, n})
						if i%64 == 63 && !check(g, all[g], "after later calls") {
							return
						}
					}
				})
				if p {
					bad[g] = "panic: " + v + " @ " + w
				}
			}(g)
		}
		wg.Wait()
		total := 0
		for g := 0; g < G; g++ {
			if bad[g] == "" {
				check(g, all[g], "after all goroutines have finished")
			}
			total += len(all[g])
		}
		failed := false
		for g := 0; g < G; g++ {
			if bad[g] != "" && !failed {
				failed = true
				r.Violation(fmt.Sprintf("C07|value|type=%d|changes-after-later-calls", ct), "a checksum returned by GetChecksumHash does not keep its value: "+bad[g], map[string]any{"case": ck, "type": ct})
			}
		}
		if !failed {
			r.Count("retained_checksums_unchanged", int64(total))
		}
	}
}
