package c07

import (
	"crypto/hmac"
	"crypto/md5"
	"crypto/sha1"
	"crypto/sha256"
	"crypto/sha512"
	"encoding/binary"
	"fmt"
	"hash"
	"math/bits"

	"verif/ref/kcrypto"
	"verif/vh"
)

// nearMiss is a value that a plausible but non-RFC derivation of the checksum produces for the same key, data and usage:
// verification must return true for exactly one value, so every one of them that differs from the RFC value must verify
// false. Truncations, extensions and bit flips of the RFC value never reach a verifier that accepts a SECOND well-formed
// value (another message-type mapping, another byte order of the usage number, another derived key).
type nearMiss struct {
	kind string // stable name, part of the fingerprint
	c    []byte
}

func macOf(h func() hash.Hash, key, data []byte, n int) []byte {
	m := hmac.New(h, key)
	m.Write(data)
	return m.Sum(nil)[:n]
}

// rc4WithMsgType is RFC 4757 section 4 with the 4 message-type bytes given explicitly (no usage translation).
func rc4WithMsgType(key, t, data []byte) []byte {
	ksign := macOf(md5.New, key, []byte("signaturekey\x00"), 16)
	d := md5.Sum(append(append([]byte{}, t...), data...))
	return macOf(md5.New, ksign, d[:], 16)
}

func le32(v uint32) []byte { b := make([]byte, 4); binary.LittleEndian.PutUint32(b, v); return b }
func be32(v uint32) []byte { b := make([]byte, 4); binary.BigEndian.PutUint32(b, v); return b }

// nearMisses builds the family for one case. The other usages are the two neighbours of the usage number, the number with
// its bytes reversed and two seeded members of the usage set.
func nearMisses(rnd *vh.Rand, usages []uint32, et int32, key []byte, usage uint32, data []byte) []nearMiss {
	var out []nearMiss
	add := func(kind string, c []byte) {
		if len(c) > 0 {
			out = append(out, nearMiss{kind, c})
		}
	}
	others := []struct {
		kind string
		u    uint32
	}{
		{"alt-usage-bytes-reversed", bits.ReverseBytes32(usage)},
		{"alt-usage-plus-one", usage + 1},
		{"alt-usage-minus-one", usage - 1},
		{"alt-usage-seeded", usages[rnd.Intn(len(usages))]},
		{"alt-usage-seeded", usages[rnd.Intn(len(usages))]},
	}
	for _, o := range others {
		if o.u == usage {
			continue
		}
		if c, err := kcrypto.Checksum(et, key, o.u, data); err == nil {
			add(o.kind, c)
		}
	}
	n := kcrypto.CksumLen(et)
	switch et {
	case kcrypto.RC4:
		t := kcrypto.RC4Usage(usage)
		add("alt-rc4-msgtype-untranslated", rc4WithMsgType(key, le32(usage), data))
		add("alt-rc4-msgtype-untranslated-bigendian", rc4WithMsgType(key, be32(usage), data))
		add("alt-rc4-msgtype-bigendian", rc4WithMsgType(key, be32(t), data))
		d := md5.Sum(append(le32(t), data...))
		add("alt-rc4-no-signaturekey", macOf(md5.New, key, d[:], 16))
		add("alt-rc4-plain-hmac", macOf(md5.New, key, data, 16))
	case kcrypto.DES3, kcrypto.AES128, kcrypto.AES256:
		if ki, err := kcrypto.DeriveKi(et, key, usage); err == nil {
			add("alt-key-Ki", macOf(sha1.New, ki, data, n))
		}
		if ke, err := kcrypto.DeriveKe(et, key, usage); err == nil {
			add("alt-key-Ke", macOf(sha1.New, ke, data, n))
		}
		add("alt-key-underived", macOf(sha1.New, key, data, n))
	case kcrypto.AES128SHA2, kcrypto.AES256SHA2:
		h := sha256.New
		if et == kcrypto.AES256SHA2 {
			h = sha512.New384
		}
		if ki, err := kcrypto.DeriveKi(et, key, usage); err == nil {
			add("alt-key-Ki", macOf(h, ki, data, n))
		}
		if ke, err := kcrypto.DeriveKe(et, key, usage); err == nil {
			add("alt-key-Ke", macOf(h, ke, data, n))
		}
		add("alt-key-underived", macOf(h, key, data, n))
	}
	return out
}

func nearMissLabel(i int, m nearMiss) string { return fmt.Sprintf("%s:%d", m.kind, i) }
