package c08

import (
	"fmt"
	"time"

	"github.com/jcmturner/gokrb5/v8/client"
	"github.com/jcmturner/gokrb5/v8/config"

	"verif/ref/kcrypto"
	"verif/ref/kmsg"
	"verif/simkdc"
	"verif/vh"
)

// loginTasks: the client's own use of the hints. A simulated KDC answers the first AS request with PREAUTH_REQUIRED and both
// ETYPE-INFO2 (the client's etype, a non-default salt and iteration count) and an ETYPE-INFO that names another etype, in either
// order. The pre-authenticated request must carry a PA-ENC-TIMESTAMP that decrypts under the key RFC 4120 5.2.7.5 selects
// (the KDC records why it does not), and the login must succeed. A third variant lets the client pre-authenticate before it is
// asked (client.AssumePreAuthentication): its first guess (default salt) is refused with PREAUTH_FAILED and the same hints.
func loginTasks(r *vh.Run, add func(func())) {
	const realm = "TEST.GOKRB5"
	for _, et := range kcrypto.Etypes {
		for _, policy := range []string{"info2,info-other-etype", "info-other-etype,info2", "info2", "info+pwsalt"} {
			for _, custom := range []string{"default", "custom", "custom+client-assumes-pre-authentication"} {
				et, policy, assume := et, policy, custom == "custom+client-assumes-pre-authentication"
				custom := custom != "default"
				if custom && policy == "info+pwsalt" && kcrypto.DefaultIter(et) != 0 {
					// ETYPE-INFO cannot convey an iteration count: only the salt is non-default then
				}
				ck := fmt.Sprintf("login/et=%d/%s/custom=%v/assume=%v", et, policy, custom, assume)
				if !r.Mine(ck) {
					continue
				}
				add(func() {
					rnd := vh.NewRand("c08login", ck)
					k := simkdc.New(time.Now, rnd.Bytes)
					k.AddRealm(realm)
					var salt *string
					var iter uint32
					if custom {
						s := "custom salt " + ck
						salt = &s
						if kcrypto.DefaultIter(et) != 0 && policy != "info+pwsalt" {
							iter = 77
						}
					}
					pw := "pässwörd-" + fmt.Sprint(et)
					p, err := k.AddPasswordClient(realm, kmsg.N(1, "carol"), pw, salt, iter, et)
					if err != nil {
						r.Inconclusive("simulated KDC: " + err.Error())
						return
					}
					p.PreAuth = policy
					ep, err := simkdc.NewEndpoint("c08-"+ck, k, simkdc.Answers, simkdc.Answers)
					if err != nil {
						r.Inconclusive("endpoint: " + err.Error())
						return
					}
					defer ep.Close()
					etn := kcrypto.EtypeName(et)
					others := "aes128-cts-hmac-sha1-96 aes256-cts-hmac-sha1-96"
					cfg, err := config.NewFromString(fmt.Sprintf("[libdefaults]\n default_realm = %s\n dns_lookup_kdc = false\n dns_lookup_realm = false\n noaddresses = true\n allow_weak_crypto = true\n default_tkt_enctypes = %s\n default_tgs_enctypes = %s %s\n permitted_enctypes = %s %s\n[realms]\n %s = {\n  kdc = %s\n }\n",
						realm, etn, etn, others, etn, others, realm, ep.Addr()))
					if err != nil {
						r.Inconclusive("config: " + err.Error())
						return
					}
					r.Eval(ck, true)
					cl := client.NewWithPassword("carol", realm, pw, cfg, client.DisablePAFXFAST(true), client.AssumePreAuthentication(assume))
					var lerr error
					pnc, pv, pwh := vh.Guard(func() {
						defer cl.Destroy()
						lerr = cl.Login()
					})
					var why []string
					preauthed := 0
					rqs := k.Requests()
					for i, rq := range rqs {
						if rq.PreauthErr != "" && !(assume && i == 0) {
							// (a client that pre-authenticates before it was told the salt may guess wrong once)
							why = append(why, rq.PreauthErr)
						}
						if rq.PreauthTS != nil {
							preauthed++
						}
					}
					d := map[string]any{"case": ck, "etype": et, "hints": policy, "custom_salt_and_iterations": custom, "client_assumes_pre_authentication": assume, "login_err": fmt.Sprint(lerr), "kdc_preauth_findings": why, "requests": len(k.Requests())}
					switch {
					case pnc:
						r.Violation(fmt.Sprintf("C08|login|panic|%s|%s", pwh, vh.PanicClass(pv)), "client panicked: "+pv, d)
					case lerr != nil || len(why) > 0 || preauthed == 0:
						r.Violation(fmt.Sprintf("C08|login|preauth-key|etype=%d|%s", et, policy), "the pre-authentication timestamp is not encrypted under the key the hints select (RFC 4120 5.2.7.5) or the login failed", d)
					default:
						r.Inc("login_preauth_key_as_selected_by_hints")
					}
				})
			}
		}
	}
}
