package c08

import (
	"bytes"
	"encoding/binary"
	"encoding/hex"
	"fmt"
	"strings"
	"testing"

	"github.com/jcmturner/gokrb5/v8/crypto"
	"github.com/jcmturner/gokrb5/v8/crypto/rfc3961"
	"github.com/jcmturner/gokrb5/v8/crypto/rfc8009"
	"github.com/jcmturner/gokrb5/v8/kadmin"
	"github.com/jcmturner/gokrb5/v8/messages"
	"github.com/jcmturner/gokrb5/v8/types"

	"verif/props/pcommon"
	"verif/ref/der"
	"verif/ref/kcrypto"
	"verif/vh"
)

func TestProp(t *testing.T) {
	r := vh.Start("C08")
	defer r.Finish()
	if err := kcrypto.SelfTest(); err != nil {
		r.Inconclusive("reference self-test failed: " + err.Error())
		return
	}
	r.SetRule("differential against ref/kcrypto: string-to-key (etype x password classes empty/ASCII/Latin-1/BMP/combining/supplementary/long x salts x iteration counts; thorough: plus 30 seeded passwords and 10 seeded salts over all Unicode planes), malformed parameters, " +
		"n-fold (every input length 1..64 x outputs 64/128/168/192/256 bits x 3 contents), DK/DR (constants of every length 1..16 for 16/17/18, n-folded to the block size whenever their length differs from it; usage labels for 19/20), " +
		"des3 random-to-key incl. crafted weak/semi-weak groups, PA-data precedence (every permutation of every subset of INFO2/INFO/PW-SALT, hints naming other etypes; client logins against a simulated KDC that sends both hints in either order with non-default salt and iteration count), generated keys per etype incl. the kpasswd request subkey. " +
		"distinct = case key; non-trivial = all (each compares a computed value)")
	r.Assume("reference ref/kcrypto self-tested against RFC 3961 A.1/A.3/A.4, RFC 3962 B, RFC 8009 A vectors")
	r.Note("not exercised: PBKDF2 iteration parameter 0 (= 2^32 iterations, not computable); des3 with empty password and empty salt (n-fold of nothing undefined)")
	r.Note("observe-only (not judged): des3 string-to-key with non-empty params; empty s2kparams string at the EType API; PA-data hints whose first etype differs from the requested etype")

	var tasks []func()
	add := func(f func()) { tasks = append(tasks, f) }
	s2kTasks(r, add)
	nfoldTasks(r, add)
	dkTasks(r, add)
	r2kTasks(r, add)
	padataTasks(r, add)
	defaultSaltTasks(r, add)
	loginTasks(r, add)
	genkeyTasks(r, add)
	vh.Workers(len(tasks), func(i int) { tasks[i]() })
	r.Exhaustive("n-fold input lengths 1..64 x 5 output sizes; PA-data ordered subsets")
	r.Require("s2k_equal", 300)
	r.Require("nfold_equal", 900)
	r.Require("dk_equal", 300)
	r.Require("r2k_equal", 100)
	r.Require("padata_key_equal", 60)
	r.Require("default_salt_equal", 60)
	r.Require("login_preauth_key_as_selected_by_hints", 40)
	r.Require("generated_key_usable", 600)
	r.Require("malformed_params_rejected", 10)
}

var passwords = []struct{ class, pw string }{
	{"empty", ""},
	{"ascii", "password"},
	{"ascii-long", strings.Repeat("Abc123!? ", 23)},
	{"latin1", "pässwörd-ÿ-ß"},
	{"bmp", "пароль-密碼-パスワード"},
	{"combining", "éäô-Å"},
	{"supplementary", "\U0001D11E-clef-\U0001F511"},
	{"supplementary-only", "\U0001F600"},
	{"one-char", "x"},
	{"bmp-edge", "￿퟿"},
}

var salts = []struct{ class, s string }{
	{"default", kcrypto.DefaultSalt("TEST.GOKRB5", []string{"testuser1"})},
	{"default-2comp", kcrypto.DefaultSalt("EXAMPLE.COM", []string{"host", "server.example.com"})},
	{"long", strings.Repeat("SALT.REALM", 30) + "principal"},
	{"non-ascii", "RÉALM.ÉXAMPLEjürgen"},
	{"empty", ""},
	{"binary", string([]byte{0x10, 0xdf, 0x9d, 0xd7, 0x83, 0xe5, 0xbc, 0x8a}) + "ATHENA.MIT.EDUraeburn"},
}

func paramsHex(it uint32) string {
	b := make([]byte, 4)
	binary.BigEndian.PutUint32(b, it)
	return hex.EncodeToString(b)
}

func s2kTasks(r *vh.Run, add func(func())) {
	nseeded := 6
	if vh.Thorough() {
		nseeded = 60
	}
	rnd := vh.NewRand("c08iters")
	iters := []uint32{0, 1, 2, 3, 4095, 4096, 4097, 5000}
	for i := 0; i < nseeded; i++ {
		iters = append(iters, uint32(1+rnd.Intn(5000)))
	}
	passwords, salts := passwords, salts
	if vh.Thorough() {
		// seeded strings over ASCII, Latin-1, the BMP and the supplementary planes, lengths 1..40 and a few long ones
		gen := func(g *vh.Rand, n int) string {
			rs := make([]rune, n)
			for i := range rs {
				switch g.Intn(6) {
				case 0, 1:
					rs[i] = rune(0x20 + g.Intn(0x5f))
				case 2:
					rs[i] = rune(0xa0 + g.Intn(0x60))
				case 3:
					rs[i] = rune(0x100 + g.Intn(0xd700))
				case 4:
					rs[i] = rune(0xe000 + g.Intn(0x1ffe))
				default:
					rs[i] = rune(0x10000 + g.Intn(0xfffff))
				}
			}
			return string(rs)
		}
		g := vh.NewRand("c08strings")
		for i := 0; i < 30; i++ {
			n := 1 + g.Intn(40)
			if i%10 == 9 {
				n = 300 + g.Intn(1500)
			}
			passwords = append(passwords, struct{ class, pw string }{fmt.Sprintf("seeded-%d", i), gen(g, n)})
		}
		for i := 0; i < 10; i++ {
			salts = append(salts, struct{ class, s string }{fmt.Sprintf("seeded-%d", i), gen(g, 1+g.Intn(60))})
		}
	}
	for _, et := range kcrypto.Etypes {
		et := et
		e, _ := crypto.GetEtype(et)
		for pi, pw := range passwords {
			for si, sl := range salts {
				pw, sl, pi, si := pw, sl, pi, si
				if et == kcrypto.DES3 && pw.pw == "" && sl.s == "" {
					continue
				}
				its := iters
				if kcrypto.DefaultIter(et) == 0 {
					its = []uint32{0}
				} else if !vh.Thorough() {
					// quick: the full iteration list for a rotating subset, default + 2 otherwise (PBKDF2 dominates the cost)
					if (pi+si)%4 != 0 {
						its = []uint32{0, iters[1+(pi+si)%7], iters[8+(pi*7+si)%nseeded]}
					}
				}
				for _, it := range its {
					it := it
					ck := fmt.Sprintf("s2k/et=%d/pw=%s/salt=%s/iter=%d", et, pw.class, sl.class, it)
					if !r.Mine(ck) {
						continue
					}
					add(func() {
						r.Eval(ck, true)
						want, err := kcrypto.StringToKey(et, pw.pw, sl.s, it)
						if err != nil {
							r.Inconclusive("reference s2k: " + err.Error())
							return
						}
						params := e.GetDefaultStringToKeyParams()
						if it != 0 {
							params = paramsHex(it)
						}
						var got []byte
						if p, v, w := vh.Guard(func() { got, err = e.StringToKey(pw.pw, sl.s, params) }); p {
							r.Violation(fmt.Sprintf("C08|s2k|panic|%s|etype=%d|pw=%s", w, et, pw.class), "StringToKey panicked: "+v, map[string]any{"case": ck})
							return
						}
						d := map[string]any{"case": ck, "etype": et, "password": pw.pw, "salt_hex": fmt.Sprintf("%x", sl.s), "params": params, "expected": fmt.Sprintf("%x", want), "got": fmt.Sprintf("%x", got), "err": fmt.Sprint(err)}
						if err != nil || !bytes.Equal(got, want) {
							r.Violation(fmt.Sprintf("C08|s2k|etype=%d|pw=%s", et, pw.class), fmt.Sprintf("StringToKey = %x (err %v), RFC key %x", got, err, want), d)
							return
						}
						r.Inc("s2k_equal")
						r.Inc(fmt.Sprintf("s2k_equal_et%d", et))
						r.SampleKind(fmt.Sprintf("s2k-et%d", et), 1, d)
					})
				}
			}
		}
		// malformed parameters must be an error, not a key
		if kcrypto.DefaultIter(et) != 0 {
			for _, bad := range []string{"00", "000000", "0000000000", "zzzzzzzz", "0000100g", " 0001000", "00001000 ", "0x001000"} {
				bad := bad
				ck := fmt.Sprintf("s2k-malformed/et=%d/params=%q", et, bad)
				if !r.Mine(ck) {
					continue
				}
				add(func() {
					r.Eval(ck, true)
					var got []byte
					var err error
					if p, v, w := vh.Guard(func() { got, err = e.StringToKey("password", "SALT", bad) }); p {
						r.Violation(fmt.Sprintf("C08|s2k-malformed|panic|%s|etype=%d", w, et), "StringToKey panicked on malformed params: "+v, map[string]any{"case": ck})
					} else if err == nil {
						r.Violation(fmt.Sprintf("C08|s2k-malformed|accepted|etype=%d", et), fmt.Sprintf("StringToKey derived a key %x from malformed parameters %q", got, bad), map[string]any{"case": ck})
					} else {
						r.Inc("malformed_params_rejected")
					}
				})
			}
		}
		// observe-only cases
		add(func() {
			if _, err := e.StringToKey("password", "SALT", ""); err != nil {
				r.Inc(fmt.Sprintf("observe_empty_params_error_et%d", et))
			} else {
				r.Inc(fmt.Sprintf("observe_empty_params_ok_et%d", et))
			}
			if et == kcrypto.DES3 {
				if _, err := e.StringToKey("password", "SALT", "00001000"); err != nil {
					r.Inc("observe_des3_nonempty_params_error")
				} else {
					r.Inc("observe_des3_nonempty_params_ignored")
				}
			}
		})
	}
}

func nfoldTasks(r *vh.Run, add func(func())) {
	for n := 1; n <= 64; n++ {
		for _, out := range []int{64, 128, 168, 192, 256} {
			for c := 0; c < 3; c++ {
				n, out, c := n, out, c
				ck := fmt.Sprintf("nfold/in=%d/out=%d/%d", n, out, c)
				if !r.Mine(ck) {
					continue
				}
				add(func() {
					r.Eval(ck, true)
					in := vh.NewRand("c08nfold", ck).Bytes(n)
					want := kcrypto.Nfold(in, out)
					var got []byte
					if p, v, w := vh.Guard(func() { got = rfc3961.Nfold(append([]byte{}, in...), out) }); p {
						r.Violation(fmt.Sprintf("C08|nfold|panic|%s", w), "Nfold panicked: "+v, map[string]any{"case": ck, "in": fmt.Sprintf("%x", in), "out_bits": out})
						return
					}
					if !bytes.Equal(got, want) {
						r.Violation(fmt.Sprintf("C08|nfold|out=%d", out), fmt.Sprintf("Nfold = %x, RFC 3961 value %x", got, want), map[string]any{"case": ck, "in": fmt.Sprintf("%x", in), "out_bits": out})
						return
					}
					r.Inc("nfold_equal")
					if n == 13 && c == 0 {
						r.SampleKind("nfold", 1, map[string]any{"in": fmt.Sprintf("%x", in), "out_bits": out, "value": fmt.Sprintf("%x", got)})
					}
				})
			}
		}
	}
}

func dkTasks(r *vh.Run, add func(func())) {
	nk := 2
	if vh.Thorough() {
		nk = 6
	}
	for _, et := range []int32{16, 17, 18} {
		et := et
		e, _ := crypto.GetEtype(et)
		maxc := 16
		for ki := 0; ki < nk; ki++ {
			key := pcommon.RefKey(vh.NewRand("c08dk", et, ki), et)
			for cl := 1; cl <= maxc; cl++ {
				for c := 0; c < 3; c++ {
					cl, c, ki := cl, c, ki
					ck := fmt.Sprintf("dk/et=%d/key=%d/constlen=%d/%d", et, ki, cl, c)
					if !r.Mine(ck) {
						continue
					}
					add(func() {
						constant := vh.NewRand("c08dkc", ck).Bytes(cl)
						if et == 16 && cl > 8 {
							// RFC 3961 5.1 spells out the n-fold step for constants shorter than the block; for a longer one the only
							// way to "encrypt the constant" with a one-block E is the same n-fold down to the block size, which is
							// what MIT and Heimdal do (n-fold whenever the length differs from the block). The statement's
							// enumeration asks for every length 1..16 for every etype, so these are judged with that reading.
							r.Inc("dk_constant_longer_than_block_judged")
						}
						r.Eval(ck, true)
						wantR, _ := kcrypto.DR(et, key, constant)
						wantK, _ := kcrypto.DK(et, key, constant)
						var gotR, gotK []byte
						var e1, e2 error
						if p, v, w := vh.Guard(func() {
							gotR, e1 = e.DeriveRandom(key, append([]byte{}, constant...))
							gotK, e2 = e.DeriveKey(key, append([]byte{}, constant...))
						}); p {
							r.Violation(fmt.Sprintf("C08|dk|panic|%s|etype=%d", w, et), "DeriveKey/DeriveRandom panicked: "+v, map[string]any{"case": ck})
							return
						}
						d := map[string]any{"case": ck, "etype": et, "key": fmt.Sprintf("%x", key), "constant": fmt.Sprintf("%x", constant), "DR": fmt.Sprintf("%x", gotR), "DK": fmt.Sprintf("%x", gotK), "refDR": fmt.Sprintf("%x", wantR), "refDK": fmt.Sprintf("%x", wantK)}
						if e1 != nil || e2 != nil || !bytes.Equal(gotR, wantR) || !bytes.Equal(gotK, wantK) {
							r.Violation(fmt.Sprintf("C08|dk|etype=%d", et), "DeriveRandom/DeriveKey differ from RFC 3961 DR/DK", d)
							return
						}
						r.Inc("dk_equal")
						if cl == 5 && c == 0 && ki == 0 {
							r.SampleKind("dk", 3, d)
						}
					})
				}
			}
		}
	}
	// RFC 8009 derivations
	for _, et := range []int32{19, 20} {
		et := et
		e, _ := crypto.GetEtype(et)
		for ki := 0; ki < nk; ki++ {
			key := pcommon.RefKey(vh.NewRand("c08dk", et, ki), et)
			for _, usage := range pcommon.UsageSet {
				usage, ki := usage, ki
				ck := fmt.Sprintf("kdf/et=%d/key=%d/usage=%d", et, ki, usage)
				if !r.Mine(ck) {
					continue
				}
				add(func() {
					r.Eval(ck, true)
					for _, o := range []byte{0x99, 0xAA, 0x55} {
						label := make([]byte, 5)
						binary.BigEndian.PutUint32(label, usage)
						label[4] = o
						var want []byte
						switch o {
						case 0x99:
							want, _ = kcrypto.DeriveKc(et, key, usage)
						case 0xAA:
							want, _ = kcrypto.DeriveKe(et, key, usage)
						case 0x55:
							want, _ = kcrypto.DeriveKi(et, key, usage)
						}
						var got []byte
						var err error
						if p, v, w := vh.Guard(func() { got, err = e.DeriveKey(key, label) }); p {
							r.Violation(fmt.Sprintf("C08|kdf|panic|%s|etype=%d", w, et), "DeriveKey panicked: "+v, map[string]any{"case": ck})
							return
						}
						if err != nil || !bytes.Equal(got, want) {
							r.Violation(fmt.Sprintf("C08|kdf|etype=%d|octet=%02x", et, o), fmt.Sprintf("DeriveKey = %x (err %v), RFC 8009 value %x", got, err, want),
								map[string]any{"case": ck, "key": fmt.Sprintf("%x", key), "label": fmt.Sprintf("%x", label)})
							return
						}
					}
					// the exported KDF itself with label and context
					ctx := vh.NewRand("c08ctx", ck).Bytes(int(usage % 9))
					for _, kl := range []int{128, 192, 256} {
						if et == 19 && kl > 256 {
							continue
						}
						want := kcrypto.KDFHMACSHA2(et, key, []byte("prf"), ctx, kl)
						got := rfc8009.KDF_HMAC_SHA2(key, []byte("prf"), ctx, kl, e)
						if !bytes.Equal(got, want) {
							r.Violation(fmt.Sprintf("C08|kdf-hmac-sha2|etype=%d", et), fmt.Sprintf("KDF_HMAC_SHA2 = %x, RFC 8009 value %x", got, want), map[string]any{"case": ck, "context": fmt.Sprintf("%x", ctx), "bits": kl})
							return
						}
					}
					r.Inc("dk_equal")
				})
			}
		}
	}
}

func r2kTasks(r *vh.Run, add func(func())) {
	e, _ := crypto.GetEtype(16)
	n := 200
	if vh.Thorough() {
		n = 5000
	}
	// crafted groups expanding to each weak / semi-weak key
	var crafted [][]byte
	for _, w := range kcrypto.WeakDESKeys() {
		g := make([]byte, 7)
		for i := 0; i < 7; i++ {
			g[i] = w[i]&0xFE | (w[7]>>uint(i+1))&1
		}
		crafted = append(crafted, g)
	}
	for i := 0; i < n+len(crafted)*3; i++ {
		i := i
		ck := fmt.Sprintf("r2k/des3/%d", i)
		if !r.Mine(ck) {
			continue
		}
		add(func() {
			r.Eval(ck, true)
			rnd := vh.NewRand("c08r2k", ck)
			in := rnd.Bytes(21)
			kind := "random"
			if i >= n {
				j := i - n
				copy(in[(j%3)*7:], crafted[j/3])
				kind = "crafted-weak"
			}
			want := kcrypto.Des3RandomToKey(in)
			var got []byte
			if p, v, w := vh.Guard(func() { got = e.RandomToKey(append([]byte{}, in...)) }); p {
				r.Violation("C08|r2k|panic|"+w, "RandomToKey panicked: "+v, map[string]any{"case": ck})
				return
			}
			if !bytes.Equal(got, want) {
				r.Violation("C08|r2k|des3|"+kind, fmt.Sprintf("RandomToKey = %x, RFC 3961 value %x", got, want), map[string]any{"case": ck, "in": fmt.Sprintf("%x", in)})
				return
			}
			r.Inc("r2k_equal")
			if kind == "crafted-weak" {
				r.Inc("r2k_weak_key_groups")
				r.SampleKind("r2k-weak", 1, map[string]any{"in": fmt.Sprintf("%x", in), "key": fmt.Sprintf("%x", got)})
			}
		})
	}
	// identity random-to-key of the others
	for _, et := range []int32{17, 18, 19, 20} {
		et := et
		ck := fmt.Sprintf("r2k/et=%d", et)
		if !r.Mine(ck) {
			continue
		}
		add(func() {
			r.Eval(ck, true)
			ee, _ := crypto.GetEtype(et)
			in := vh.NewRand(ck).Bytes(kcrypto.KeyLen(et))
			if got := ee.RandomToKey(in); !bytes.Equal(got, in) {
				r.Violation(fmt.Sprintf("C08|r2k|etype=%d", et), "RandomToKey is not the identity", map[string]any{"case": ck})
			} else {
				r.Inc("r2k_equal")
			}
		})
	}
}

// ---- PA-data precedence ---------------------------------------------------------------

type hint struct {
	kind string // INFO2, INFO, PWSALT
	salt *string
	iter uint32
}

func etypeInfo2(entries ...[]byte) []byte { return der.Seq(entries...) }

func info2Entry(et int32, salt *string, params []byte) []byte {
	var s, p []byte
	if salt != nil {
		s = der.Ctx(1, der.GenString(*salt))
	}
	if params != nil {
		p = der.Ctx(2, der.Octets(params))
	}
	return der.Seq(der.Ctx(0, der.Int(int64(et))), s, p)
}

func infoEntry(et int32, salt *string) []byte {
	var s []byte
	if salt != nil {
		s = der.Ctx(1, der.Octets([]byte(*salt)))
	}
	return der.Seq(der.Ctx(0, der.Int(int64(et))), s)
}

func permutations(xs []string) [][]string {
	if len(xs) <= 1 {
		return [][]string{append([]string{}, xs...)}
	}
	var out [][]string
	for i := range xs {
		rest := append(append([]string{}, xs[:i]...), xs[i+1:]...)
		for _, p := range permutations(rest) {
			out = append(out, append([]string{xs[i]}, p...))
		}
	}
	return out
}

func padataTasks(r *vh.Run, add func(func())) {
	kinds := []string{"INFO2", "INFO", "PWSALT"}
	var seqs [][]string
	for mask := 0; mask < 8; mask++ {
		var sub []string
		for i, k := range kinds {
			if mask&(1<<uint(i)) != 0 {
				sub = append(sub, k)
			}
		}
		seqs = append(seqs, permutations(sub)...)
	}
	saltA, saltB, saltC := "SALT-A-from-etype-info2", "SALT-B-from-etype-info", "SALT-C-from-pw-salt"
	cname := types.PrincipalName{NameType: 1, NameString: []string{"alice", "admin"}}
	pw := "pässword-\U0001D11E"
	// realm names are case sensitive and go into the default salt as they are written
	realms := []string{"TEST.GOKRB5", "test.gokrb5", "Mixed.Case.Realm"}
	for _, et := range kcrypto.Etypes {
		et := et
		for si, seq := range seqs {
			realm := realms[(si+int(et))%len(realms)]
			for _, variant := range []string{"salts", "info2-nosalt", "info-nosalt", "multi-entry", "first-entry-other-etype", "overridden-info-names-other-etype"} {
				seq, variant := seq, variant
				ck := fmt.Sprintf("padata/et=%d/%s/%s", et, strings.Join(seq, ">"), variant)
				if len(seq) == 0 && variant != "salts" {
					continue
				}
				if variant == "info-nosalt" && !strings.Contains(strings.Replace(ck, "INFO2", "", -1), "INFO") {
					continue
				}
				if variant == "overridden-info-names-other-etype" && !(strings.Contains(ck, "INFO2") && strings.Contains(strings.Replace(ck, "INFO2", "", -1), "INFO")) {
					continue // needs both hints: the ETYPE-INFO that ETYPE-INFO2 overrides names another etype only
				}
				if !r.Mine(ck) {
					continue
				}
				add(func() {
					iterA := uint32(77)
					var pas types.PADataSequence
					has := map[string]bool{}
					other := int32(17)
					if et == 17 {
						other = 18
					}
					for _, k := range seq {
						has[k] = true
						switch k {
						case "INFO2":
							var params []byte
							if kcrypto.DefaultIter(et) != 0 {
								params = make([]byte, 4)
								binary.BigEndian.PutUint32(params, iterA)
							}
							sa := &saltA
							if variant == "info2-nosalt" {
								sa = nil
							}
							entries := [][]byte{info2Entry(et, sa, params)}
							if variant == "multi-entry" {
								so := "SALT-of-second-entry"
								entries = append(entries, info2Entry(other, &so, nil))
							}
							if variant == "first-entry-other-etype" {
								so := "SALT-of-other-etype"
								entries = append([][]byte{info2Entry(other, &so, nil)}, entries...)
							}
							pas = append(pas, types.PAData{PADataType: 19, PADataValue: etypeInfo2(entries...)})
						case "INFO":
							entries := [][]byte{infoEntry(et, &saltB)}
							if variant == "info-nosalt" {
								// salt is OPTIONAL in an ETYPE-INFO-ENTRY: without it the default salt applies, not a lower-precedence hint's
								entries = [][]byte{infoEntry(et, nil)}
							}
							if variant == "overridden-info-names-other-etype" {
								entries = [][]byte{infoEntry(other, &saltB)}
							}
							if variant == "multi-entry" {
								so := "SALT-of-second-entry"
								entries = append(entries, infoEntry(other, &so))
							}
							if variant == "first-entry-other-etype" {
								so := "SALT-of-other-etype"
								entries = append([][]byte{infoEntry(other, &so)}, entries...)
							}
							pas = append(pas, types.PAData{PADataType: 11, PADataValue: der.Seq(entries...)})
						case "PWSALT":
							pas = append(pas, types.PAData{PADataType: 3, PADataValue: []byte(saltC)})
						}
					}
					// RFC 4120 5.2.7.5 precedence, independent of order
					salt := kcrypto.DefaultSalt(realm, cname.NameString)
					var iter uint32
					switch {
					case has["INFO2"]:
						if variant != "info2-nosalt" {
							salt = saltA
						}
						if kcrypto.DefaultIter(et) != 0 {
							iter = iterA
						}
					case has["INFO"]:
						if variant != "info-nosalt" {
							salt = saltB
						}
					case has["PWSALT"]:
						salt = saltC
					}
					want, err := kcrypto.StringToKey(et, pw, salt, iter)
					if err != nil {
						r.Inconclusive("reference s2k: " + err.Error())
						return
					}
					var key types.EncryptionKey
					if p, v, w := vh.Guard(func() { key, _, err = crypto.GetKeyFromPassword(pw, cname, realm, et, pas) }); p {
						r.Violation(fmt.Sprintf("C08|padata|panic|%s|etype=%d", w, et), "GetKeyFromPassword panicked: "+v, map[string]any{"case": ck})
						return
					}
					if variant == "first-entry-other-etype" && (has["INFO2"] || has["INFO"]) {
						// which entry of a multi-etype hint applies is outside the stated precedence rule: observed only
						if err == nil && bytes.Equal(key.KeyValue, want) {
							r.Inc("observe_hint_other_first_etype_matched_entry_used")
						} else {
							r.Inc("observe_hint_other_first_etype_first_entry_used")
						}
						return
					}
					r.Eval(ck, true)
					d := map[string]any{"case": ck, "etype": et, "order": seq, "variant": variant, "expected_salt": salt, "expected_iter": iter, "expected_key": fmt.Sprintf("%x", want), "got_key": fmt.Sprintf("%x", key.KeyValue), "err": fmt.Sprint(err)}
					if err != nil || !bytes.Equal(key.KeyValue, want) || key.KeyType != et {
						// name which hint was actually used, if any
						used := "?"
						for nm, s := range map[string]string{"INFO2": saltA, "INFO": saltB, "PWSALT": saltC, "default": kcrypto.DefaultSalt(realm, cname.NameString)} {
							for _, it := range []uint32{0, iterA} {
								if k, _ := kcrypto.StringToKey(et, pw, s, it); bytes.Equal(k, key.KeyValue) {
									used = fmt.Sprintf("%s salt, iter %d", nm, it)
								}
							}
						}
						d["key_actually_matches"] = used
						ord := "single"
						if len(seq) > 1 {
							ord = "multi"
						}
						r.Violation(fmt.Sprintf("C08|padata|etype=%d|%s|%s", et, ord, variant), "GetKeyFromPassword does not follow the RFC 4120 5.2.7.5 precedence (ETYPE-INFO2 > ETYPE-INFO > PW-SALT > default); used: "+used, d)
						return
					}
					r.Inc("padata_key_equal")
					if len(seq) == 3 {
						r.SampleKind("padata", 2, d)
					}
				})
			}
		}
	}
}

// defaultSaltTasks: without a hint the salt is the realm followed by the name components, octet for octet as they are written
// (RFC 4120 4: "the concatenation of the principal's realm and name components, in order, with no separators"): realm and
// components in any letter case, non-ASCII, empty, any number of components; value of PrincipalName.GetSalt and the key
// GetKeyFromPassword derives with no PA-data.
func defaultSaltTasks(r *vh.Run, add func(func())) {
	realms := []string{"TEST.GOKRB5", "test.gokrb5", "Mixed.Case.Realm", "RÉALM.ÉXAMPLE", "réalm.example", "", "ATHENA.MIT.EDU", "x"}
	names := [][]string{{"testuser1"}, {"TestUser1"}, {"host", "Server.Example.COM"}, {"jürgen"}, {"a", "b", "c"}, {""}, {}, {"ALLCAPS", "lower"}}
	pw := "default-salt-\u00e9"
	for ri, realm := range realms {
		for ni, name := range names {
			realm, name := realm, name
			ck := fmt.Sprintf("default-salt/realm=%d/name=%d", ri, ni)
			if !r.Mine(ck) {
				continue
			}
			add(func() {
				r.Eval(ck, true)
				want := kcrypto.DefaultSalt(realm, name)
				pn := types.PrincipalName{NameType: 1, NameString: name}
				var got string
				if p, v, w := vh.Guard(func() { got = pn.GetSalt(realm) }); p {
					r.Violation("C08|default-salt|panic|"+w, "PrincipalName.GetSalt panicked: "+v, map[string]any{"case": ck})
					return
				}
				d := map[string]any{"case": ck, "realm": realm, "name": name, "expected_salt": want, "got_salt": got}
				if got != want {
					r.Violation("C08|default-salt|value", fmt.Sprintf("PrincipalName.GetSalt(%q) = %q, the default salt is %q", realm, got, want), d)
					return
				}
				for _, et := range []int32{18, 17, 20, 16} {
					wantK, err := kcrypto.StringToKey(et, pw, want, 0)
					if err != nil {
						continue
					}
					var key types.EncryptionKey
					if p, v, w := vh.Guard(func() { key, _, err = crypto.GetKeyFromPassword(pw, pn, realm, et, nil) }); p {
						r.Violation("C08|default-salt|panic|"+w, "GetKeyFromPassword panicked: "+v, d)
						return
					}
					if err != nil || !bytes.Equal(key.KeyValue, wantK) {
						d["etype"], d["expected_key"], d["got_key"], d["err"] = et, fmt.Sprintf("%x", wantK), fmt.Sprintf("%x", key.KeyValue), fmt.Sprint(err)
						r.Violation(fmt.Sprintf("C08|default-salt|key|etype=%d", et), "GetKeyFromPassword without PA-data does not derive the key of the default salt", d)
						return
					}
				}
				r.Inc("default_salt_equal")
			})
		}
	}
}

func genkeyTasks(r *vh.Run, add func(func())) {
	n := 200
	for _, et := range kcrypto.Etypes {
		et := et
		e, _ := crypto.GetEtype(et)
		for i := 0; i < n; i++ {
			i := i
			ck := fmt.Sprintf("genkey/et=%d/%d", et, i)
			if !r.Mine(ck) {
				continue
			}
			add(func() {
				r.Eval(ck, true)
				var keys []types.EncryptionKey
				k1, err := types.GenerateEncryptionKey(e)
				if err != nil {
					r.Violation(fmt.Sprintf("C08|genkey|error|etype=%d", et), "GenerateEncryptionKey: "+err.Error(), map[string]any{"case": ck})
					return
				}
				keys = append(keys, k1)
				var a types.Authenticator
				if err := a.GenerateSeqNumberAndSubKey(e.GetETypeID(), e.GetKeyByteSize()); err != nil {
					r.Violation(fmt.Sprintf("C08|subkey|error|etype=%d", et), "GenerateSeqNumberAndSubKey: "+err.Error(), map[string]any{"case": ck})
					return
				}
				keys = append(keys, a.SubKey)
				// the generators inside the library that choose the size themselves: the kpasswd request's subkey and the
				// session key of a ticket the library mints
				sk, _ := types.GenerateEncryptionKey(e)
				if _, k3, err := kadmin.ChangePasswdMsg(types.PrincipalName{NameType: 1, NameString: []string{"alice"}}, "TEST.GOKRB5", "new-pässword", messages.Ticket{TktVNO: 5, Realm: "TEST.GOKRB5",
					SName: types.PrincipalName{NameType: 2, NameString: []string{"kadmin", "changepw"}}, EncPart: types.EncryptedData{EType: et, KVNO: 1, Cipher: []byte{1, 2, 3}}}, sk); err != nil {
					r.Violation(fmt.Sprintf("C08|subkey|error|etype=%d|kpasswd", et), "kadmin.ChangePasswdMsg: "+err.Error(), map[string]any{"case": ck})
					return
				} else {
					keys = append(keys, k3)
				}
				for j, k := range keys {
					src := []string{"GenerateEncryptionKey", "GenerateSeqNumberAndSubKey(et,GetKeyByteSize)", "kadmin.ChangePasswdMsg (subkey of the request)"}[j]
					d := map[string]any{"case": ck, "etype": et, "source": src, "key_len": len(k.KeyValue), "required_len": kcrypto.KeyLen(et)}
					if k.KeyType != et || len(k.KeyValue) != kcrypto.KeyLen(et) {
						r.Violation(fmt.Sprintf("C08|genkey|length|etype=%d|%d", et, j), fmt.Sprintf("%s produced a %d-byte key for etype %d which requires %d", src, len(k.KeyValue), et, kcrypto.KeyLen(et)), d)
						continue
					}
					pt := []byte("generated key must be usable " + ck)
					ed, err := crypto.GetEncryptedData(pt, k, 11, 0)
					if err != nil {
						r.Violation(fmt.Sprintf("C08|genkey|unusable|etype=%d|%d", et, j), fmt.Sprintf("%s key rejected by its own etype: %v", src, err), d)
						continue
					}
					back, err := crypto.DecryptEncPart(ed, k, 11)
					p2, _, rerr := kcrypto.Decrypt(et, k.KeyValue, 11, ed.Cipher)
					if err != nil || rerr != nil || !bytes.HasPrefix(back, pt) || !bytes.HasPrefix(p2, pt) {
						r.Violation(fmt.Sprintf("C08|genkey|roundtrip|etype=%d|%d", et, j), fmt.Sprintf("%s key does not round-trip: %v / ref %v", src, err, rerr), d)
						continue
					}
					r.Inc("generated_key_usable")
				}
				if bytes.Equal(keys[0].KeyValue, keys[1].KeyValue) || bytes.Equal(keys[0].KeyValue, make([]byte, len(keys[0].KeyValue))) {
					r.Violation(fmt.Sprintf("C08|genkey|not-random|etype=%d", et), "generated keys are equal or zero", map[string]any{"case": ck})
				}
			})
		}
	}
}
