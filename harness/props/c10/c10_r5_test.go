package c10

import (
	"bytes"
	"fmt"
	"sort"
	"strings"
	"testing"
	"testing/synctest"
	"time"

	"github.com/jcmturner/gokrb5/v8/client"
	"github.com/jcmturner/gokrb5/v8/config"
	"github.com/jcmturner/gokrb5/v8/credentials"
	"github.com/jcmturner/gokrb5/v8/messages"
	"github.com/jcmturner/gokrb5/v8/types"

	"verif/props/pcommon"
	"verif/ref/ccache"
	"verif/ref/der"
	"verif/ref/kcrypto"
	"verif/ref/kmsg"
	"verif/simkdc"
	"verif/vh"
)

// bothHintPolicies: the KDC's pre-authentication hint carries PA-ETYPE-INFO2 and a PA-ETYPE-INFO that names another etype and
// salt, in either order (RFC 4120 5.2.7.5: when both are sent, ETYPE-INFO2 is the one to use).
var bothHintPolicies = []string{"info2,info-other-etype", "info-other-etype,info2"}

func clientName(c conf) string {
	switch c.kind {
	case "kt":
		return "ktuser"
	case "pwsa":
		return "pwsalted"
	}
	return "pwuser"
}

// checkPreauthEtypeAfterHint: an AS-REQ with PA-ENC-TIMESTAMP that directly follows a KDC_ERR_PREAUTH_REQUIRED / _FAILED reply
// (which carried the hint) must be encrypted under the etype the hint's ETYPE-INFO2 (or, without one, ETYPE-INFO) named: the first
// etype of the request's list for which the KDC has a client key (simkdc's rule for the hint).
func checkPreauthEtypeAfterHint(r *vh.Run, viol func(fp, what string, extra map[string]any), c conf, w *world, reqs []*simkdc.ReqRecord) {
	if c.policy == "none" {
		return
	}
	p := w.k.Realms[home].Principals[clientName(c)]
	if p == nil {
		return
	}
	for i := 1; i < len(reqs); i++ {
		prev, rq := reqs[i-1], reqs[i]
		if prev.Req == nil || rq.Req == nil || prev.Req.MsgType != 10 || rq.Req.MsgType != 10 || (prev.ReplyCode != 25 && prev.ReplyCode != 24) {
			continue
		}
		// only the retry of the SAME exchange answers the hint: gokrb5 re-sends the request it was refused with (same nonce). An
		// AS-REQ that merely comes next in the KDC's log - the pre-emptive first guess of another login (a client that assumes
		// pre-authentication guesses an etype before it has seen any hint), a refresh goroutine - is not judged here.
		if prev.Req.Body.Nonce != rq.Req.Body.Nonce {
			r.Inc("observe_as_req_after_a_hint_belongs_to_another_exchange")
			continue
		}
		hinted := int32(0)
		for _, e := range prev.Req.Body.Etypes {
			if kcrypto.KeyLen(e) == 0 {
				continue
			}
			for _, ki := range p.Keys {
				if ki.Etype == e {
					hinted = e
				}
			}
			if hinted != 0 {
				break
			}
		}
		if hinted == 0 {
			continue
		}
		for _, pa := range rq.Req.PAData {
			if pa.Type != 2 {
				continue
			}
			n, err := der.ParseOne(pa.Value)
			if err != nil {
				continue // judged by checkRequest (PreauthErr)
			}
			ed, err := kmsg.ParseEncData(n)
			if err != nil {
				continue
			}
			if ed.Etype != hinted {
				viol("C10|request-field|AS|pa-enc-timestamp-etype", fmt.Sprintf("PA-ENC-TIMESTAMP sent after the KDC's hint is under etype %d, the hint (ETYPE-INFO2 where present) named %d", ed.Etype, hinted),
					map[string]any{"request_serial": rq.Serial, "request_hex": fmt.Sprintf("%x", rq.Raw)})
			} else {
				r.Inc("preauth_etype_matches_hint")
				if strings.Contains(c.policy, "info-other-etype") {
					r.Inc("preauth_etype_matches_info2_with_conflicting_info")
				}
			}
		}
	}
}

// judgeReturned: a (ticket, key) pair handed out by the client must be in the KDC's issue log as a pair, for that SPN, valid now.
func judgeReturned(r *vh.Run, viol func(fp, what string, extra map[string]any), w *world, op, spn string, tkt messages.Ticket, key types.EncryptionKey, now time.Time) bool {
	for _, is := range w.k.Issues() {
		if bytes.Equal(is.Ticket, refTicketBytes(tkt)) || bytes.Equal(cipherOf(is.Ticket), tkt.EncPart.Cipher) {
			switch {
			case !bytes.Equal(is.SessKey.Value, key.KeyValue) || is.SessKey.Type != key.KeyType:
				viol("C10|returned-key-not-issued-with-ticket|"+op, "the session key returned with the ticket is not the one the KDC issued with it", map[string]any{"spn": spn, "issue": is.Serial})
			case is.SName.String() != spn:
				viol("C10|returned-ticket-for-other-spn|"+op, fmt.Sprintf("ticket returned for %s was issued for %s", spn, is.SName), map[string]any{"issue": is.Serial})
			case now.Before(is.StartTime) || now.After(is.EndTime):
				viol("C10|returned-ticket-outside-validity|"+op, fmt.Sprintf("ticket returned at %v is valid only in [%v, %v]", now, is.StartTime, is.EndTime), map[string]any{"spn": spn, "issue": is.Serial})
			default:
				return true
			}
			return false
		}
	}
	viol("C10|returned-ticket-not-issued|"+op, "returned ticket is not in the KDC issue log", map[string]any{"spn": spn})
	return false
}

func gokrbTicket(is *simkdc.Issue) (messages.Ticket, types.EncryptionKey, error) {
	var t messages.Ticket
	err := t.Unmarshal(is.Ticket)
	return t, types.EncryptionKey{KeyType: is.SessKey.Type, KeyValue: is.SessKey.Value}, err
}

func newClientOf(w *world, c conf, cfg *config.Config) *client.Client {
	switch c.kind {
	case "pw":
		return client.NewWithPassword("pwuser", home, w.pw, cfg, client.DisablePAFXFAST(true))
	case "pwsa":
		return client.NewWithPassword("pwsalted", home, w.pw, cfg, client.DisablePAFXFAST(true), client.AssumePreAuthentication(true))
	}
	return client.NewWithKeytab("ktuser", home, w.kt, cfg, client.DisablePAFXFAST(true))
}

// runU2U: user-to-user TGS requests (RFC 4120 3.3.1, ENC-TKT-IN-SKEY with the peer's TGT as additional ticket) built with the
// exported constructor from the client's TGT and sent through Client.TGSExchange. Judged: the request the KDC received (well-formed,
// configured fields, additional ticket and option present, PA-TGS-REQ authenticator checksum over the req-body as sent). The reply
// is not judged (the simulated KDC does not implement user-to-user issuing).
func runU2U(t *testing.T, r *vh.Run, w *world, ck string, c conf) {
	rnd := vh.NewRand("c10u2u", ck)
	var violations []func()
	viol := func(fp, what string, extra map[string]any) {
		violations = append(violations, func() {
			d := map[string]any{"case": ck, "config": c.String()}
			for k, v := range extra {
				d[k] = v
			}
			r.Violation(fp, what, d)
		})
	}
	cfg, err := config.NewFromString(w.confText(c))
	if err != nil {
		r.Inconclusive("config: " + err.Error())
		return
	}
	cname := clientName(c)
	w.k.Realms[home].Principals[cname].PreAuth = c.policy
	peer := conf{kind: "kt"}
	if c.kind == "kt" {
		peer.kind = "pw"
	}
	w.k.Realms[home].Principals[clientName(peer)].PreAuth = "info2"
	checked := 0
	var at time.Time
	var u2uSerials []int
	var peerTGTs [][]byte
	pnc, pv, pw := false, "", ""
	pcommon.AtVirtual(t, time.Hour+time.Duration(rnd.Intn(3600))*time.Second, func() {
		w.k.ResetLogs()
		at = time.Now()
		w.now.Store(at.UnixNano())
		pnc, pv, pw = vh.Guard(func() {
			cl := newClientOf(w, c, cfg)
			pc := newClientOf(w, peer, cfg)
			defer func() { pcommon.Teardown(cl); pcommon.Teardown(pc) }()
			if err := cl.Login(); err != nil {
				viol("C10|login-failed", "Login failed against a healthy KDC with valid credentials: "+err.Error(), nil)
				return
			}
			if err := pc.Login(); err != nil {
				r.Inc("observe_u2u_peer_login_failed")
				return
			}
			var mine, theirs *simkdc.Issue
			for _, is := range w.k.Issues() {
				if is.Kind == "AS" && is.CName.String() == cname {
					mine = is
				}
				if is.Kind == "AS" && is.CName.String() == clientName(peer) {
					theirs = is
				}
			}
			if mine == nil || theirs == nil {
				r.Inc("observe_u2u_no_tgts")
				return
			}
			tgt, skey, e1 := gokrbTicket(mine)
			vtgt, _, e2 := gokrbTicket(theirs)
			if e1 != nil || e2 != nil {
				r.Inc("observe_u2u_tgt_not_parsed")
				return
			}
			n := 1 + rnd.Intn(2)
			for i := 0; i < n; i++ {
				sname := types.PrincipalName{NameType: 1, NameString: []string{clientName(peer)}}
				before := len(w.k.Requests())
				req, err := messages.NewUser2UserTGSReq(cl.Credentials.CName(), home, cfg, tgt, skey, sname, false, vtgt)
				if err != nil {
					viol("C10|u2u-request-not-built", "NewUser2UserTGSReq failed with a valid TGT and session key: "+err.Error(), nil)
					return
				}
				_, _, xerr := cl.TGSExchange(req, home, tgt, skey, 0)
				if xerr != nil {
					r.Inc("observe_u2u_exchange_error")
				}
				for _, rq := range w.k.Requests()[before:] {
					u2uSerials = append(u2uSerials, rq.Serial)
					peerTGTs = append(peerTGTs, theirs.Ticket)
				}
			}
		})
	})
	if pnc {
		r.Violation(fmt.Sprintf("C10|panic|%s|%s", pw, vh.PanicClass(pv)), "client panicked: "+pv, map[string]any{"case": ck, "config": c.String()})
		return
	}
	isU2U := map[int][]byte{}
	for i, s := range u2uSerials {
		isU2U[s] = peerTGTs[i]
	}
	for _, rq := range w.k.Requests() {
		ptgt, u := isU2U[rq.Serial]
		if !u {
			// the logins (the peer's login is sent under the same configuration; its client name differs)
			if rq.Req != nil && rq.Req.Body.CName != nil && rq.Req.Body.CName.String() == cname {
				checkRequest(r, viol, c, cname, rq, at, at, w)
			}
			continue
		}
		if rq.DecodeErr != "" || rq.Req == nil {
			viol("C10|request-malformed", "user-to-user request is not well-formed DER per RFC 4120: "+rq.DecodeErr, map[string]any{"request_hex": fmt.Sprintf("%x", rq.Raw)})
			continue
		}
		ex := map[string]any{"request_serial": rq.Serial, "request_hex": fmt.Sprintf("%x", rq.Raw)}
		b := rq.Req.Body
		if rq.Req.MsgType != 12 {
			viol("C10|request-field|TGS|u2u-msg-type", fmt.Sprintf("user-to-user request has msg-type %d", rq.Req.MsgType), ex)
			continue
		}
		if !hasBit(b.Options, simkdc.OptEncTktInSkey) {
			viol("C10|request-field|TGS|u2u-option", "user-to-user request without the ENC-TKT-IN-SKEY option", ex)
		}
		if len(b.AddTickets) != 1 || !bytes.Equal(cipherOf(b.AddTickets[0]), cipherOf(ptgt)) {
			viol("C10|request-field|TGS|u2u-additional-ticket", fmt.Sprintf("user-to-user request carries %d additional tickets / not the peer's TGT", len(b.AddTickets)), ex)
		}
		if b.SName == nil || b.SName.String() != clientName(peer) {
			viol("C10|request-field|TGS|u2u-sname", fmt.Sprintf("user-to-user request names %v, asked for %s", b.SName, clientName(peer)), ex)
		}
		// everything else as for any TGS-REQ (etypes, options, till, rtime, addresses, PA-TGS-REQ checksum): same oracle, the
		// user-to-user option masked out
		cp, q := *rq, *rq.Req
		q.Body.Options &^= 1 << (31 - simkdc.OptEncTktInSkey)
		cp.Req = &q
		checkRequest(r, viol, c, cname, &cp, at, at, w)
		if rq.TGSAuth != nil {
			r.Inc("u2u_requests_pa_tgs_req_verified")
			checked++
		}
	}
	r.Eval(ck, checked > 0)
	for _, f := range violations {
		f()
	}
}

// runCCache: credential kind "ccache". A source client obtains a TGT and service tickets (ticket_lifetime 10 min, renewable), logs
// in again some minutes later (so that the TGT outlives the first service tickets); a credential cache with the newest TGT and the
// service tickets is rendered by ref/ccache and given to client.NewFromCCache. The virtual clock then walks over the end times of
// the service tickets and of the TGT (all far before renew-till); whatever GetCachedTicket / GetServiceTicket hand out must be a
// pair from the KDC's issue log for that SPN that is valid at that instant. Failures are observed only (a cache client cannot log in).
func runCCache(t *testing.T, r *vh.Run, w *world, ck string, c conf) {
	rnd := vh.NewRand("c10ccache", ck)
	var violations []func()
	var trail []string
	viol := func(fp, what string, extra map[string]any) {
		tr := append([]string{}, trail...)
		violations = append(violations, func() {
			d := map[string]any{"case": ck, "config": c.String(), "history": tr}
			for k, v := range extra {
				d[k] = v
			}
			r.Violation(fp, what, d)
		})
	}
	cfg, err := config.NewFromString(w.confText(c))
	if err != nil {
		r.Inconclusive("config: " + err.Error())
		return
	}
	cname := clientName(c)
	w.k.Realms[home].Principals[cname].PreAuth = c.policy
	good := 0
	pnc, pv, pw := false, "", ""
	pcommon.AtVirtual(t, time.Hour, func() {
		w.k.ResetLogs()
		setNow := func() time.Time { n := time.Now(); w.now.Store(n.UnixNano()); return n }
		setNow()
		pnc, pv, pw = vh.Guard(func() {
			src := newClientOf(w, c, cfg)
			srcLive := true
			defer func() {
				if srcLive {
					pcommon.Teardown(src)
				}
			}()
			if err := src.Login(); err != nil {
				viol("C10|login-failed", "Login failed against a healthy KDC with valid credentials: "+err.Error(), nil)
				return
			}
			nsvc := 2 + rnd.Intn(3)
			for i := 0; i < nsvc-1; i++ {
				if _, _, err := src.GetServiceTicket(svcName(i).String()); err != nil {
					r.Inc("observe_ccache_source_ticket_failed")
					return
				}
			}
			time.Sleep(time.Duration(90+rnd.Intn(300)) * time.Second)
			setNow()
			if err := src.Login(); err != nil {
				viol("C10|login-failed", "Login failed against a healthy KDC with valid credentials: "+err.Error(), nil)
				return
			}
			if _, _, err := src.GetServiceTicket(svcName(nsvc - 1).String()); err != nil {
				r.Inc("observe_ccache_source_ticket_failed")
				return
			}
			pcommon.Teardown(src)
			srcLive = false
			// the cache: newest TGT, newest ticket per service
			newest := map[string]*simkdc.Issue{}
			for _, is := range w.k.Issues() {
				newest[is.SName.String()] = is
			}
			tgtIs := newest["krbtgt/"+home]
			if tgtIs == nil {
				r.Inc("observe_ccache_no_tgt_issued")
				return
			}
			me := ccache.Principal{NameType: 1, Realm: home, Components: []string{cname}}
			cred := func(is *simkdc.Issue) ccache.Credential {
				k := ccache.Credential{Client: me, Server: ccache.Principal{NameType: is.SName.Type, Realm: home, Components: is.SName.Parts},
					KeyType: uint16(is.SessKey.Type), Key: is.SessKey.Value, AuthTime: int32(is.AuthTime.Unix()), StartTime: int32(is.StartTime.Unix()), EndTime: int32(is.EndTime.Unix()),
					Flags: is.Flags, Ticket: is.Ticket}
				if is.RenewTill != nil {
					k.RenewTill = int32(is.RenewTill.Unix())
				}
				return k
			}
			m := &ccache.Cache{Version: 4, Default: me, Credentials: []ccache.Credential{cred(tgtIs)}}
			var spns []string
			var instants []time.Time
			for i := 0; i < nsvc; i++ {
				is := newest[svcName(i).String()]
				if is == nil {
					continue
				}
				m.Credentials = append(m.Credentials, cred(is))
				spns = append(spns, svcName(i).String())
				instants = append(instants, is.EndTime.Add(-time.Second), is.EndTime.Add(time.Second), is.EndTime.Add(time.Duration(1+rnd.Intn(50))*time.Second))
				if is.RenewTill != nil && is.RenewTill.After(is.EndTime) {
					r.Inc("ccache_renewable_tickets_imported")
				}
			}
			instants = append(instants, tgtIs.EndTime.Add(time.Second), tgtIs.EndTime.Add(time.Duration(1+rnd.Intn(40))*time.Minute))
			file, err := ccache.Write(m)
			if err != nil {
				r.Inconclusive("reference ccache writer: " + err.Error())
				return
			}
			cc := new(credentials.CCache)
			if err := cc.Unmarshal(file); err != nil {
				r.Inc("observe_ccache_not_parsed") // C15's subject
				return
			}
			cl, err := client.NewFromCCache(cc, cfg, client.DisablePAFXFAST(true))
			if err != nil || cl == nil {
				r.Inc("observe_ccache_client_not_built") // C15's subject
				return
			}
			defer func() { pcommon.Teardown(cl) }()
			r.Inc("ccache_clients_built")
			sort.Slice(instants, func(i, j int) bool { return instants[i].Before(instants[j]) })
			// a PRNG-chosen subset of the instants, in order
			for _, inst := range instants {
				if rnd.Intn(4) == 0 {
					continue
				}
				now := time.Now()
				if d := inst.Sub(now); d > 0 {
					time.Sleep(d)
					synctest.Wait()
				}
				now = setNow()
				for _, spn := range spns {
					var end time.Time
					for _, k := range m.Credentials {
						if strings.Join(k.Server.Components, "/") == spn {
							end = time.Unix(int64(k.EndTime), 0)
						}
					}
					past := now.After(end)
					if rnd.Bool() {
						trail = append(trail, fmt.Sprintf("%s GetCachedTicket %s", now.UTC().Format(time.RFC3339), spn))
						tkt, key, ok := cl.GetCachedTicket(spn)
						if ok {
							if judgeReturned(r, viol, w, "ccache-GetCachedTicket", spn, tkt, key, now) {
								good++
								r.Inc("ccache_tickets_returned_matched_issue_log")
								if past {
									r.Inc("ccache_valid_ticket_after_imported_one_ended")
								}
							}
						} else if past {
							r.Inc("ccache_ended_ticket_not_served")
						}
					} else {
						trail = append(trail, fmt.Sprintf("%s GetServiceTicket %s", now.UTC().Format(time.RFC3339), spn))
						tkt, key, err := cl.GetServiceTicket(spn)
						if err != nil {
							r.Inc("observe_ccache_getserviceticket_error")
							if past {
								r.Inc("ccache_ended_ticket_not_served")
							}
						} else if judgeReturned(r, viol, w, "ccache-GetServiceTicket", spn, tkt, key, now) {
							good++
							r.Inc("ccache_tickets_returned_matched_issue_log")
							if past {
								r.Inc("ccache_valid_ticket_after_imported_one_ended")
							}
						}
					}
					synctest.Wait()
				}
			}
		})
	})
	r.Eval(ck, good > 0)
	if pnc {
		r.Violation(fmt.Sprintf("C10|panic|%s|%s", pw, vh.PanicClass(pv)), "client panicked: "+pv, map[string]any{"case": ck, "config": c.String(), "history": trail})
		return
	}
	for _, f := range violations {
		f()
	}
}
