package c10

import (
	"bytes"
	"fmt"
	"os"
	"runtime"
	"sort"
	"strings"
	"sync/atomic"
	"testing"
	"testing/synctest"
	"time"

	"github.com/jcmturner/gokrb5/v8/client"
	"github.com/jcmturner/gokrb5/v8/config"
	"github.com/jcmturner/gokrb5/v8/keytab"
	"github.com/jcmturner/gokrb5/v8/messages"
	"github.com/jcmturner/gokrb5/v8/types"

	"verif/props/pcommon"
	"verif/ref/accept"
	"verif/ref/kcrypto"
	"verif/ref/kmsg"
	"verif/simkdc"
	"verif/vh"
)

const home = "HOME.GOKRB5"

type conf struct {
	kind     string // pw | kt | pwsa (password client whose KDC entry has a non-default salt and that assumes pre-authentication)
	etlist   int    // index into etLists
	policy   string
	fwd      bool
	prox     bool
	canon    bool
	renew    time.Duration // renew_lifetime
	life     time.Duration // ticket_lifetime
	noaddr   bool
	topology string // single | xrealm-mapped | referral-N | referral-loop
	tgsEt    int    // index into etLists: default_tgs_enctypes (default_tkt_enctypes is etlist; the two may differ)
	ktOnly   bool   // kind kt: the keytab holds keys of the default_tkt_enctypes only (as an administrator would export it)
}

func (c conf) String() string {
	return fmt.Sprintf("%s/etlist=%d/preauth=%s/fwd=%v/prox=%v/canon=%v/renew=%v/life=%v/noaddr=%v/%s/tgsetlist=%d/ktonly=%v", c.kind, c.etlist, c.policy, c.fwd, c.prox, c.canon, c.renew, c.life, c.noaddr, c.topology, c.tgsEt, c.ktOnly)
}

var etLists = [][]int32{{18, 17}, {20, 19, 18}, {23, 16, 17}}

func etNames(l []int32) string {
	var n []string
	for _, e := range l {
		n = append(n, kcrypto.EtypeName(e))
	}
	return strings.Join(n, " ")
}

var topologies = []string{"single", "xrealm-mapped", "referral-0", "referral-1", "referral-2", "referral-3", "referral-4", "referral-5", "referral-6", "referral-7", "referral-8", "referral-loop"}

// world is one simulated multi-realm KDC on one endpoint.
type world struct {
	k      *simkdc.KDC
	ep     *simkdc.Endpoint
	now    atomic.Int64
	rnd    *vh.Rand
	kt     *keytab.Keytab
	ktEnts []accept.KeytabEntry
	pw     string
	realms []string
}

func svcName(i int) kmsg.Name { return kmsg.N(2, "HTTP", fmt.Sprintf("svc%d.home.gokrb5", i)) }

func remoteSvc(top string) kmsg.Name { return kmsg.N(2, "HTTP", "svc."+top+".remote") }

// services of realm R1 that the client finds through the [domain_realm] mapping (no referral: the client keeps a session for R1)
const nMapped = 3

func mappedSvc(i int) kmsg.Name {
	if i == 0 {
		return kmsg.N(2, "HTTP", "svc.mapped.r1")
	}
	return kmsg.N(2, "HTTP", fmt.Sprintf("svc%d.mapped.r1", i))
}

// keytabFor returns the keytab of the keytab client: all keys, or only those of the given encryption types.
func (w *world) keytabFor(only []int32) (*keytab.Keytab, error) {
	if only == nil {
		return w.kt, nil
	}
	var ents []accept.KeytabEntry
	for _, e := range w.ktEnts {
		for _, et := range only {
			if e.Etype == et {
				ents = append(ents, e)
			}
		}
	}
	kt := keytab.New()
	if err := kt.Unmarshal(accept.KeytabV2(ents)); err != nil {
		return nil, err
	}
	return kt, nil
}

func newWorld(id int) (*world, error) {
	w := &world{rnd: vh.NewRand("c10world", id), pw: "pässwörd-\U0001F511"}
	w.k = simkdc.New(func() time.Time { return time.Unix(0, w.now.Load()).UTC() }, w.rnd.Bytes)
	hr := w.k.AddRealm(home)
	w.realms = []string{home}
	for i := 0; i < 4; i++ {
		w.k.AddService(home, svcName(i), 18, 17, 23)
	}
	if _, err := w.k.AddPasswordClient(home, kmsg.N(1, "pwuser"), w.pw, nil, 0, kcrypto.Etypes...); err != nil {
		return nil, err
	}
	// the same password behind a non-default salt (a renamed account): a client that pre-authenticates before being asked
	// guesses the default salt, is refused with the hints, and must then use them
	customSalt := "HOME.GOKRB5formername"
	if _, err := w.k.AddPasswordClient(home, kmsg.N(1, "pwsalted"), w.pw, &customSalt, 0, kcrypto.Etypes...); err != nil {
		return nil, err
	}
	p := w.k.AddService(home, kmsg.N(1, "ktuser"), kcrypto.Etypes...)
	var ents []accept.KeytabEntry
	for _, ki := range p.Keys {
		ents = append(ents, accept.KeytabEntry{Realm: home, Name: p.Name, Kvno: ki.Kvno, Etype: ki.Etype, Key: ki.Key, Timestamp: 1})
	}
	w.ktEnts = ents
	w.kt = keytab.New()
	if err := w.kt.Unmarshal(accept.KeytabV2(ents)); err != nil {
		return nil, err
	}
	// realms R1..R9 for chains; the service of topology referral-N lives in R_N (R0 = home)
	for i := 1; i <= 9; i++ {
		rn := fmt.Sprintf("R%d.GOKRB5", i)
		w.k.AddRealm(rn)
		w.realms = append(w.realms, rn)
	}
	chain := func(i int) string { return w.realms[i] }
	for i := 0; i < 9; i++ {
		w.k.AddCrossRealm(chain(i), chain(i+1), 18)
	}
	w.k.AddCrossRealm(chain(1), home, 18) // for the loop
	for n := 0; n <= 8; n++ {
		top := fmt.Sprintf("referral-%d", n)
		s := remoteSvc(top)
		for i := 0; i < n; i++ {
			w.k.Realms[chain(i)].Referrals[s.String()] = chain(i + 1)
		}
		w.k.AddService(chain(n), s, 18)
	}
	// loop: home -> R1 -> home -> ...
	ls := remoteSvc("referral-loop")
	hr.Referrals[ls.String()] = chain(1)
	w.k.Realms[chain(1)].Referrals[ls.String()] = home
	// explicit cross-realm: service in R1, client knows the mapping
	for i := 0; i < nMapped; i++ {
		w.k.AddService(chain(1), mappedSvc(i), 18)
	}
	ep, err := simkdc.NewEndpoint(fmt.Sprintf("kdc-w%d", id), w.k, simkdc.Answers, simkdc.Answers)
	if err != nil {
		return nil, err
	}
	w.ep = ep
	return w, nil
}

func (w *world) confText(c conf) string {
	var sb strings.Builder
	fmt.Fprintf(&sb, "[libdefaults]\n default_realm = %s\n dns_lookup_kdc = false\n dns_lookup_realm = false\n allow_weak_crypto = true\n", home)
	permitted := append([]int32{}, etLists[c.etlist]...)
	for _, e := range etLists[c.tgsEt] {
		if !strings.Contains(" "+etNames(permitted)+" ", " "+kcrypto.EtypeName(e)+" ") {
			permitted = append(permitted, e)
		}
	}
	fmt.Fprintf(&sb, " default_tkt_enctypes = %s\n default_tgs_enctypes = %s\n permitted_enctypes = %s\n", etNames(etLists[c.etlist]), etNames(etLists[c.tgsEt]), etNames(permitted))
	fmt.Fprintf(&sb, " forwardable = %v\n proxiable = %v\n canonicalize = %v\n noaddresses = %v\n", c.fwd, c.prox, c.canon, c.noaddr)
	fmt.Fprintf(&sb, " ticket_lifetime = %ds\n", int(c.life.Seconds()))
	if c.renew > 0 {
		fmt.Fprintf(&sb, " renew_lifetime = %ds\n", int(c.renew.Seconds()))
	}
	sb.WriteString("[realms]\n")
	for _, r := range w.realms {
		fmt.Fprintf(&sb, " %s = {\n  kdc = %s\n }\n", r, w.ep.Addr())
	}
	sb.WriteString("[domain_realm]\n .home.gokrb5 = " + home + "\n .mapped.r1 = R1.GOKRB5\n")
	return sb.String()
}

type opRec struct {
	Op      string `json:"op"`
	At      string `json:"virtual_time"`
	Err     string `json:"err,omitempty"`
	NReq    int    `json:"kdc_requests"`
	Issue   int    `json:"issue_serial,omitempty"`
	Advance string `json:"advance,omitempty"`
}

func TestProp(t *testing.T) {
	r := vh.Start("C10")
	defer r.Finish()
	if err := kcrypto.SelfTest(); err != nil {
		r.Inconclusive("reference self-test failed: " + err.Error())
		return
	}
	r.SetRule("histories of client operations {Login, AffirmLogin, GetServiceTicket(4 repeated SPNs, topology SPN), GetCachedTicket, advance(delta), Destroy+re-create} against a simulated multi-realm KDC under a virtual clock; delta drawn from the interesting instants of the tickets issued so far " +
		"(just before / at / after endtime, the 5/6-lifetime auto-renew point, renew-till) and seeded values; seeded configurations over credential kind x etype list x pre-auth policy x forwardable x proxiable x canonicalize x renew_lifetime x ticket_lifetime x noaddresses x topology " +
		"(single realm, mapped cross-realm with 3 services, referral chains 0..8, referral loop) x default_tgs_enctypes (same list as default_tkt_enctypes / another one) x keytab contents (all keys / keys of default_tkt_enctypes only); " +
		"in the mapped cross-realm topology without renewable tickets the clock also passes the lifetime of the cross-realm TGT. Further families: configurations whose KDC hint carries ETYPE-INFO2 and a conflicting ETYPE-INFO in either order (the PA-ENC-TIMESTAMP sent after a hint must be under the hinted etype, RFC 4120 5.2.7.5); " +
		"user-to-user TGS requests built with messages.NewUser2UserTGSReq from the client's TGT and a peer's TGT and sent through TGSExchange (request judged, reply not); clients built by client.NewFromCCache from a cache " +
		"(ref/ccache) of renewable tickets issued by the KDC, the clock walking over the end times of the service tickets and the TGT (whatever is handed out must be an issued pair valid at that instant). " +
		"Oracles: the KDC's strictly decoded request log vs the configuration; returned (ticket,key) pairs vs the KDC issue log and the virtual clock; round-trip bounds. distinct = (configuration, history index); non-trivial = history with >= 1 ticket returned")
	r.Assume("simulated KDC conformant to RFC 4120 for the driven exchanges; KDC clock follows the virtual clock with a lag < 5 s")
	r.Note("nonce reuse between the two AS-REQs of one pre-authenticated login is observed, not judged (not in the statement)")

	nconf, nhist, nops := 48, 4, 30
	nconfX := 12
	if vh.Thorough() {
		nconf, nhist, nops = 1500, 8, 60
		nconfX = 60
	}
	var confs []conf
	crnd := vh.NewRand("c10confs")
	for i := 0; i < nconf; i++ {
		c := conf{kind: vh.Pick(crnd, "pw", "kt", "pwsa"), etlist: crnd.Intn(len(etLists)), policy: vh.Pick(crnd, "none", "info2", "info+pwsalt"),
			fwd: crnd.Bool(), prox: crnd.Bool(), canon: crnd.Bool(), noaddr: crnd.Bool(),
			renew: vh.Pick(crnd, time.Duration(0), 7*24*time.Hour), life: vh.Pick(crnd, 10*time.Minute, 24*time.Hour), topology: topologies[i%len(topologies)]}
		confs = append(confs, c)
	}
	// a second family stays in the one multi-realm regime in which a virtual clock can pass the lifetime of a cross-realm TGT
	// (mapped realm, tickets not renewable; see sessionLimit): the other dimensions are drawn as above
	for i := 0; i < nconfX; i++ {
		c := conf{kind: vh.Pick(crnd, "pw", "kt", "pwsa"), etlist: crnd.Intn(len(etLists)), policy: vh.Pick(crnd, "none", "info2", "info+pwsalt"),
			fwd: crnd.Bool(), prox: crnd.Bool(), canon: crnd.Bool(), noaddr: crnd.Bool(),
			renew: 0, life: vh.Pick(crnd, 10*time.Minute, 24*time.Hour), topology: "xrealm-mapped"}
		confs = append(confs, c)
	}
	// a third family: the KDC's pre-authentication hint carries both ETYPE-INFO2 and a conflicting ETYPE-INFO (either order)
	nconfH := 10
	if vh.Thorough() {
		nconfH = 100
	}
	for i := 0; i < nconfH; i++ {
		c := conf{kind: []string{"pw", "kt", "pwsa"}[i%3], etlist: crnd.Intn(len(etLists)), policy: bothHintPolicies[(i/3)%2],
			fwd: crnd.Bool(), prox: crnd.Bool(), canon: crnd.Bool(), noaddr: crnd.Bool(),
			renew: vh.Pick(crnd, time.Duration(0), 7*24*time.Hour), life: vh.Pick(crnd, 10*time.Minute, 24*time.Hour), topology: "single"}
		confs = append(confs, c)
	}
	// default_tgs_enctypes: the same list as default_tkt_enctypes in half of the configurations, another one in the others;
	// keytab clients: the keytab holds all keys or only those of default_tkt_enctypes
	for i := range confs {
		xr := vh.NewRand("c10confs-etypes", i)
		confs[i].tgsEt = confs[i].etlist
		if xr.Bool() {
			confs[i].tgsEt = (confs[i].etlist + 1 + xr.Intn(len(etLists)-1)) % len(etLists)
		}
		confs[i].ktOnly = confs[i].kind == "kt" && xr.Bool()
	}
	type job struct {
		c   conf
		h   int
		fam string // "" = history; "u2u" = user-to-user requests; "ccache" = client built from a credential cache
	}
	var jobs []job
	for _, c := range confs {
		for h := 0; h < nhist; h++ {
			jobs = append(jobs, job{c, h, ""})
		}
	}
	nU2U, nCC := 16, 16
	if vh.Thorough() {
		nU2U, nCC = 300, 300
	}
	for i := 0; i < nU2U; i++ {
		c := confs[(i*7)%len(confs)]
		c.topology, c.ktOnly = "single", false
		jobs = append(jobs, job{c, i, "u2u"})
	}
	for i := 0; i < nCC; i++ {
		c := confs[(i*5+1)%len(confs)]
		c.topology, c.ktOnly, c.life, c.renew = "single", false, 10*time.Minute, 7*24*time.Hour
		jobs = append(jobs, job{c, i, "ccache"})
	}
	nw := 12
	ch := make(chan int, 16)
	done := make(chan struct{})
	for wi := 0; wi < nw; wi++ {
		go func(wi int) {
			defer func() { done <- struct{}{} }()
			w, err := newWorld(wi)
			if err != nil {
				r.Inconclusive("cannot start simulated KDC: " + err.Error())
				for range ch {
				}
				return
			}
			defer w.ep.Close()
			for ji := range ch {
				j := jobs[ji]
				ck := fmt.Sprintf("%s/h%d", j.c, j.h)
				if j.fam != "" {
					ck = fmt.Sprintf("%s/%s%d", j.c, j.fam, j.h)
				}
				if !r.Mine(ck) {
					continue
				}
				switch j.fam {
				case "u2u":
					runU2U(t, r, w, ck, j.c)
				case "ccache":
					runCCache(t, r, w, ck, j.c)
				default:
					runHistory(t, r, w, ck, j.c, nops)
				}
			}
		}(wi)
	}
	for i := range jobs {
		ch <- i
	}
	close(ch)
	for wi := 0; wi < nw; wi++ {
		<-done
	}
	r.Require("requests_checked_AS", 200)
	r.Require("requests_checked_TGS", 500)
	r.Require("tickets_returned_matched_issue_log", 500)
	r.Require("served_from_cache", 100)
	r.Require("preauth_timestamps_verified", 50)
	r.Require("renewals_observed", 5)
	r.Require("referral_chains_followed", 5)
	r.Require("advances_across_endtime", 20)
	r.Require("requests_checked_AS_tkt_and_tgs_enctypes_differ", 50)
	r.Require("requests_checked_TGS_tkt_and_tgs_enctypes_differ", 100)
	r.Require("logins_with_keytab_of_tkt_enctypes_only", 5)
	r.Require("advances_across_xrealm_tgt_refresh_point", 4)
	r.Require("xrealm_tickets_obtained_after_tgt_refresh_due", 2)
	r.Require("preauth_etype_matches_hint", 30)
	r.Require("preauth_etype_matches_info2_with_conflicting_info", 8)
	r.Require("u2u_requests_pa_tgs_req_verified", 8)
	r.Require("ccache_clients_built", 8)
	r.Require("ccache_renewable_tickets_imported", 8)
	r.Require("ccache_tickets_returned_matched_issue_log", 8)
	r.Require("ccache_ended_ticket_not_served", 4)
}

func runHistory(t *testing.T, r *vh.Run, w *world, ck string, c conf, nops int) {
	rnd := vh.NewRand("c10", ck)
	var hist []opRec
	var violations []func()
	viol := func(fp, what string, extra map[string]any) {
		h := append([]opRec{}, hist...)
		violations = append(violations, func() {
			d := map[string]any{"case": ck, "config": c.String(), "history": h}
			for k, v := range extra {
				d[k] = v
			}
			r.Violation(fp, what, d)
		})
	}
	returned := 0
	cfg, err := config.NewFromString(w.confText(c))
	if err != nil {
		r.Inconclusive("config: " + err.Error())
		return
	}
	cname := "pwuser"
	if c.kind == "kt" {
		cname = "ktuser"
	}
	if c.kind == "pwsa" {
		cname = "pwsalted"
	}
	w.k.Realms[home].Principals[cname].PreAuth = c.policy
	kt := w.kt
	if c.ktOnly {
		if kt, err = w.keytabFor(etLists[c.etlist]); err != nil {
			r.Inconclusive("keytab: " + err.Error())
			return
		}
	}
	mkClient := func() *client.Client {
		if c.kind == "pw" {
			return client.NewWithPassword(cname, home, w.pw, cfg, client.DisablePAFXFAST(true))
		}
		if c.kind == "pwsa" {
			return client.NewWithPassword(cname, home, w.pw, cfg, client.DisablePAFXFAST(true), client.AssumePreAuthentication(true))
		}
		return client.NewWithKeytab(cname, home, kt, cfg, client.DisablePAFXFAST(true))
	}
	type window struct{ from, to time.Time }
	var reqWindows []window // per KDC request serial (index = serial-1): virtual time window in which it was sent
	// the SPN(s) that make the topology matter: several services of the mapped realm (so that some are requested for the
	// first time long after the cross-realm TGT was obtained), the remote service at the end of the referral chain
	var topSPNs []string
	switch {
	case c.topology == "xrealm-mapped":
		for i := 0; i < nMapped; i++ {
			topSPNs = append(topSPNs, mappedSvc(i).String())
		}
	case strings.HasPrefix(c.topology, "referral"):
		topSPNs = []string{remoteSvc(c.topology).String()}
	}
	var pnc bool
	var pv, pw string
	finished := make(chan struct{})
	var opsDone atomic.Int64 // operations of this history completed so far: the watchdog's notion of progress
	go func() {
		last, lastChange := int64(-1), time.Now()
		for {
			select {
			case <-finished:
				return
			case <-time.After(5 * time.Second):
			}
			if n := opsDone.Load(); n != last {
				last, lastChange = n, time.Now()
				continue
			}
			if time.Since(lastChange) < 300*time.Second {
				continue
			}
			// no operation has completed for five minutes of real time (a loaded machine makes operations slow, not that slow):
			// a stuck bubble cannot be cancelled: report and leave the process (the driver reports inconclusive)
			r.Inconclusive("history " + ck + " completed no operation within 300 s of real time (stuck virtual clock?)")
			r.Flush()
			buf := make([]byte, 1<<20)
			n := runtime.Stack(buf, true)
			os.Stderr.Write(buf[:n])
			os.Exit(96)
		}
	}()
	defer close(finished)
	pcommon.AtVirtual(t, time.Hour, func() {
		w.k.ResetLogs()
		w.now.Store(time.Now().UnixNano())
		stop := make(chan struct{})
		tickDone := make(chan struct{})
		go func() {
			defer close(tickDone)
			for {
				select {
				case <-stop:
					return
				case <-time.After(5 * time.Second):
					w.now.Store(time.Now().UnixNano())
				}
			}
		}()
		pnc, pv, pw = vh.Guard(func() {
			cl := mkClient()
			defer func() { pcommon.Teardown(cl) }()
			seenReq := 0
			markWindow := func(from, to time.Time) int {
				n := len(w.k.Requests())
				for len(reqWindows) < n {
					reqWindows = append(reqWindows, window{from, to})
				}
				d := n - seenReq
				seenReq = n
				return d
			}
			checkReturned := func(op, spn string, tkt messages.Ticket, key types.EncryptionKey, now time.Time) int {
				// the pair must be in the issue log as a pair, for that SPN, and valid now
				for _, is := range w.k.Issues() {
					if bytes.Equal(is.Ticket, refTicketBytes(tkt)) || bytes.Equal(cipherOf(is.Ticket), tkt.EncPart.Cipher) {
						if !bytes.Equal(is.SessKey.Value, key.KeyValue) || is.SessKey.Type != key.KeyType {
							viol("C10|returned-key-not-issued-with-ticket|"+op, "the session key returned with the ticket is not the one the KDC issued with it", map[string]any{"spn": spn, "issue": is.Serial})
							return is.Serial
						}
						if is.SName.String() != spn {
							viol("C10|returned-ticket-for-other-spn|"+op, fmt.Sprintf("ticket returned for %s was issued for %s", spn, is.SName), map[string]any{"issue": is.Serial})
							return is.Serial
						}
						if now.Before(is.StartTime) || now.After(is.EndTime) {
							viol("C10|returned-ticket-outside-validity|"+op, fmt.Sprintf("ticket returned at %v is valid only in [%v, %v]", now, is.StartTime, is.EndTime), map[string]any{"spn": spn, "issue": is.Serial})
							return is.Serial
						}
						r.Inc("tickets_returned_matched_issue_log")
						returned++
						return is.Serial
					}
				}
				viol("C10|returned-ticket-not-issued|"+op, "returned ticket is not in the KDC issue log", map[string]any{"spn": spn})
				return 0
			}
			loggedIn := false
			loopPoisoned := false
			epoch := 0 // index into the issue log of the first ticket the present client incarnation can hold
			// xrealmDue: the present client holds (or held) a cross-realm TGT that is past the point at which it has to be
			// replaced (5/6 of its lifetime): what the client presents to the other realm from now on shows whether it was
			xrealmDue := func(at time.Time) bool {
				is := w.k.Issues()
				for i := epoch; i < len(is); i++ {
					if is[i].Kind == "XREALM" && !at.Before(is[i].StartTime.Add(is[i].EndTime.Sub(is[i].StartTime)*5/6)) {
						return true
					}
				}
				return false
			}
			// Model of the client's background refresh timers, kept only where the clock is taken past the lifetime of a
			// cross-realm TGT (modelled, see sessionLimit). gokrb5 starts one goroutine per TGT session that sleeps 5/6 of the
			// remaining lifetime and then obtains a replacement. A cross-realm TGT never outlives the home TGT it was obtained
			// with, so the two goroutines drift towards the same firing instant (the gap shrinks by 6 each round); when they
			// fire together they log in concurrently, which is C11's subject and can leave a session goroutine nobody cancels
			// (a virtual clock then stalls). The model knows the start instant (the virtual clock stands still during an
			// operation) and the end time (issue log) of both sessions, walks the clock from firing instant to firing instant
			// and re-creates the client instead of letting two timers fire within a millisecond of each other.
			modelled := c.topology == "xrealm-mapped" && c.renew == 0
			type sessModel struct {
				live       bool
				start, end time.Time
			}
			var mH, mX sessModel
			issueSeen := 0
			fire := func(m sessModel) time.Time { return m.start.Add(m.end.Sub(m.start) * 5 / 6) }
			updateModel := func(at time.Time) (nAS, nX int) {
				is := w.k.Issues()
				if issueSeen > len(is) {
					issueSeen = len(is)
				}
				for _, x := range is[issueSeen:] {
					switch x.Kind {
					case "AS":
						mH = sessModel{true, at, x.EndTime}
						nAS++
					case "XREALM":
						mX = sessModel{true, at, x.EndTime}
						nX++
					}
				}
				issueSeen = len(is)
				return
			}
			resetModel := func() {
				mH, mX = sessModel{}, sessModel{}
				issueSeen = len(w.k.Issues())
			}
			for i := 0; i < nops; i++ {
				now := time.Now()
				w.now.Store(now.UnixNano())
				x := rnd.Intn(100)
				rec := opRec{At: now.UTC().Format(time.RFC3339Nano)}
				switch {
				case x < 8:
					rec.Op = "Login"
					err := cl.Login()
					rec.NReq = markWindow(now, now)
					if err != nil {
						rec.Err = err.Error()
						viol("C10|login-failed", "Login failed against a healthy KDC with valid credentials: "+err.Error(), nil)
					} else {
						loggedIn = true
						if c.ktOnly {
							r.Inc("logins_with_keytab_of_tkt_enctypes_only")
						}
					}
					if rec.NReq > 8 {
						viol("C10|round-trips|Login", fmt.Sprintf("Login needed %d KDC round trips", rec.NReq), nil)
					}
				case x < 14:
					rec.Op = "AffirmLogin"
					err := cl.AffirmLogin()
					rec.NReq = markWindow(now, now)
					if err != nil {
						rec.Err = err.Error()
						viol("C10|login-failed", "AffirmLogin failed against a healthy KDC: "+err.Error(), nil)
					} else {
						loggedIn = true
						if c.ktOnly && rec.NReq > 0 {
							r.Inc("logins_with_keytab_of_tkt_enctypes_only")
						}
					}
				case x < 62:
					spn := svcName(rnd.Intn(4)).String()
					topSPN := ""
					if len(topSPNs) > 0 && rnd.Intn(3) == 0 {
						topSPN = topSPNs[rnd.Intn(len(topSPNs))]
						spn = topSPN
					}
					rec.Op = "GetServiceTicket " + spn
					tkt, key, err := cl.GetServiceTicket(spn)
					rec.NReq = markWindow(now, now)
					loggedIn = loggedIn || err == nil
					if spn == topSPN && c.topology == "referral-loop" {
						// a KDC referral loop back into the home realm replaces the client's home session with the looped-back
						// cross-realm TGT: the KDCs are not healthy in this topology, later failures are observed only
						loopPoisoned = true
					}
					if err != nil {
						rec.Err = err.Error()
						if spn == topSPN && (c.topology == "referral-loop" || chainLen(c.topology) > 5) {
							r.Inc("observe_long_chain_or_loop_refused")
						} else if loopPoisoned {
							r.Inc("observe_failure_after_referral_loop")
						} else {
							viol("C10|getserviceticket-failed|"+topClass(spn, topSPN, c.topology), "GetServiceTicket failed against a healthy KDC: "+err.Error(), map[string]any{"spn": spn})
						}
					} else {
						rec.Issue = checkReturned("GetServiceTicket", spn, tkt, key, now)
						if rec.NReq == 0 {
							r.Inc("served_from_cache")
						}
						if spn == topSPN && chainLen(c.topology) > 0 && rec.NReq > 0 {
							r.Inc("referral_chains_followed")
						}
						if spn == topSPN && c.topology == "xrealm-mapped" && rec.NReq > 0 && xrealmDue(now) {
							r.Inc("xrealm_tickets_obtained_after_tgt_refresh_due")
						}
					}
					bound := 8
					if spn == topSPN {
						bound = 24
					}
					if rec.NReq > bound {
						viol("C10|round-trips|GetServiceTicket|"+topClass(spn, topSPN, c.topology), fmt.Sprintf("GetServiceTicket(%s) caused %d KDC requests (bound %d)", spn, rec.NReq, bound), map[string]any{"spn": spn})
					}
				case x < 70:
					spn := svcName(rnd.Intn(4)).String()
					rec.Op = "GetCachedTicket " + spn
					tkt, key, ok := cl.GetCachedTicket(spn)
					rec.NReq = markWindow(now, now)
					if ok {
						rec.Issue = checkReturned("GetCachedTicket", spn, tkt, key, now)
					}
				case x < 96:
					d := pickAdvance(rnd, w, now)
					// The background TGT renewal waits 5/6 of the remaining lifetime each round; once renewals are capped by
					// renew-till the rounds shrink geometrically to zero-length timers, which never let a virtual clock advance
					// (in real time the burst ends after ~10 requests). Stay clear of that regime: re-create the client first.
					if lim := sessionLimit(w, c); !lim.IsZero() && now.Add(d).After(lim) {
						r.Inc("observe_renew_till_regime_avoided_by_recreate")
						pcommon.Teardown(cl)
						markWindow(now, now)
						cl = mkClient()
						loggedIn = false
						loopPoisoned = false
						w.k.ResetIssuesKeepRequests()
						epoch = 0
					}
					rec.Op, rec.Advance = "advance", d.String()
					crossed := false
					for _, is := range w.k.Issues() {
						if is.EndTime.After(now) && !is.EndTime.After(now.Add(d)) {
							crossed = true
						}
					}
					if crossed {
						r.Inc("advances_across_endtime")
					}
					rest := d
					if modelled {
						target, cur, xFired := now.Add(d), now, false
						for {
							var next time.Time
							nextIsX := false
							if mH.live {
								next = fire(mH)
							}
							if mX.live && (next.IsZero() || fire(mX).Before(next)) {
								next, nextIsX = fire(mX), true
							}
							if next.IsZero() || next.After(target) {
								break
							}
							if !next.After(cur) {
								// cannot happen while the model is right: stop modelling this timer
								r.Inc("observe_refresh_timer_not_as_modelled")
								if nextIsX {
									mX.live = false
								} else {
									mH.live = false
								}
								continue
							}
							if gap := fire(mX).Sub(fire(mH)); mH.live && mX.live && gap < time.Millisecond && gap > -time.Millisecond {
								r.Inc("observe_coincident_refresh_avoided_by_recreate")
								pcommon.Teardown(cl)
								markWindow(now, cur)
								cl = mkClient()
								loggedIn = false
								resetModel()
								epoch = len(w.k.Issues())
								break
							}
							time.Sleep(next.Sub(cur))
							synctest.Wait()
							cur = next
							nAS, nX := updateModel(cur)
							if nextIsX && nX == 0 {
								r.Inc("observe_refresh_timer_not_as_modelled")
								mX.live = false
							} else if !nextIsX && nAS == 0 {
								r.Inc("observe_refresh_timer_not_as_modelled")
								mH.live = false
							}
							xFired = xFired || nextIsX
						}
						if xFired {
							r.Inc("advances_across_xrealm_tgt_refresh_point")
						}
						rest = target.Sub(cur)
					}
					time.Sleep(rest)
					// a background renewal whose timer fires exactly at the new instant runs concurrently with this goroutine:
					// let it finish (C10 checks sequential histories; concurrency is C11's subject)
					synctest.Wait()
					rec.NReq = markWindow(now, now.Add(d)) // background renewals happen inside this window
				default:
					rec.Op = "Destroy+re-create"
					pcommon.Teardown(cl)
					markWindow(now, now)
					cl = mkClient()
					loggedIn = false
					loopPoisoned = false
					epoch = len(w.k.Issues())
					resetModel()
				}
				if modelled && rec.Op != "advance" {
					updateModel(now) // tickets issued during an operation: the session goroutine started at this very instant
				}
				hist = append(hist, rec)
				opsDone.Add(1)
			}
		})
		close(stop)
		<-tickDone
	})
	r.Eval(ck, returned > 0)
	if pnc {
		r.Violation(fmt.Sprintf("C10|panic|%s|%s", pw, vh.PanicClass(pv)), "client panicked: "+pv, map[string]any{"case": ck, "config": c.String(), "history": hist})
		return
	}
	// (i) every request the KDC decoded
	reqs := w.k.Requests()
	nonces := map[uint32]int{}
	for i, rq := range reqs {
		var win window
		if i < len(reqWindows) {
			win = reqWindows[i]
		}
		checkRequest(r, viol, c, cname, rq, win.from, win.to, w)
		if rq.Req != nil {
			nonces[rq.Req.Body.Nonce]++
		}
	}
	checkPreauthEtypeAfterHint(r, viol, c, w, reqs)
	for _, n := range nonces {
		if n > 2 {
			r.Inc("observe_nonce_used_more_than_twice")
		}
	}
	for _, is := range w.k.Issues() {
		if is.Kind == "RENEW" {
			r.Inc("renewals_observed")
		}
	}
	for _, f := range violations {
		f()
	}
	if len(violations) == 0 && returned > 0 {
		r.SampleKind("history-"+c.topology, 1, map[string]any{"config": c.String(), "history": hist})
	}
}

// sessionLimit is the virtual instant a live client must not be advanced beyond (see the advance operation):
// the renew-till regime of the home TGT, and 5/6 of the lifetime of any cross-realm / referral TGT (its refresh cannot
// extend beyond the home TGT's endtime, so the background rounds shrink to zero-length timers as well).
func sessionLimit(w *world, c conf) time.Time {
	var lim time.Time
	upd := func(l time.Time) {
		if lim.IsZero() || l.Before(lim) {
			lim = l
		}
	}
	for _, is := range w.k.Issues() {
		if is.Kind == "AS" && is.RenewTill != nil {
			upd(is.RenewTill.Add(-2*c.life - time.Hour))
		}
		if c.topology == "xrealm-mapped" && c.renew == 0 {
			// the one multi-realm regime a virtual clock can pass: the client asks its own KDC for the cross-realm TGT, so a
			// replacement is always obtainable, and without renew-till it is a fresh ticket under the (by then re-obtained)
			// home TGT: full length again, no shrinking rounds
			continue
		}
		if is.Kind != "AS" && is.Kind != "RENEW" && len(is.SName.Parts) == 2 && is.SName.Parts[0] == "krbtgt" {
			upd(is.StartTime.Add(is.EndTime.Sub(is.StartTime)*5/6 - time.Second))
		}
	}
	return lim
}

func chainLen(top string) int {
	var n int
	if _, err := fmt.Sscanf(top, "referral-%d", &n); err == nil {
		return n
	}
	return 0
}

func topClass(spn, topSPN, top string) string {
	if spn != topSPN {
		return "home"
	}
	if strings.HasPrefix(top, "referral-") && top != "referral-loop" {
		return "referral-chain"
	}
	return top
}

func cipherOf(tkt []byte) []byte {
	t, err := kmsg.ParseTicket(tkt)
	if err != nil {
		return nil
	}
	return t.Enc.Cipher
}

// refTicketBytes re-encodes the outer ticket fields with the reference encoder (gokrb5's own Marshal is under test elsewhere).
func refTicketBytes(t messages.Ticket) []byte {
	var kv *uint32
	if t.EncPart.KVNO != 0 {
		kv = kmsg.U32(uint32(t.EncPart.KVNO))
	}
	return kmsg.Ticket{Vno: t.TktVNO, Realm: t.Realm, SName: kmsg.N(t.SName.NameType, t.SName.NameString...), Enc: kmsg.EncData{Etype: t.EncPart.EType, Kvno: kv, Cipher: t.EncPart.Cipher}}.DER()
}

// pickAdvance chooses a clock advance from the interesting instants of the tickets issued so far.
func pickAdvance(rnd *vh.Rand, w *world, now time.Time) time.Duration {
	var cands []time.Duration
	for _, is := range w.k.Issues() {
		life := is.EndTime.Sub(is.StartTime)
		for _, tgt := range []time.Time{is.EndTime.Add(-time.Second), is.EndTime, is.EndTime.Add(time.Second), is.EndTime.Add(time.Minute),
			is.StartTime.Add(life * 5 / 6), is.StartTime.Add(life*5/6 + time.Second), is.StartTime.Add(life / 2)} {
			if d := tgt.Sub(now); d > 0 && d < 9*24*time.Hour {
				cands = append(cands, d)
			}
		}
		if is.RenewTill != nil {
			for _, tgt := range []time.Time{is.RenewTill.Add(-time.Second), *is.RenewTill, is.RenewTill.Add(time.Second)} {
				if d := tgt.Sub(now); d > 0 && d < 9*24*time.Hour {
					cands = append(cands, d)
				}
			}
		}
	}
	if len(cands) == 0 || rnd.Intn(4) == 0 {
		return vh.Pick(rnd, time.Second, 30*time.Second, 5*time.Minute, 9*time.Minute, time.Hour, 6*time.Hour)
	}
	sort.Slice(cands, func(i, j int) bool { return cands[i] < cands[j] })
	// bias towards the nearest instants (days-long advances are expensive and rarely needed)
	if rnd.Intn(3) != 0 && len(cands) > 3 {
		cands = cands[:3]
	}
	return cands[rnd.Intn(len(cands))]
}

func hasBit(v uint32, n int) bool { return v&(1<<uint(31-n)) != 0 }

// checkRequest compares one decoded request with what the configuration dictates.
func checkRequest(r *vh.Run, viol func(fp, what string, extra map[string]any), c conf, cname string, rq *simkdc.ReqRecord, from, to time.Time, w *world) {
	ex := map[string]any{"request_serial": rq.Serial, "request_hex": fmt.Sprintf("%x", rq.Raw)}
	if rq.DecodeErr != "" {
		viol("C10|request-malformed", "request is not well-formed DER per RFC 4120: "+rq.DecodeErr, ex)
		return
	}
	q := rq.Req
	b := q.Body
	kind := "AS"
	if q.MsgType == 12 {
		kind = "TGS"
	}
	r.Inc("requests_checked_" + kind)
	bad := func(field, what string) {
		viol("C10|request-field|"+kind+"|"+field, kind+"-REQ "+field+": "+what, ex)
	}
	// AS-REQ: default_tkt_enctypes; TGS-REQ: default_tgs_enctypes (krb5.conf(5); the two need not be the same list)
	want, wantFrom := etLists[c.etlist], "default_tkt_enctypes"
	if kind == "TGS" {
		want, wantFrom = etLists[c.tgsEt], "default_tgs_enctypes"
	}
	if c.tgsEt != c.etlist {
		r.Inc("requests_checked_" + kind + "_tkt_and_tgs_enctypes_differ")
	}
	if fmt.Sprint(b.Etypes) != fmt.Sprint(want) {
		bad("etype", fmt.Sprintf("etype list %v, configuration dictates %v (%s)", b.Etypes, want, wantFrom))
	}
	// options
	renewing := hasBit(b.Options, simkdc.OptRenew)
	exp := uint32(0x00000010) // kdc_default_options default: renewable-ok
	if c.fwd {
		exp |= 1 << (31 - simkdc.FlagForwardable)
	}
	if c.prox {
		exp |= 1 << (31 - simkdc.FlagProxiable)
	}
	if c.canon {
		exp |= 1 << (31 - simkdc.OptCanonicalize)
	}
	if c.renew > 0 {
		exp |= 1 << (31 - simkdc.FlagRenewable)
	}
	if kind == "TGS" {
		exp &^= 0x00000010 // gokrb5 starts TGS options from empty flags; renewable-ok is an AS default: not judged either way
		if renewing {
			exp |= 1<<(31-simkdc.OptRenew) | 1<<(31-simkdc.FlagRenewable)
		}
	}
	got := b.Options
	if kind == "TGS" {
		got &^= 0x00000010
	}
	if got != exp {
		bad("kdc-options", fmt.Sprintf("kdc-options %08x, configuration dictates %08x", b.Options, exp))
	}
	// till / rtime relative to the virtual time window in which the request was built
	inWin := func(t time.Time, d time.Duration) bool {
		lo, hi := from.Add(d).Truncate(time.Second), to.Add(d).Truncate(time.Second)
		return !t.Before(lo) && !t.After(hi)
	}
	if !from.IsZero() {
		if !inWin(b.Till, c.life) {
			bad("till", fmt.Sprintf("till %v, expected now+ticket_lifetime with now in [%v,%v] and lifetime %v", b.Till, from, to, c.life))
		}
		if c.renew > 0 {
			if b.RTime == nil {
				bad("rtime", "rtime absent although renew_lifetime is configured")
			} else if !inWin(*b.RTime, c.renew) {
				bad("rtime", fmt.Sprintf("rtime %v, expected now+renew_lifetime (%v) with now in [%v,%v]", *b.RTime, c.renew, from, to))
			}
		} else if b.RTime != nil {
			bad("rtime", "rtime present although renew_lifetime is 0")
		}
	}
	if (b.Addresses != nil && len(b.Addresses) > 0) == c.noaddr {
		bad("addresses", fmt.Sprintf("addresses present=%v although noaddresses=%v", len(b.Addresses) > 0, c.noaddr))
	}
	if b.CName != nil && b.CName.String() != cname {
		bad("cname", fmt.Sprintf("cname %s, client is %s", b.CName, cname))
	}
	if kind == "AS" {
		if b.CName == nil {
			bad("cname", "cname absent in AS-REQ")
		}
		if b.Realm != home {
			bad("realm", "realm "+b.Realm)
		}
		if b.SName == nil || b.SName.String() != "krbtgt/"+home {
			bad("sname", fmt.Sprintf("sname %v", b.SName))
		}
		for _, pa := range q.PAData {
			if pa.Type == 2 {
				if rq.PreauthErr != "" && c.kind == "pwsa" && (strings.Contains(rq.PreauthErr, "does not decrypt") || strings.Contains(rq.PreauthErr, "no key")) {
					// a guess made before the KDC said which salt and etype to use: refused, the login must go on with the hints
					r.Inc("observe_preemptive_preauth_guess_refused")
				} else if rq.PreauthErr != "" {
					bad("pa-enc-timestamp", rq.PreauthErr)
				} else if rq.PreauthTS != nil {
					if !from.IsZero() && (rq.PreauthTS.Before(from.Truncate(time.Microsecond)) || rq.PreauthTS.After(to.Add(time.Microsecond))) {
						bad("pa-enc-timestamp", fmt.Sprintf("timestamp %v not the current time [%v,%v]", rq.PreauthTS, from, to))
					} else {
						r.Inc("preauth_timestamps_verified")
					}
				}
			}
		}
	} else {
		if rq.TGSErr != "" && rq.TGSAuth == nil && !strings.Contains(rq.TGSErr, "expired") && !strings.Contains(rq.TGSErr, "unknown in") && !strings.Contains(rq.TGSErr, "renew") {
			bad("pa-tgs-req", rq.TGSErr)
		}
		if rq.TGSAuth != nil {
			r.Inc("pa_tgs_req_verified")
		}
		if b.SName == nil {
			bad("sname", "absent")
		}
	}
}
