// Package pcommon holds workload pieces shared by several property packages.
package pcommon

import (
	"verif/ref/kcrypto"
	"verif/vh"
)

// UsageSet is every key usage constant of iana/keyusage plus boundary values.
var UsageSet = []uint32{1, 2, 3, 4, 5, 6, 7, 8, 9, 10, 11, 12, 13, 14, 15, 16, 17, 19, 22, 23, 24, 25, 50, 51, 52, 53, 54, 55, 56,
	127, 128, 255, 256, 1024, 1 << 31}

// RefKey makes a protocol key for the etype from the PRNG with the reference random-to-key
// (des3 keys get parity and weak-key correction).
func RefKey(r *vh.Rand, et int32) []byte {
	return kcrypto.RandomToKey(et, r.Bytes(kcrypto.SeedLen(et)))
}
