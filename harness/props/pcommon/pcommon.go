// Package pcommon holds workload pieces shared by several property packages.
package pcommon

import (
	"fmt"
	"os"
	"runtime"
	"testing"
	"testing/synctest"
	"time"

	"verif/ref/kcrypto"
	"verif/vh"
)

// UsageSet is every key usage constant of iana/keyusage plus boundary values.
var UsageSet = []uint32{1, 2, 3, 4, 5, 6, 7, 8, 9, 10, 11, 12, 13, 14, 15, 16, 17, 19, 22, 23, 24, 25, 50, 51, 52, 53, 54, 55, 56,
	127, 128, 255, 256, 1024, 1 << 31}

// RefKey makes a protocol key for the etype from the PRNG with the reference random-to-key
// (des3 keys get parity and weak-key correction).
func RefKey(r *vh.Rand, et int32) []byte {
	return kcrypto.RandomToKey(et, r.Bytes(kcrypto.SeedLen(et)))
}

// SharedKey returns key bytes that are IDENTICAL for every etype with the same key length (aes128-sha1, aes128-sha2 and
// rc4 share one 16-byte value; aes256-sha1 and aes256-sha2 one 32-byte value): a derivation that is cached or selected by
// the key bytes alone, without the etype, only goes wrong when the same bytes are used with two families in one process.
func SharedKey(et int32, idx int) []byte {
	return kcrypto.RandomToKey(et, vh.NewRand("shared-key", kcrypto.KeyLen(et), idx).Bytes(kcrypto.SeedLen(et)))
}

// Every check runs with a local time zone that is not UTC: a time.Now() that lost its .UTC() on the way into a message then shows
// as a GeneralizedTime with an offset (or as a wrong instant), instead of going unnoticed on a UTC host.
func init() { time.Local = time.FixedZone("VERIF+0530", 5*3600+1800) }

// Epoch is the start of the virtual clock inside a synctest bubble.
var Epoch = time.Date(2000, 1, 1, 0, 0, 0, 0, time.UTC)

// AtVirtual runs f inside a fresh synctest bubble after advancing the virtual clock by offset,
// so that every time.Now() made by the code under test reads Epoch+offset (until f sleeps).
func AtVirtual(t *testing.T, offset time.Duration, f func()) {
	// synctest.Test ends the calling goroutine (t.FailNow -> runtime.Goexit) when the bubble's sub-test was marked failed,
	// e.g. by "race detected during execution of test": run it on a goroutine of its own so that the caller survives, and
	// hand a panic of synctest itself (bubble deadlock) back to the caller.
	done := make(chan struct{})
	var pv any
	go func() {
		defer close(done)
		defer func() { pv = recover() }()
		synctest.Test(t, func(t *testing.T) {
			if offset > 0 {
				time.Sleep(offset)
			}
			f()
		})
	}()
	<-done
	if pv != nil {
		// the goroutines the bubble complains about still exist: show them
		buf := make([]byte, 1<<20)
		n := runtime.Stack(buf, true)
		fmt.Fprintf(os.Stderr, "pcommon.AtVirtual: synctest panicked: %v\nall goroutines:\n%s\n", pv, buf[:n])
		panic(pv)
	}
}

// AtVirtualAbandonable is AtVirtual for callers with a wall-clock watchdog: when abandon is closed before the bubble has ended,
// it returns true and leaves the bubble behind (its goroutines stay where they are). A bubble whose goroutine waits for real
// I/O that never completes - a datagram lost on a loaded loopback interface - is never "durably blocked", so its virtual
// clock, and with it every virtual deadline inside it, stands still for ever.
func AtVirtualAbandonable(t *testing.T, offset time.Duration, f func(), abandon <-chan struct{}) (abandoned bool) {
	done := make(chan struct{})
	var pv any
	go func() {
		defer close(done)
		defer func() { pv = recover() }()
		synctest.Test(t, func(t *testing.T) {
			if offset > 0 {
				time.Sleep(offset)
			}
			f()
		})
	}()
	select {
	case <-done:
	case <-abandon:
		return true
	}
	if pv != nil {
		buf := make([]byte, 1<<20)
		n := runtime.Stack(buf, true)
		fmt.Fprintf(os.Stderr, "pcommon.AtVirtualAbandonable: synctest panicked: %v\nall goroutines:\n%s\n", pv, buf[:n])
		panic(pv)
	}
	return false
}

// Teardown destroys a client inside a synctest bubble and waits until its background goroutines are gone. Destroy sets the
// session end times to "now", which gives the renewal goroutine a zero-length timer next to the pending cancel: when its
// select takes the timer and Destroy has not replaced the credentials yet, the goroutine logs in again and adds a session that
// this Destroy call has already passed by. Such a session would sleep for hours of virtual time after the bubble's main
// goroutine has returned ("deadlock: main bubble goroutine has exited but blocked goroutines remain"). A second Destroy, after
// everything has come to rest, finds it; by then the credentials are gone and no further login can succeed.
func Teardown(cl interface{ Destroy() }) {
	for i := 0; i < 3; i++ {
		cl.Destroy()
		synctest.Wait()
	}
}
