package kcrypto

import (
	"bytes"
	"encoding/hex"
	"fmt"
)

func hx(s string) []byte {
	b, err := hex.DecodeString(s)
	if err != nil {
		panic(err)
	}
	return b
}

// SelfTest runs the RFC test vectors (RFC 3961 A.1/A.3/A.4, RFC 3962 B, RFC 8009 A, RFC 4757 / MS
// sample) through the reference. A failure means the oracle is broken (inconclusive), never a
// violation of a property.
func SelfTest() error {
	// RFC 3961 A.1 n-fold
	nf := []struct {
		n  int
		in string
		o  string
	}{
		{64, "012345", "be072631276b1955"},
		{56, "password", "78a07b6caf85fa"},
		{64, "Rough Consensus, and Running Code", "bb6ed30870b7f0e0"},
		{168, "password", "59e4a8ca7c0385c3c37b3f6d2000247cb6e6bd5b3e"},
		{192, "MASSACHVSETTS INSTITVTE OF TECHNOLOGY", "db3b0d8f0b061e603282b308a50841229ad798fab9540c1b"},
		{168, "Q", "518a54a215a8452a518a54a215a8452a518a54a215"},
		{168, "ba", "fb25d531ae8974499f52fd92ea9857c4ba24cf297e"},
		{64, "kerberos", "6b65726265726f73"},
		{128, "kerberos", "6b65726265726f737b9b5b2b93132b93"},
		{168, "kerberos", "8372c236344e5f1550cd0747e15d62ca7a5a3bcea4"},
		{256, "kerberos", "6b65726265726f737b9b5b2b93132b935c9bdcdad95c9899c4cae4dee6d6cae4"},
	}
	for _, v := range nf {
		if got := Nfold([]byte(v.in), v.n); !bytes.Equal(got, hx(v.o)) {
			return fmt.Errorf("n-fold(%q,%d) = %x want %s", v.in, v.n, got, v.o)
		}
	}
	// RFC 3961 A.3 DES3 DR/DK
	dk := []struct{ key, c, dr, dk string }{
		{"dce06b1f64c857a11c3db57c51899b2cc1791008ce973b92", "0000000155", "935079d14490a75c3093c4a6e8c3b049c71e6ee705", "925179d04591a79b5d3192c4a7e9c289b049c71f6ee604cd"},
		{"5e13d31c70ef765746578531cb51c15bf11ca82c97cee9f2", "00000001aa", "9f58e5a047d894101c469845d67ae3c5249ed812f2", "9e58e5a146d9942a101c469845d67a20e3c4259ed913f207"},
		{"98e6fd8a04a4b6859b75a176540b9752bad3ecd610a252bc", "0000000155", "12fff90c773f956d13fc2ca0d0840349dbd39908eb", "13fef80d763e94ec6d13fd2ca1d085070249dad39808eabf"},
		{"622aec25a2fe2cad7094680b7c64940280084c1a7cec92b5", "00000001aa", "f8debf05b097e7dc0603686aca35d91fd9a5516a70", "f8dfbf04b097e6d9dc0702686bcb3489d91fd9a4516b703e"},
		{"d3f8298ccb166438dcb9b93ee5a7629286a491f838f802fb", "6b65726265726f73", "2270db565d2a3d64cfbfdc5305d4f778a6de42d9da", "2370da575d2a3da864cebfdc5204d56df779a7df43d9da43"},
		{"c1081649ada74362e6a1459d01dfd30d67c2234c940704da", "0000000155", "348056ec98fcc517171d2b4d7a9493af482d999175", "348057ec98fdc48016161c2a4c7a943e92ae492c989175f7"},
		{"5d154af238f46713155719d55e2f1f790dd661f279a7917c", "00000001aa", "a8818bc367dadacbe9a6c84627fb60c294b01215e5", "a8808ac267dada3dcbe9a7c84626fbc761c294b01315e5c1"},
		{"798562e049852f57dc8c343ba17f2ca1d97394efc8adc443", "0000000155", "c813f88b3be2b2f75424ce9175fbc8483b88c8713a", "c813f88a3be3b334f75425ce9175fbe3c8493b89c8703b49"},
		{"26dce334b545292f2feab9a8701a89a4b99eb9942cecd016", "00000001aa", "f58efc6f83f93e55e695fd252cf8fe59f7d5ba37ec", "f48ffd6e83f83e7354e694fd252cf83bfe58f7d5ba37ec5d"},
	}
	for _, v := range dk {
		r, err := DR(DES3, hx(v.key), hx(v.c))
		if err != nil || !bytes.Equal(r, hx(v.dr)) {
			return fmt.Errorf("des3 DR(%s,%s) = %x (%v) want %s", v.key, v.c, r, err, v.dr)
		}
		k, _ := DK(DES3, hx(v.key), hx(v.c))
		if !bytes.Equal(k, hx(v.dk)) {
			return fmt.Errorf("des3 DK(%s,%s) = %x want %s", v.key, v.c, k, v.dk)
		}
	}
	// RFC 3961 A.4 DES3 string-to-key
	s2k := []struct{ salt, pw, key string }{
		{"ATHENA.MIT.EDUraeburn", "password", "850bb51358548cd05e86768c313e3bfef7511937dcf72c3e"},
		{"WHITEHOUSE.GOVdanny", "potatoe", "dfcd233dd0a43204ea6dc437fb15e061b02979c1f74f377a"},
		{"EXAMPLE.COMbuckaroo", "penny", "6d2fcdf2d6fbbc3ddcadb5da5710a23489b0d3b69d5d9d4a"},
		{"ATHENA.MIT.EDUJurišić", "ß", "16d5a40e1ce3bacb61b9dce00470324c831973a7b952feb0"},
		{"EXAMPLE.COMpianist", "\U0001D11E", "85763726585dbc1cce6ec43e1f751f07f1c4cbb098f40b19"},
	}
	for _, v := range s2k {
		k, err := StringToKey(DES3, v.pw, v.salt, 0)
		if err != nil || !bytes.Equal(k, hx(v.key)) {
			return fmt.Errorf("des3 s2k(%q,%q) = %x (%v) want %s", v.pw, v.salt, k, err, v.key)
		}
	}
	// RFC 3962 Appendix B string-to-key
	s1 := string(hx("1234567878563412"))
	g := "\U0001D11E"
	x64 := "XXXXXXXXXXXXXXXXXXXXXXXXXXXXXXXXXXXXXXXXXXXXXXXXXXXXXXXXXXXXXXXX"
	a := []struct {
		it       uint32
		pw, salt string
		k128     string
		k256     string
	}{
		{1, "password", "ATHENA.MIT.EDUraeburn", "42263c6e89f4fc28b8df68ee09799f15", "fe697b52bc0d3ce14432ba036a92e65bbb52280990a2fa27883998d72af30161"},
		{2, "password", "ATHENA.MIT.EDUraeburn", "c651bf29e2300ac27fa469d693bdda13", "a2e16d16b36069c135d5e9d2e25f896102685618b95914b467c67622225824ff"},
		{1200, "password", "ATHENA.MIT.EDUraeburn", "4c01cd46d632d01e6dbe230a01ed642a", "55a6ac740ad17b4846941051e1e8b0a7548d93b0ab30a8bc3ff16280382b8c2a"},
		{5, "password", s1, "e9b23d52273747dd5c35cb55be619d8e", "97a4e786be20d81a382d5ebc96d5909cabcdadc87ca48f574504159f16c36e31"},
		{1200, x64, "pass phrase equals block size", "59d1bb789a828b1aa54ef9c2883f69ed", "89adee3608db8bc71f1bfbfe459486b05618b70cbae22092534e56c553ba4b34"},
		{1200, x64 + "X", "pass phrase exceeds block size", "cb8005dc5f90179a7f02104c0018751d", "d78c5c9cb872a8c9dad4697f0bb5b2d21496c82beb2caeda2112fceea057401b"},
		{50, g, "EXAMPLE.COMpianist", "f149c1f2e154a73452d43e7fe62a56e5", "4b6d9839f84406df1f09cc166db4b83c571848b784a3d6bdc346589a3e393f9e"},
	}
	for _, v := range a {
		k, _ := StringToKey(AES128, v.pw, v.salt, v.it)
		if !bytes.Equal(k, hx(v.k128)) {
			return fmt.Errorf("aes128 s2k iter %d = %x want %s", v.it, k, v.k128)
		}
		k, _ = StringToKey(AES256, v.pw, v.salt, v.it)
		if !bytes.Equal(k, hx(v.k256)) {
			return fmt.Errorf("aes256 s2k iter %d = %x want %s", v.it, k, v.k256)
		}
	}
	// RFC 3962 Appendix B CBC-CTS vectors (key "chicken teriyaki", IV 0)
	ctsKey := hx("636869636b656e207465726979616b69")
	ctsV := []struct{ in, out string }{
		{"4920776f756c64206c696b652074686520", "c6353568f2bf8cb4d8a580362da7ff7f97"},
		{"4920776f756c64206c696b65207468652047656e6572616c20476175277320", "fc00783e0efdb2c1d445d4c8eff7ed2297687268d6ecccc0c07b25e25ecfe5"},
		{"4920776f756c64206c696b65207468652047656e6572616c2047617527732043", "39312523a78662d5be7fcbcc98ebf5a897687268d6ecccc0c07b25e25ecfe584"},
		{"4920776f756c64206c696b65207468652047656e6572616c20476175277320436869636b656e2c20706c656173652c", "97687268d6ecccc0c07b25e25ecfe584b3fffd940c16a18c1b5549d2f838029e39312523a78662d5be7fcbcc98ebf5"},
		{"4920776f756c64206c696b65207468652047656e6572616c20476175277320436869636b656e2c20706c656173652c20", "97687268d6ecccc0c07b25e25ecfe5849dad8bbb96c4cdc03bc103e1a194bbd839312523a78662d5be7fcbcc98ebf5a8"},
		{"4920776f756c64206c696b65207468652047656e6572616c20476175277320436869636b656e2c20706c656173652c20616e6420776f6e746f6e20736f75702e", "97687268d6ecccc0c07b25e25ecfe58439312523a78662d5be7fcbcc98ebf5a84807efe836ee89a526730dbc2f7bc8409dad8bbb96c4cdc03bc103e1a194bbd8"},
	}
	blk, _ := blockEncrypt(AES128, ctsKey)
	for _, v := range ctsV {
		c, err := ctsEncrypt(blk, hx(v.in))
		if err != nil || !bytes.Equal(c, hx(v.out)) {
			return fmt.Errorf("cts encrypt(%s) = %x (%v) want %s", v.in, c, err, v.out)
		}
		p, err := ctsDecrypt(blk, hx(v.out))
		if err != nil || !bytes.Equal(p, hx(v.in)) {
			return fmt.Errorf("cts decrypt(%s) = %x (%v) want %s", v.out, p, err, v.in)
		}
	}
	// RFC 8009 Appendix A
	salt := string(hx("10DF9DD783E5BC8ACEA1730E74355F61")) + "ATHENA.MIT.EDUraeburn"
	if k, _ := StringToKey(AES128SHA2, "password", salt, 32768); !bytes.Equal(k, hx("089bca48b105ea6ea77ca5d2f39dc5e7")) {
		return fmt.Errorf("rfc8009 s2k 19 = %x", k)
	}
	if k, _ := StringToKey(AES256SHA2, "password", salt, 32768); !bytes.Equal(k, hx("45bd806dbf6a833a9cffc1c94589a222367a79bc21c413718906e9f578a78467")) {
		return fmt.Errorf("rfc8009 s2k 20 = %x", k)
	}
	b128 := hx("3705d96080c17728a0e800eab6e0d23c")
	b256 := hx("6d404d37faf79f9df0d33568d320669800eb4836472ea8a026d16b7182460c52")
	chk := func(name string, got []byte, want string) error {
		if !bytes.Equal(got, hx(want)) {
			return fmt.Errorf("rfc8009 %s = %x want %s", name, got, want)
		}
		return nil
	}
	kc, _ := deriveKc(AES128SHA2, b128, 2)
	ke, _ := deriveKe(AES128SHA2, b128, 2)
	ki, _ := deriveKi(AES128SHA2, b128, 2)
	for _, e := range []error{chk("Kc19", kc, "b31a018a48f54776f403e9a396325dc3"), chk("Ke19", ke, "9b197dd1e8c5609d6e67c3e37c62c72e"), chk("Ki19", ki, "9fda0e56ab2d85e1569a688696c26a6c")} {
		if e != nil {
			return e
		}
	}
	kc, _ = deriveKc(AES256SHA2, b256, 2)
	ke, _ = deriveKe(AES256SHA2, b256, 2)
	ki, _ = deriveKi(AES256SHA2, b256, 2)
	for _, e := range []error{chk("Kc20", kc, "ef5718be86cc84963d8bbb5031e9f5c4ba41f28faf69e73d"), chk("Ke20", ke, "56ab22bee63d82d7bc5227f6773f8ea7a5eb1c825160c38312980c442e5c7e49"), chk("Ki20", ki, "69b16514e3cd8e56b82010d5c73012b622c4d00ffc23ed1f")} {
		if e != nil {
			return e
		}
	}
	pt21 := hx("000102030405060708090a0b0c0d0e0f1011121314")
	if c, _ := Checksum(AES128SHA2, b128, 2, pt21); !bytes.Equal(c, hx("d78367186643d67b411cba9139fc1dee")) {
		return fmt.Errorf("rfc8009 checksum 19 = %x", c)
	}
	if c, _ := Checksum(AES256SHA2, b256, 2, pt21); !bytes.Equal(c, hx("45ee791567eefca37f4ac1e0222de80d43c3bfa06699672a")) {
		return fmt.Errorf("rfc8009 checksum 20 = %x", c)
	}
	enc := []struct {
		et       int32
		key      []byte
		pt, conf string
		ct       string
	}{
		{AES128SHA2, b128, "", "7e5895eaf2672435bad817f545a37148", "ef85fb890bb8472f4dab20394dca781dad877eda39d50c870c0d5a0a8e48c718"},
		{AES128SHA2, b128, "000102030405", "7bca285e2fd4130fb55b1a5c83bc5b24", "84d7f30754ed987bab0bf3506beb09cfb55402cef7e6877ce99e247e52d16ed4421dfdf8976c"},
		{AES128SHA2, b128, "000102030405060708090a0b0c0d0e0f", "56ab21713ff62c0a1457200f6fa9948f", "3517d640f50ddc8ad3628722b3569d2ae07493fa8263254080ea65c1008e8fc295fb4852e7d83e1e7c48c37eebe6b0d3"},
		{AES128SHA2, b128, "000102030405060708090a0b0c0d0e0f1011121314", "a7a4e29a4728ce10664fb64e49ad3fac", "720f73b18d9859cd6ccb4346115cd336c70f58edc0c4437c5573544c31c813bce1e6d072c186b39a413c2f92ca9b8334a287ffcbfc"},
		{AES256SHA2, b256, "", "f764e9fa15c276478b2c7d0c4e5f58e4", "41f53fa5bfe7026d91faf9be959195a058707273a96a40f0a01960621ac612748b9bbfbe7eb4ce3c"},
		{AES256SHA2, b256, "000102030405", "b80d3251c1f6471494256ffe712d0b9a", "4ed7b37c2bcac8f74f23c1cf07e62bc7b75fb3f637b9f559c7f664f69eab7b6092237526ea0d1f61cb20d69d10f2"},
		{AES256SHA2, b256, "000102030405060708090a0b0c0d0e0f", "53bf8a0d105265d4e276428624ce5e63", "bc47ffec7998eb91e8115cf8d19dac4bbbe2e163e87dd37f49beca92027764f68cf51f14d798c2273f35df574d1f932e40c4ff255b36a266"},
		{AES256SHA2, b256, "000102030405060708090a0b0c0d0e0f1011121314", "763e65367e864f02f55153c7e3b58af1", "40013e2df58e8751957d2878bcd2d6fe101ccfd556cb1eae79db3c3ee86429f2b2a602ac86fef6ecb647d6295fae077a1feb517508d2c16b4192e01f62"},
	}
	for _, v := range enc {
		c, err := EncryptConf(v.et, v.key, 2, hx(v.pt), hx(v.conf))
		if err != nil || !bytes.Equal(c, hx(v.ct)) {
			return fmt.Errorf("rfc8009 encrypt et %d pt %s = %x (%v) want %s", v.et, v.pt, c, err, v.ct)
		}
		p, cf, err := Decrypt(v.et, v.key, 2, hx(v.ct))
		if err != nil || !bytes.Equal(p, hx(v.pt)) || !bytes.Equal(cf, hx(v.conf)) {
			return fmt.Errorf("rfc8009 decrypt et %d = %x/%x (%v)", v.et, p, cf, err)
		}
	}
	// RFC 4757: MD4(UTF-16LE("foo")) sample from MS documentation
	if k, _ := StringToKey(RC4, "foo", "", 0); !bytes.Equal(k, hx("ac8e657f83df82beea5d43bdaf7800cc")) {
		return fmt.Errorf("rc4 s2k = %x", k)
	}
	// DES3 parity / weak-key correction sanity
	for _, w := range weakDES {
		for _, b := range w {
			c := 0
			for i := 0; i < 8; i++ {
				if b&(1<<uint(i)) != 0 {
					c++
				}
			}
			if c%2 != 1 {
				return fmt.Errorf("weak key table entry %x lacks odd parity", w)
			}
		}
	}
	// round trips for all etypes and lengths 0..40
	for _, et := range Etypes {
		key := RandomToKey(et, bytes.Repeat([]byte{0x5a, 0x13, 0xc7}, 11)[:SeedLen(et)])
		for n := 0; n <= 40; n++ {
			pt := bytes.Repeat([]byte{byte(n)}, n)
			c, err := EncryptConf(et, key, 11, pt, bytes.Repeat([]byte{9}, ConfLen(et)))
			if err != nil {
				return err
			}
			if len(c) != CiphertextLen(et, n) {
				return fmt.Errorf("et %d len %d: ciphertext %d want %d", et, n, len(c), CiphertextLen(et, n))
			}
			p, _, err := Decrypt(et, key, 11, c)
			if err != nil || !bytes.Equal(p[:n], pt) {
				return fmt.Errorf("et %d len %d: round trip failed (%v)", et, n, err)
			}
			if _, _, err := Decrypt(et, key, 12, c); err == nil {
				return fmt.Errorf("et %d: decrypt under other usage succeeded", et)
			}
		}
	}
	return nil
}
