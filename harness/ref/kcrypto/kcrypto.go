// Package kcrypto is an independent implementation of the Kerberos cryptosystems of RFC 3961
// (des3-cbc-sha1-kd), RFC 3962 (aes-cts-hmac-sha1-96), RFC 8009 (aes-cts-hmac-sha2) and RFC 4757
// (rc4-hmac), written from the RFC text. It imports nothing from gokrb5, aescts or gofork and
// serves as the reference oracle for the crypto properties and for minting protocol objects.
package kcrypto

import (
	"bytes"
	"crypto/aes"
	"crypto/cipher"
	"crypto/des"
	"crypto/hmac"
	"crypto/md5"
	"crypto/rc4"
	"crypto/sha1"
	"crypto/sha256"
	"crypto/sha512"
	"encoding/binary"
	"errors"
	"fmt"
	"hash"
	"math/big"
	"unicode/utf16"

	"golang.org/x/crypto/md4"
	"golang.org/x/crypto/pbkdf2"
)

// Etype ids.
const (
	DES3       = 16
	AES128     = 17
	AES256     = 18
	AES128SHA2 = 19
	AES256SHA2 = 20
	RC4        = 23
)

// Etypes lists the six supported encryption types.
var Etypes = []int32{16, 17, 18, 19, 20, 23}

// CksumTypeOf maps etype to its mandatory checksum type (IANA registry).
var CksumTypeOf = map[int32]int32{16: 12, 17: 15, 18: 16, 19: 19, 20: 20, 23: -138}

// EtypeOfCksum is the inverse mapping.
var EtypeOfCksum = map[int32]int32{12: 16, 15: 17, 16: 18, 19: 19, 20: 20, -138: 23}

// KeyLen is the protocol key length in bytes.
func KeyLen(et int32) int {
	switch et {
	case DES3:
		return 24
	case AES128, AES128SHA2, RC4:
		return 16
	case AES256, AES256SHA2:
		return 32
	}
	return 0
}

// SeedLen is the key-generation seed length in bytes.
func SeedLen(et int32) int {
	if et == DES3 {
		return 21
	}
	return KeyLen(et)
}

// MacLen is the length of the integrity tag inside a ciphertext.
func MacLen(et int32) int {
	switch et {
	case DES3:
		return 20
	case AES128, AES256:
		return 12
	case AES128SHA2:
		return 16
	case AES256SHA2:
		return 24
	case RC4:
		return 16
	}
	return 0
}

// CksumLen is the checksum output length for the etype's mandatory checksum.
func CksumLen(et int32) int { return MacLen(et) }

// ConfLen is the confounder length.
func ConfLen(et int32) int {
	switch et {
	case DES3, RC4:
		return 8
	}
	return 16
}

// EtypeName is the RFC 8009 enctype name used in saltp (and the MIT names of the others).
func EtypeName(et int32) string {
	switch et {
	case DES3:
		return "des3-cbc-sha1-kd"
	case AES128:
		return "aes128-cts-hmac-sha1-96"
	case AES256:
		return "aes256-cts-hmac-sha1-96"
	case AES128SHA2:
		return "aes128-cts-hmac-sha256-128"
	case AES256SHA2:
		return "aes256-cts-hmac-sha384-192"
	case RC4:
		return "rc4-hmac"
	}
	return ""
}

// CiphertextLen is the RFC-defined length of a ciphertext for a plaintext of n bytes.
func CiphertextLen(et int32, n int) int {
	switch et {
	case DES3:
		l := 8 + n
		if l%8 != 0 {
			l += 8 - l%8
		}
		return l + 20
	case AES128, AES256, AES128SHA2, AES256SHA2:
		return 16 + n + MacLen(et)
	case RC4:
		return 16 + 8 + n
	}
	return -1
}

// ---------------------------------------------------------------------------------------
// n-fold (RFC 3961 5.1)

func gcd(a, b int) int {
	for b != 0 {
		a, b = b, a%b
	}
	return a
}

// rotr rotates a bit string right by n bits.
func rotr(in []byte, n int) []byte {
	bits := len(in) * 8
	out := make([]byte, len(in))
	n %= bits
	for i := 0; i < bits; i++ {
		// bit i of input goes to position (i+n) mod bits
		if in[i/8]&(0x80>>uint(i%8)) != 0 {
			j := (i + n) % bits
			out[j/8] |= 0x80 >> uint(j%8)
		}
	}
	return out
}

// Nfold implements n-fold for an output of outBits bits (a multiple of 8).
func Nfold(in []byte, outBits int) []byte {
	k := len(in)
	n := outBits / 8
	if k == 0 || n == 0 {
		return make([]byte, n)
	}
	l := k / gcd(k, n) * n
	buf := make([]byte, 0, l)
	for i := 0; i < l/k; i++ {
		buf = append(buf, rotr(in, 13*i)...)
	}
	mod := new(big.Int).Lsh(big.NewInt(1), uint(outBits))
	mask := new(big.Int).Sub(mod, big.NewInt(1))
	sum := new(big.Int)
	for i := 0; i < l; i += n {
		sum.Add(sum, new(big.Int).SetBytes(buf[i:i+n]))
	}
	// end-around carry
	for sum.Cmp(mask) > 0 {
		hi := new(big.Int).Rsh(sum, uint(outBits))
		lo := new(big.Int).And(sum, mask)
		sum = hi.Add(hi, lo)
	}
	b := sum.Bytes()
	out := make([]byte, n)
	copy(out[n-len(b):], b)
	return out
}

// ---------------------------------------------------------------------------------------
// DES3 (RFC 3961 6.3)

func oddParity(b byte) byte {
	// b has its low bit free; set it so the number of 1 bits is odd
	b &= 0xFE
	c := 0
	for i := 1; i < 8; i++ {
		if b&(1<<uint(i)) != 0 {
			c++
		}
	}
	if c%2 == 0 {
		b |= 1
	}
	return b
}

var weakDES = [][]byte{
	{0x01, 0x01, 0x01, 0x01, 0x01, 0x01, 0x01, 0x01},
	{0xFE, 0xFE, 0xFE, 0xFE, 0xFE, 0xFE, 0xFE, 0xFE},
	{0xE0, 0xE0, 0xE0, 0xE0, 0xF1, 0xF1, 0xF1, 0xF1},
	{0x1F, 0x1F, 0x1F, 0x1F, 0x0E, 0x0E, 0x0E, 0x0E},
	{0x01, 0x1F, 0x01, 0x1F, 0x01, 0x0E, 0x01, 0x0E},
	{0x1F, 0x01, 0x1F, 0x01, 0x0E, 0x01, 0x0E, 0x01},
	{0x01, 0xE0, 0x01, 0xE0, 0x01, 0xF1, 0x01, 0xF1},
	{0xE0, 0x01, 0xE0, 0x01, 0xF1, 0x01, 0xF1, 0x01},
	{0x01, 0xFE, 0x01, 0xFE, 0x01, 0xFE, 0x01, 0xFE},
	{0xFE, 0x01, 0xFE, 0x01, 0xFE, 0x01, 0xFE, 0x01},
	{0x1F, 0xE0, 0x1F, 0xE0, 0x0E, 0xF1, 0x0E, 0xF1},
	{0xE0, 0x1F, 0xE0, 0x1F, 0xF1, 0x0E, 0xF1, 0x0E},
	{0x1F, 0xFE, 0x1F, 0xFE, 0x0E, 0xFE, 0x0E, 0xFE},
	{0xFE, 0x1F, 0xFE, 0x1F, 0xFE, 0x0E, 0xFE, 0x0E},
	{0xE0, 0xFE, 0xE0, 0xFE, 0xF1, 0xFE, 0xF1, 0xFE},
	{0xFE, 0xE0, 0xFE, 0xE0, 0xFE, 0xF1, 0xFE, 0xF1},
}

// IsWeakDES reports whether an 8-byte DES key (with parity) is weak or semi-weak.
func IsWeakDES(k []byte) bool {
	for _, w := range weakDES {
		if bytes.Equal(w, k) {
			return true
		}
	}
	return false
}

// WeakDESKeys returns the table (for workload generation).
func WeakDESKeys() [][]byte { return weakDES }

// Des3RandomToKey expands 21 bytes to a 24-byte key with parity and weak-key correction.
func Des3RandomToKey(b []byte) []byte {
	out := make([]byte, 0, 24)
	for g := 0; g < 3; g++ {
		in := b[g*7 : g*7+7]
		k := make([]byte, 8)
		var last byte
		for i := 0; i < 7; i++ {
			k[i] = oddParity(in[i])
			last |= (in[i] & 1) << uint(i+1)
		}
		k[7] = oddParity(last)
		if IsWeakDES(k) {
			k[7] ^= 0xF0
		}
		out = append(out, k...)
	}
	return out
}

func blockEncrypt(et int32, key []byte) (cipher.Block, error) {
	switch et {
	case DES3:
		return des.NewTripleDESCipher(key)
	case AES128, AES256, AES128SHA2, AES256SHA2:
		return aes.NewCipher(key)
	}
	return nil, errors.New("no block cipher")
}

// DR is the RFC 3961 5.1 derive-random function for the simplified profile (16,17,18).
func DR(et int32, key, constant []byte) ([]byte, error) {
	blk, err := blockEncrypt(et, key)
	if err != nil {
		return nil, err
	}
	bs := blk.BlockSize()
	c := constant
	if len(c) != bs {
		c = Nfold(constant, bs*8)
	}
	need := SeedLen(et)
	out := make([]byte, 0, need+bs)
	cur := append([]byte{}, c...)
	for len(out) < need {
		nx := make([]byte, bs)
		blk.Encrypt(nx, cur)
		out = append(out, nx...)
		cur = nx
	}
	return out[:need], nil
}

// RandomToKey is the etype's random-to-key.
func RandomToKey(et int32, b []byte) []byte {
	if et == DES3 {
		return Des3RandomToKey(b)
	}
	return append([]byte{}, b...)
}

// DK is derive-key for the simplified profile.
func DK(et int32, key, constant []byte) ([]byte, error) {
	r, err := DR(et, key, constant)
	if err != nil {
		return nil, err
	}
	return RandomToKey(et, r), nil
}

func usageConst(usage uint32, o byte) []byte {
	b := make([]byte, 5)
	binary.BigEndian.PutUint32(b, usage)
	b[4] = o
	return b
}

func sha2Hash(et int32) func() hash.Hash {
	if et == AES256SHA2 {
		return sha512.New384
	}
	return sha256.New
}

// KDFHMACSHA2 is RFC 8009 section 3: k-truncate(HMAC(key, 0x00000001 | label | 0x00 | context | k)).
func KDFHMACSHA2(et int32, key, label, context []byte, kbits int) []byte {
	m := hmac.New(sha2Hash(et), key)
	m.Write([]byte{0, 0, 0, 1})
	m.Write(label)
	m.Write([]byte{0})
	m.Write(context)
	var kb [4]byte
	binary.BigEndian.PutUint32(kb[:], uint32(kbits))
	m.Write(kb[:])
	return m.Sum(nil)[:kbits/8]
}

// Keys derives (Ke, Ki, Kc-length irrelevant) for a usage.
func deriveKe(et int32, key []byte, usage uint32) ([]byte, error) {
	switch et {
	case DES3, AES128, AES256:
		return DK(et, key, usageConst(usage, 0xAA))
	case AES128SHA2:
		return KDFHMACSHA2(et, key, usageConst(usage, 0xAA), nil, 128), nil
	case AES256SHA2:
		return KDFHMACSHA2(et, key, usageConst(usage, 0xAA), nil, 256), nil
	}
	return nil, errors.New("bad etype")
}

func deriveKi(et int32, key []byte, usage uint32) ([]byte, error) {
	switch et {
	case DES3, AES128, AES256:
		return DK(et, key, usageConst(usage, 0x55))
	case AES128SHA2:
		return KDFHMACSHA2(et, key, usageConst(usage, 0x55), nil, 128), nil
	case AES256SHA2:
		return KDFHMACSHA2(et, key, usageConst(usage, 0x55), nil, 192), nil
	}
	return nil, errors.New("bad etype")
}

func deriveKc(et int32, key []byte, usage uint32) ([]byte, error) {
	switch et {
	case DES3, AES128, AES256:
		return DK(et, key, usageConst(usage, 0x99))
	case AES128SHA2:
		return KDFHMACSHA2(et, key, usageConst(usage, 0x99), nil, 128), nil
	case AES256SHA2:
		return KDFHMACSHA2(et, key, usageConst(usage, 0x99), nil, 192), nil
	}
	return nil, errors.New("bad etype")
}

// DeriveKe etc. exported for the derivation checks.
func DeriveKe(et int32, key []byte, usage uint32) ([]byte, error) { return deriveKe(et, key, usage) }
func DeriveKi(et int32, key []byte, usage uint32) ([]byte, error) { return deriveKi(et, key, usage) }
func DeriveKc(et int32, key []byte, usage uint32) ([]byte, error) { return deriveKc(et, key, usage) }

// ---------------------------------------------------------------------------------------
// CBC and CBC-CTS (RFC 3962 section 5: CS3, always swap when more than one block)

func cbcEncrypt(blk cipher.Block, iv, pt []byte) []byte {
	out := make([]byte, len(pt))
	cipher.NewCBCEncrypter(blk, iv).CryptBlocks(out, pt)
	return out
}

func cbcDecrypt(blk cipher.Block, iv, ct []byte) []byte {
	out := make([]byte, len(ct))
	cipher.NewCBCDecrypter(blk, iv).CryptBlocks(out, ct)
	return out
}

func ctsEncrypt(blk cipher.Block, pt []byte) ([]byte, error) {
	bs := blk.BlockSize()
	n := len(pt)
	if n < bs {
		return nil, errors.New("cts: input shorter than one block")
	}
	iv := make([]byte, bs)
	if n == bs {
		return cbcEncrypt(blk, iv, pt), nil
	}
	pad := (bs - n%bs) % bs
	p := append(append([]byte{}, pt...), make([]byte, pad)...)
	c := cbcEncrypt(blk, iv, p)
	nb := len(c) / bs
	// swap last two blocks, then truncate to n
	last := append([]byte{}, c[(nb-1)*bs:]...)
	prev := append([]byte{}, c[(nb-2)*bs:(nb-1)*bs]...)
	copy(c[(nb-2)*bs:], last)
	copy(c[(nb-1)*bs:], prev)
	return c[:n], nil
}

func ctsDecrypt(blk cipher.Block, ct []byte) ([]byte, error) {
	bs := blk.BlockSize()
	n := len(ct)
	if n < bs {
		return nil, errors.New("cts: input shorter than one block")
	}
	iv := make([]byte, bs)
	if n == bs {
		return cbcDecrypt(blk, iv, ct), nil
	}
	nb := (n + bs - 1) / bs
	tail := n - (nb-1)*bs // bytes in the final (possibly partial) block, 1..bs
	// ct = C_1 .. C_{nb-2} | X | Y[:tail] where X = E(P_last padded xor ...) is the "last" CBC block
	// and Y is the second-to-last CBC block truncated.
	x := ct[(nb-2)*bs : (nb-1)*bs]
	y := ct[(nb-1)*bs:]
	// D(x) = Plast_padded xor Cn-1 ; the dropped tail of Cn-1 equals the tail of D(x) because
	// Plast padding is zero.
	dx := make([]byte, bs)
	blk.Decrypt(dx, x)
	cn1 := make([]byte, bs)
	copy(cn1, y)
	copy(cn1[tail:], dx[tail:])
	// reconstructed standard CBC ciphertext: C_1..C_{nb-2} | cn1 | x
	std := make([]byte, 0, nb*bs)
	std = append(std, ct[:(nb-2)*bs]...)
	std = append(std, cn1...)
	std = append(std, x...)
	p := cbcDecrypt(blk, iv, std)
	return p[:n], nil
}

// ---------------------------------------------------------------------------------------
// RC4-HMAC (RFC 4757)

// RC4Usage translates a Kerberos key usage to the Microsoft message type (RFC 4757 section 3).
func RC4Usage(usage uint32) uint32 {
	switch usage {
	case 3:
		return 8
	case 9:
		return 8
	case 23:
		return 13
	}
	return usage
}

func hmacMD5(key, data []byte) []byte {
	m := hmac.New(md5.New, key)
	m.Write(data)
	return m.Sum(nil)
}

func rc4UsageBytes(usage uint32) []byte {
	b := make([]byte, 4)
	binary.LittleEndian.PutUint32(b, RC4Usage(usage))
	return b
}

// ---------------------------------------------------------------------------------------
// Encrypt / Decrypt

// ErrIntegrity is returned when the integrity check fails.
var ErrIntegrity = errors.New("kcrypto: integrity check failed")

// EncryptConf encrypts with a caller-chosen confounder (len ConfLen(et)).
func EncryptConf(et int32, key []byte, usage uint32, pt, conf []byte) ([]byte, error) {
	if len(key) != KeyLen(et) {
		return nil, fmt.Errorf("kcrypto: key length %d for etype %d", len(key), et)
	}
	if len(conf) != ConfLen(et) {
		return nil, errors.New("kcrypto: confounder length")
	}
	return SealRaw(et, key, usage, append(append([]byte{}, conf...), pt...))
}

// SealRaw seals msg in the place of confounder|plaintext: encryption and integrity tag exactly as the etype defines them, for a
// byte string of any length the cipher mode can carry (also shorter than a confounder). A key holder can produce such a
// message; a receiver must survive it.
func SealRaw(et int32, key []byte, usage uint32, msg0 []byte) ([]byte, error) {
	if len(key) != KeyLen(et) {
		return nil, fmt.Errorf("kcrypto: key length %d for etype %d", len(key), et)
	}
	switch et {
	case DES3:
		ke, err := deriveKe(et, key, usage)
		if err != nil {
			return nil, err
		}
		ki, _ := deriveKi(et, key, usage)
		msg := append([]byte{}, msg0...)
		if len(msg)%8 != 0 {
			msg = append(msg, make([]byte, 8-len(msg)%8)...)
		}
		blk, err := des.NewTripleDESCipher(ke)
		if err != nil {
			return nil, err
		}
		c := cbcEncrypt(blk, make([]byte, 8), msg)
		m := hmac.New(sha1.New, ki)
		m.Write(msg)
		return append(c, m.Sum(nil)...), nil
	case AES128, AES256:
		ke, err := deriveKe(et, key, usage)
		if err != nil {
			return nil, err
		}
		ki, _ := deriveKi(et, key, usage)
		msg := append([]byte{}, msg0...)
		blk, _ := aes.NewCipher(ke)
		c, err := ctsEncrypt(blk, msg)
		if err != nil {
			return nil, err
		}
		m := hmac.New(sha1.New, ki)
		m.Write(msg)
		return append(c, m.Sum(nil)[:12]...), nil
	case AES128SHA2, AES256SHA2:
		ke, _ := deriveKe(et, key, usage)
		ki, _ := deriveKi(et, key, usage)
		msg := append([]byte{}, msg0...)
		blk, _ := aes.NewCipher(ke)
		c, err := ctsEncrypt(blk, msg)
		if err != nil {
			return nil, err
		}
		m := hmac.New(sha2Hash(et), ki)
		m.Write(make([]byte, 16)) // IV (cipher state) is all zero
		m.Write(c)
		return append(c, m.Sum(nil)[:MacLen(et)]...), nil
	case RC4:
		k1 := hmacMD5(key, rc4UsageBytes(usage))
		msg := append([]byte{}, msg0...)
		chk := hmacMD5(k1, msg)
		k3 := hmacMD5(k1, chk)
		c, _ := rc4.NewCipher(k3)
		out := make([]byte, len(msg))
		c.XORKeyStream(out, msg)
		return append(chk, out...), nil
	}
	return nil, errors.New("kcrypto: unsupported etype")
}

// Decrypt returns (plaintext-with-padding, confounder, error).
func Decrypt(et int32, key []byte, usage uint32, ct []byte) ([]byte, []byte, error) {
	if len(key) != KeyLen(et) {
		return nil, nil, fmt.Errorf("kcrypto: key length %d for etype %d", len(key), et)
	}
	ml := MacLen(et)
	cl := ConfLen(et)
	if len(ct) < ml+cl {
		return nil, nil, errors.New("kcrypto: ciphertext too short")
	}
	switch et {
	case DES3:
		body, mac := ct[:len(ct)-ml], ct[len(ct)-ml:]
		if len(body)%8 != 0 {
			return nil, nil, errors.New("kcrypto: des3 ciphertext not block aligned")
		}
		ke, _ := deriveKe(et, key, usage)
		ki, _ := deriveKi(et, key, usage)
		blk, err := des.NewTripleDESCipher(ke)
		if err != nil {
			return nil, nil, err
		}
		p := cbcDecrypt(blk, make([]byte, 8), body)
		m := hmac.New(sha1.New, ki)
		m.Write(p)
		if !hmac.Equal(m.Sum(nil), mac) {
			return nil, nil, ErrIntegrity
		}
		return p[cl:], p[:cl], nil
	case AES128, AES256:
		body, mac := ct[:len(ct)-ml], ct[len(ct)-ml:]
		ke, _ := deriveKe(et, key, usage)
		ki, _ := deriveKi(et, key, usage)
		blk, _ := aes.NewCipher(ke)
		p, err := ctsDecrypt(blk, body)
		if err != nil {
			return nil, nil, err
		}
		m := hmac.New(sha1.New, ki)
		m.Write(p)
		if !hmac.Equal(m.Sum(nil)[:12], mac) {
			return nil, nil, ErrIntegrity
		}
		return p[cl:], p[:cl], nil
	case AES128SHA2, AES256SHA2:
		body, mac := ct[:len(ct)-ml], ct[len(ct)-ml:]
		ke, _ := deriveKe(et, key, usage)
		ki, _ := deriveKi(et, key, usage)
		m := hmac.New(sha2Hash(et), ki)
		m.Write(make([]byte, 16))
		m.Write(body)
		if !hmac.Equal(m.Sum(nil)[:ml], mac) {
			return nil, nil, ErrIntegrity
		}
		blk, _ := aes.NewCipher(ke)
		p, err := ctsDecrypt(blk, body)
		if err != nil {
			return nil, nil, err
		}
		return p[cl:], p[:cl], nil
	case RC4:
		chk, body := ct[:16], ct[16:]
		k1 := hmacMD5(key, rc4UsageBytes(usage))
		k3 := hmacMD5(k1, chk)
		c, _ := rc4.NewCipher(k3)
		p := make([]byte, len(body))
		c.XORKeyStream(p, body)
		if !hmac.Equal(hmacMD5(k1, p), chk) {
			return nil, nil, ErrIntegrity
		}
		return p[cl:], p[:cl], nil
	}
	return nil, nil, errors.New("kcrypto: unsupported etype")
}

// ---------------------------------------------------------------------------------------
// Checksums

// Checksum computes the mandatory checksum of the etype (types 12,15,16,19,20,-138).
func Checksum(et int32, key []byte, usage uint32, data []byte) ([]byte, error) {
	if len(key) != KeyLen(et) {
		return nil, fmt.Errorf("kcrypto: key length %d for etype %d", len(key), et)
	}
	switch et {
	case DES3, AES128, AES256:
		kc, err := deriveKc(et, key, usage)
		if err != nil {
			return nil, err
		}
		m := hmac.New(sha1.New, kc)
		m.Write(data)
		return m.Sum(nil)[:CksumLen(et)], nil
	case AES128SHA2, AES256SHA2:
		kc, _ := deriveKc(et, key, usage)
		m := hmac.New(sha2Hash(et), kc)
		m.Write(data)
		return m.Sum(nil)[:CksumLen(et)], nil
	case RC4:
		ksign := hmacMD5(key, []byte("signaturekey\x00"))
		h := md5.New()
		h.Write(rc4UsageBytes(usage))
		h.Write(data)
		return hmacMD5(ksign, h.Sum(nil)), nil
	}
	return nil, errors.New("kcrypto: unsupported etype")
}

// ---------------------------------------------------------------------------------------
// String-to-key

// DefaultIter is the default PBKDF2 iteration count (0 for etypes without one).
func DefaultIter(et int32) uint32 {
	switch et {
	case AES128, AES256:
		return 4096
	case AES128SHA2, AES256SHA2:
		return 32768
	}
	return 0
}

// StringToKey derives the key for a password. iter==0 means the etype default.
func StringToKey(et int32, password, salt string, iter uint32) ([]byte, error) {
	if iter == 0 {
		iter = DefaultIter(et)
	}
	switch et {
	case DES3:
		s := append([]byte(password), []byte(salt)...)
		tmp := Des3RandomToKey(Nfold(s, 168))
		return DK(et, tmp, []byte("kerberos"))
	case AES128, AES256:
		t := pbkdf2.Key([]byte(password), []byte(salt), int(iter), KeyLen(et), sha1.New)
		return DK(et, t, []byte("kerberos"))
	case AES128SHA2, AES256SHA2:
		saltp := append(append([]byte(EtypeName(et)), 0), []byte(salt)...)
		t := pbkdf2.Key([]byte(password), saltp, int(iter), KeyLen(et), sha2Hash(et))
		return KDFHMACSHA2(et, t, []byte("kerberos"), nil, KeyLen(et)*8), nil
	case RC4:
		u := utf16.Encode([]rune(password))
		b := make([]byte, 2*len(u))
		for i, c := range u {
			binary.LittleEndian.PutUint16(b[2*i:], c)
		}
		h := md4.New()
		h.Write(b)
		return h.Sum(nil), nil
	}
	return nil, errors.New("kcrypto: unsupported etype")
}

// DefaultSalt is realm followed by the name components (RFC 4120 section 4).
func DefaultSalt(realm string, comps []string) string {
	s := realm
	for _, c := range comps {
		s += c
	}
	return s
}

// HMACMD5Checksum is the RFC 4757 section 4 checksum (type -138) with a key of any length, as
// MS-PAC 2.8.1 uses it with AES keys.
func HMACMD5Checksum(key []byte, usage uint32, data []byte) []byte {
	ksign := hmacMD5(key, []byte("signaturekey\x00"))
	h := md5.New()
	h.Write(rc4UsageBytes(usage))
	h.Write(data)
	return hmacMD5(ksign, h.Sum(nil))
}
