package kcrypto

import (
	"bufio"
	"bytes"
	"encoding/binary"
	"encoding/hex"
	"fmt"
	"io"
	"os"
	"os/exec"
	"path/filepath"
	"strings"
	"testing"
)

// TestJDKSecondOpinion cross-checks the reference against the JDK's sun.security.krb5 implementation (a second,
// independent implementation: different authors, language and crypto stack). Skipped when no JDK is present.
func TestJDKSecondOpinion(t *testing.T) {
	javac, err1 := exec.LookPath("javac")
	java, err2 := exec.LookPath("java")
	if err1 != nil || err2 != nil {
		t.Skip("no JDK")
	}
	src := ""
	for _, c := range []string{"../../../jref", "/verif/jref"} {
		if _, err := os.Stat(filepath.Join(c, "KCrypto.java")); err == nil {
			src, _ = filepath.Abs(c)
			break
		}
	}
	if src == "" {
		t.Skip("jref sources not found")
	}
	cls := t.TempDir()
	exports := []string{"--add-exports", "java.security.jgss/sun.security.krb5.internal.crypto=ALL-UNNAMED", "--add-exports", "java.security.jgss/sun.security.krb5=ALL-UNNAMED"}
	if out, err := exec.Command(javac, append(append([]string{"-encoding", "UTF-8"}, exports...), "-d", cls, filepath.Join(src, "KCrypto.java"))...).CombinedOutput(); err != nil {
		t.Skipf("javac failed: %v %s", err, out)
	}
	cmd := exec.Command(java, append(exports, "-Djava.security.krb5.conf="+filepath.Join(src, "krb5.conf"), "-cp", cls, "KCrypto")...)
	stdin, _ := cmd.StdinPipe()
	stdout, _ := cmd.StdoutPipe()
	cmd.Stderr = io.Discard
	if err := cmd.Start(); err != nil {
		t.Skipf("java: %v", err)
	}
	defer func() { stdin.Close(); cmd.Wait() }()
	rd := bufio.NewReader(stdout)
	ask := func(f string, a ...any) string {
		fmt.Fprintf(stdin, f+"\n", a...)
		l, err := rd.ReadString('\n')
		if err != nil {
			t.Fatalf("jdk bridge died: %v", err)
		}
		return strings.TrimSpace(l)
	}
	hx := func(b []byte) string {
		if len(b) == 0 {
			return "-"
		}
		return hex.EncodeToString(b)
	}
	unhx := func(s string) []byte {
		if s == "-" {
			return nil
		}
		b, err := hex.DecodeString(s)
		if err != nil {
			t.Fatalf("bad hex from jdk: %q", s)
		}
		return b
	}
	seed := uint64(42)
	rnd := func(n int) []byte {
		b := make([]byte, n)
		for i := range b {
			seed = seed*6364136223846793005 + 1442695040888963407
			b[i] = byte(seed >> 33)
		}
		return b
	}
	n := 0
	for _, et := range Etypes {
		key := RandomToKey(et, rnd(SeedLen(et)))
		for _, l := range []int{0, 1, 7, 8, 15, 16, 17, 31, 32, 33, 100} {
			for _, usage := range []uint32{1, 2, 3, 7, 8, 9, 11, 13, 23, 127, 128, 1024} {
				pt := rnd(l)
				// reference encrypts, JDK decrypts
				ct, err := EncryptConf(et, key, usage, pt, rnd(ConfLen(et)))
				if err != nil {
					t.Fatal(err)
				}
				got := ask("dec %d %s %d %s", et, hx(key), usage, hx(ct))
				if strings.HasPrefix(got, "ERR") || !bytes.HasPrefix(unhx(got), pt) || len(unhx(got))-len(pt) >= 8 {
					t.Fatalf("JDK cannot decrypt reference ciphertext et=%d len=%d usage=%d: %s", et, l, usage, got)
				}
				// JDK encrypts, reference decrypts
				jc := ask("enc %d %s %d %s", et, hx(key), usage, hx(pt))
				if strings.HasPrefix(jc, "ERR") {
					if l == 0 {
						continue // the JDK refuses empty plaintexts for some etypes
					}
					t.Fatalf("JDK encrypt et=%d len=%d usage=%d: %s", et, l, usage, jc)
				}
				p2, _, err := Decrypt(et, key, usage, unhx(jc))
				if err != nil || !bytes.HasPrefix(p2, pt) {
					t.Fatalf("reference cannot decrypt JDK ciphertext et=%d len=%d usage=%d: %v", et, l, usage, err)
				}
				// checksums
				want, _ := Checksum(et, key, usage, pt)
				jk := ask("cks %d %s %d %s", CksumTypeOf[et], hx(key), usage, hx(pt))
				if jk != hx(want) {
					t.Fatalf("checksum type %d len=%d usage=%d: JDK %s reference %x", CksumTypeOf[et], l, usage, jk, want)
				}
				n += 3
			}
		}
	}
	// string-to-key
	for _, et := range Etypes {
		for _, pw := range []string{"password", "pässwörd-ÿ-ß", "пароль-密碼", "\U0001D11E-clef-\U0001F511", "x"} {
			for _, salt := range []string{"TEST.GOKRB5testuser1", "RÉALM.ÉXAMPLEjürgen", "EXAMPLE.COMhostserver.example.com"} {
				iters := []uint32{0}
				switch et {
				case AES128, AES256:
					iters = []uint32{0, 4096, 5000, 10000}
				case AES128SHA2, AES256SHA2:
					iters = []uint32{0, 32768, 40000}
				}
				for _, it := range iters {
					params := "-"
					if it != 0 {
						b := make([]byte, 4)
						binary.BigEndian.PutUint32(b, it)
						params = hex.EncodeToString(b)
					}
					want, err := StringToKey(et, pw, salt, it)
					if err != nil {
						t.Fatal(err)
					}
					got := ask("s2k %d %s %s %s", et, hx([]byte(pw)), hx([]byte(salt)), params)
					if strings.HasPrefix(got, "ERR") && strings.Contains(got, "iteration count") {
						continue
					}
					if got != hx(want) {
						t.Fatalf("s2k et=%d pw=%q salt=%q iter=%d: JDK %s reference %x", et, pw, salt, it, got, want)
					}
					n++
				}
			}
		}
	}
	t.Logf("%d values agreed with the JDK", n)
}
