package keytab

import (
	"bytes"
	"encoding/hex"
	"fmt"
	"os"
	"os/exec"
	"path/filepath"
	"regexp"
	"strings"
	"testing"
)

func TestSelfTest(t *testing.T) {
	if err := SelfTest(); err != nil {
		t.Fatal(err)
	}
}

// TestMITSamples reads the MIT-generated keytabs published as hex constants in the test data of
// the library under test (read as text, nothing is imported) and checks that the reference
// reader consumes them completely, finds plausible entries, and that the reference writer
// reproduces each file byte for byte.
func TestMITSamples(t *testing.T) {
	const path = "/repo/v8/test/testdata/test_vectors.go"
	src, err := os.ReadFile(path)
	if err != nil {
		t.Skip("test vectors not available: " + err.Error())
	}
	re := regexp.MustCompile(`(?m)^\s*([A-Z0-9_]*KEYTAB[A-Z0-9_]*)\s*=\s*"([0-9a-fA-F]+)"`)
	ms := re.FindAllStringSubmatch(string(src), -1)
	if len(ms) < 8 {
		t.Fatalf("only %d keytab constants found", len(ms))
	}
	total := 0
	for _, m := range ms {
		name := m[1]
		b, err := hex.DecodeString(m[2])
		if err != nil {
			t.Fatalf("%s: %v", name, err)
		}
		ver, items, err := ReadItems(b)
		if err != nil {
			t.Fatalf("%s: %v", name, err)
		}
		if ver != 2 || len(items) == 0 {
			t.Fatalf("%s: version %d, %d items", name, ver, len(items))
		}
		for i, it := range items {
			if it.Entry == nil {
				continue
			}
			e := it.Entry
			total++
			if !strings.HasSuffix(e.Realm, "GOKRB5") || len(e.Components) < 1 || len(e.Components) > 2 || e.NameType != 1 {
				t.Fatalf("%s entry %d: implausible principal %q %q type %d", name, i, e.Realm, e.Components, e.NameType)
			}
			wantLen := map[uint16]int{17: 16, 18: 32, 19: 16, 20: 32, 23: 16, 16: 24, 1: 8, 3: 8}[e.KeyType]
			if wantLen == 0 || len(e.Key) != wantLen {
				t.Fatalf("%s entry %d: key type %d with %d key bytes", name, i, e.KeyType, len(e.Key))
			}
			if e.Timestamp < 1400000000 || e.Timestamp > 1700000000 {
				t.Fatalf("%s entry %d: implausible timestamp %d", name, i, e.Timestamp)
			}
			if e.Kvno() != uint32(e.Vno8) || len(e.Trailing) != 0 {
				t.Fatalf("%s entry %d: kvno %d vno8 %d trailing %x", name, i, e.Kvno(), e.Vno8, e.Trailing)
			}
		}
		back, err := Write(ver, items)
		if err != nil || !bytes.Equal(back, b) {
			t.Fatalf("%s: writer does not reproduce the MIT file (err %v)", name, err)
		}
		// the same content as version 1 survives a write/read cycle (name type dropped)
		v1, err := Write(1, items)
		if err != nil {
			t.Fatal(err)
		}
		ver1, items1, err := ReadItems(v1)
		if err != nil || ver1 != 1 || len(items1) != len(items) {
			t.Fatalf("%s as version 1: %v", name, err)
		}
		for i := range items {
			if items[i].Entry == nil {
				continue
			}
			w := *items[i].Entry
			w.NameType = 0
			if f := EqualEntry(items1[i].Entry, &w); f != "" {
				t.Fatalf("%s as version 1: entry %d differs in %s", name, i, f)
			}
		}
	}
	t.Logf("%d MIT keytab constants, %d entries", len(ms), total)
	// spot values documented in the library's own tests
	for _, m := range ms {
		if m[1] != "KEYTAB_TESTUSER1_TEST_GOKRB5" {
			continue
		}
		b, _ := hex.DecodeString(m[2])
		_, es, _ := Read(b)
		i, ok := Lookup(es, Query{Realm: "TEST.GOKRB5", Components: []string{"testuser1"}, Kvno: 1, KeyType: 18})
		if !ok || len(es[i].Key) != 32 {
			t.Fatalf("lookup of testuser1 aes256 kvno 1 failed")
		}
		if _, ok := Lookup(es, Query{Realm: "TEST.GOKRB5", Components: []string{"testuser2"}, Kvno: 1, KeyType: 18}); ok {
			t.Fatalf("lookup of absent principal succeeded")
		}
	}
}

const javaSrc = `
import java.io.File;
import sun.security.krb5.PrincipalName;
import sun.security.krb5.internal.ktab.KeyTab;
import sun.security.krb5.internal.ktab.KeyTabEntry;

public class KtDump {
    static String hex(byte[] b) { StringBuilder s = new StringBuilder(); for (byte x : b) s.append(String.format("%02x", x)); return s.toString(); }
    public static void main(String[] a) throws Exception {
        if (a[0].equals("write")) {
            KeyTab kt = KeyTab.create(a[1]);
            kt.addEntry(new PrincipalName("host/a.example.com@EXAMPLE.COM"), "password".toCharArray(), 200, true);
            kt.addEntry(new PrincipalName("user@EXAMPLE.COM"), "password".toCharArray(), 2, true);
            kt.save();
            return;
        }
        for (int i = 1; i < a.length; i++) {
            KeyTab kt = KeyTab.getInstance(new File(a[i]));
            if (!kt.isValid()) { System.out.println("FILE " + i + " INVALID"); continue; }
            KeyTabEntry[] es = kt.getEntries();
            System.out.println("FILE " + i + " " + es.length);
            for (KeyTabEntry e : es) {
                PrincipalName p = e.getService();
                System.out.println(p.getRealmString() + "|" + String.join("/", p.getNameStrings()) + "|" + p.getNameType() + "|" +
                    e.getTimeStamp().getSeconds() + "|" + e.getKey().getKeyVersionNumber() + "|" + e.getKey().getEType() + "|" + hex(e.getKey().getBytes()));
            }
        }
    }
}
`

// TestJDKSecondOpinion lets the JDK's own keytab reader (an implementation unrelated to the
// library under test and to this package) read version-2 files produced by the reference
// writer, with holes, with / without the 32-bit key version and with ignored trailing bytes,
// and lets the reference reader read a file the JDK wrote.
// Version 1 is not compared: the JDK 17 reader (KeyTabInputStream.readEntry) reads a 32-bit name
// type in version-1 entries too, contrary to the MIT format description and MIT's kt_file.c
// ("name type: omitted in version 1"), and therefore rejects every version-1 entry.
func TestJDKSecondOpinion(t *testing.T) {
	javac, err1 := exec.LookPath("javac")
	java, err2 := exec.LookPath("java")
	if err1 != nil || err2 != nil {
		t.Skip("no JDK")
	}
	dir := t.TempDir()
	if err := os.WriteFile(filepath.Join(dir, "KtDump.java"), []byte(javaSrc), 0o644); err != nil {
		t.Fatal(err)
	}
	conf := filepath.Join(dir, "krb5.conf")
	os.WriteFile(conf, []byte("[libdefaults]\n default_realm = EXAMPLE.COM\n allow_weak_crypto = true\n[realms]\n EXAMPLE.COM = {\n  kdc = 127.0.0.1\n }\n"), 0o644)
	exports := []string{
		"--add-exports", "java.security.jgss/sun.security.krb5.internal.ktab=ALL-UNNAMED",
		"--add-exports", "java.security.jgss/sun.security.krb5=ALL-UNNAMED",
		"--add-exports", "java.security.jgss/sun.security.krb5.internal=ALL-UNNAMED",
	}
	if out, err := exec.Command(javac, append(append([]string{"-encoding", "UTF-8", "-d", dir}, exports...), filepath.Join(dir, "KtDump.java"))...).CombinedOutput(); err != nil {
		t.Skipf("javac failed: %v\n%s", err, out)
	}
	// deterministic little generator
	x := uint64(0x9E3779B97F4A7C15)
	next := func(n int) int {
		x ^= x << 13
		x ^= x >> 7
		x ^= x << 17
		return int(x % uint64(n))
	}
	realms := []string{"EXAMPLE.COM", "TEST.GOKRB5", "a.b.c"}
	names := [][]string{{"user"}, {"host", "a.example.com"}, {"HTTP", "b.example.com"}, {"a", "b", "c"}}
	etypes := []uint16{17, 18, 23, 16, 19, 20}
	klen := map[uint16]int{17: 16, 18: 32, 23: 16, 16: 24, 19: 16, 20: 32}
	type file struct {
		ver   int
		items []Item
	}
	var files []file
	args := append(append([]string{}, exports...), "-Djava.security.krb5.conf="+conf, "-cp", dir, "KtDump", "read")
	for f := 0; f < 40; f++ {
		fl := file{ver: 2}
		n := next(6)
		for i := 0; i < n; i++ {
			if next(3) == 0 {
				fl.items = append(fl.items, Item{Hole: make([]byte, 1+next(40))})
			}
			et := etypes[next(len(etypes))]
			key := make([]byte, klen[et])
			for k := range key {
				key[k] = byte(next(256))
			}
			e := &Entry{Realm: realms[next(len(realms))], Components: names[next(len(names))], NameType: uint32(1 + next(3)),
				Timestamp: uint32(1 + next(0x7ffffff0)), Vno8: uint8(next(256)), KeyType: et, Key: key}
			switch next(4) {
			case 0:
				e.HasVno32, e.Vno32 = true, uint32(e.Vno8)
			case 1:
				e.HasVno32, e.Vno32 = true, uint32(256+next(1<<30))
			case 2:
				e.HasVno32, e.Vno32 = true, 0
			}
			if e.HasVno32 && next(4) == 0 {
				e.Trailing = make([]byte, 1+next(6))
			}
			fl.items = append(fl.items, Item{Entry: e})
		}
		if next(3) == 0 {
			fl.items = append(fl.items, Item{Hole: make([]byte, 1+next(40))})
		}
		b, err := Write(fl.ver, fl.items)
		if err != nil {
			t.Fatal(err)
		}
		p := filepath.Join(dir, fmt.Sprintf("f%d.keytab", f))
		os.WriteFile(p, b, 0o600)
		args = append(args, p)
		files = append(files, fl)
	}
	out, err := exec.Command(java, args...).CombinedOutput()
	if err != nil {
		t.Fatalf("java: %v\n%s", err, out)
	}
	var want strings.Builder
	nEntries := 0
	for i, fl := range files {
		var es []*Entry
		for _, it := range fl.items {
			if it.Entry != nil {
				es = append(es, it.Entry)
			}
		}
		fmt.Fprintf(&want, "FILE %d %d\n", i+1, len(es))
		for _, e := range es {
			nt := e.NameType
			fmt.Fprintf(&want, "%s|%s|%d|%d|%d|%d|%x\n", e.Realm, strings.Join(e.Components, "/"), nt, e.Timestamp, e.Kvno(), e.KeyType, e.Key)
			nEntries++
		}
	}
	got := strings.ReplaceAll(string(out), "\r", "")
	if os.Getenv("KTDEBUG") != "" {
		t.Log(got)
		t.Log(want.String())
	}
	if got != want.String() {
		gl, wl := strings.Split(got, "\n"), strings.Split(want.String(), "\n")
		for i := 0; i < len(gl) && i < len(wl); i++ {
			if gl[i] != wl[i] {
				t.Fatalf("JDK disagrees at line %d:\n jdk: %s\n ref: %s", i, gl[i], wl[i])
			}
		}
		t.Fatalf("JDK output has %d lines, expected %d", len(gl), len(wl))
	}
	t.Logf("JDK read %d reference-written files (%d entries) identically", len(files), nEntries)

	// the other direction: a file written by the JDK
	jp := filepath.Join(dir, "jdk.keytab")
	wargs := append(append([]string{}, exports...), "-Djava.security.krb5.conf="+conf, "-cp", dir, "KtDump", "write", jp)
	if out, err := exec.Command(java, wargs...).CombinedOutput(); err != nil {
		t.Fatalf("java write: %v\n%s", err, out)
	}
	jb, err := os.ReadFile(jp)
	if err != nil {
		t.Fatal(err)
	}
	ver, es, err := Read(jb)
	if err != nil || ver != 2 || len(es) < 2 {
		t.Fatalf("JDK-written keytab: version %d, %d entries, %v", ver, len(es), err)
	}
	n300, n2 := 0, 0
	for _, e := range es {
		switch {
		case e.Realm == "EXAMPLE.COM" && len(e.Components) == 2 && e.Components[0] == "host" && e.Components[1] == "a.example.com" && e.Kvno() == 200: // the JDK writer stores only the 8-bit version
			n300++
		case e.Realm == "EXAMPLE.COM" && len(e.Components) == 1 && e.Components[0] == "user" && e.Kvno() == 2:
			n2++
		default:
			t.Fatalf("unexpected entry in JDK-written keytab: %+v", e)
		}
	}
	if n300 == 0 || n2 == 0 {
		t.Fatalf("JDK-written keytab: %d/%d entries recognised", n300, n2)
	}
	t.Logf("reference read the JDK-written file: %d entries", len(es))
}
