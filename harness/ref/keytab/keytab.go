// Package keytab is the reference model (oracle) of the MIT keytab file format, versions
// 0x0501 and 0x0502, written from the format description only
// (https://web.mit.edu/kerberos/krb5-devel/doc/formats/keytab_file_format.html).
// It imports nothing from the library under test.
//
// File layout:
//
//	byte 0x05, byte version (1 or 2)
//	records: int32 length L
//	           L > 0 : an entry of L bytes
//	           L < 0 : a hole (deleted entry) of -L bytes to skip
//	           L = 0 : end of the list (MIT's reader stops there; the writer here never emits it)
//	entry:   uint16 count        version 1: number of components + 1 (the realm is counted)
//	                             version 2: number of components
//	         uint16 len, realm bytes
//	         count x (uint16 len, component bytes)
//	         uint32 name type    (absent in version 1)
//	         uint32 timestamp
//	         uint8  vno8
//	         uint16 key type
//	         uint16 len, key bytes
//	         uint32 vno          present iff at least 4 bytes remain in the record; when present and
//	                             non-zero it overrides vno8
//	         any further bytes of the record are ignored
//
// Version 1 stores all integers in the byte order of the writing host (this host's native
// order here), version 2 in big-endian order.
package keytab

import (
	"bytes"
	"encoding/binary"
	"encoding/hex"
	"errors"
	"fmt"
)

// Entry is one key entry exactly as stored.
type Entry struct {
	Realm      string
	Components []string
	NameType   uint32 // not stored in version 1 (read back as 0)
	Timestamp  uint32
	Vno8       uint8
	KeyType    uint16
	Key        []byte
	HasVno32   bool   // the optional 32-bit key version field is present
	Vno32      uint32 // its value
	Trailing   []byte // ignored bytes after the last field (at most 3 when HasVno32 is false)
}

// Kvno is the effective key version: the 32-bit field when present and non-zero, else vno8.
func (e *Entry) Kvno() uint32 {
	if e.HasVno32 && e.Vno32 != 0 {
		return e.Vno32
	}
	return uint32(e.Vno8)
}

// Item is one record of a file: a hole (Entry == nil, Hole = the skipped bytes, at least one) or an entry.
type Item struct {
	Hole  []byte
	Entry *Entry
}

// ByteOrder is a byte order that can both decode and append.
type ByteOrder interface {
	binary.ByteOrder
	binary.AppendByteOrder
}

// Order returns the integer byte order of a format version.
func Order(version int) (ByteOrder, error) {
	switch version {
	case 1:
		return binary.NativeEndian, nil
	case 2:
		return binary.BigEndian, nil
	}
	return nil, fmt.Errorf("refkeytab: unknown format version %d", version)
}

type wr struct {
	b  []byte
	bo ByteOrder
}

func (w *wr) u8(v uint8)   { w.b = append(w.b, v) }
func (w *wr) u16(v uint16) { w.b = w.bo.AppendUint16(w.b, v) }
func (w *wr) u32(v uint32) { w.b = w.bo.AppendUint32(w.b, v) }
func (w *wr) str(s []byte) error {
	if len(s) > 0xffff {
		return errors.New("refkeytab: counted string longer than 65535 bytes")
	}
	w.u16(uint16(len(s)))
	w.b = append(w.b, s...)
	return nil
}

// EncodeEntry returns the record body of an entry (without the length word).
func EncodeEntry(version int, e *Entry) ([]byte, error) {
	bo, err := Order(version)
	if err != nil {
		return nil, err
	}
	w := &wr{bo: bo}
	n := len(e.Components)
	if version == 1 {
		n++
	}
	if n > 0xffff {
		return nil, errors.New("refkeytab: too many components")
	}
	w.u16(uint16(n))
	if err := w.str([]byte(e.Realm)); err != nil {
		return nil, err
	}
	for _, c := range e.Components {
		if err := w.str([]byte(c)); err != nil {
			return nil, err
		}
	}
	if version != 1 {
		w.u32(e.NameType)
	}
	w.u32(e.Timestamp)
	w.u8(e.Vno8)
	w.u16(e.KeyType)
	if err := w.str(e.Key); err != nil {
		return nil, err
	}
	if e.HasVno32 {
		w.u32(e.Vno32)
	} else if len(e.Trailing) > 3 {
		return nil, errors.New("refkeytab: 4 or more trailing bytes without the 32-bit vno would be read as the vno")
	}
	w.b = append(w.b, e.Trailing...)
	return w.b, nil
}

// Write serialises a file.
func Write(version int, items []Item) ([]byte, error) {
	bo, err := Order(version)
	if err != nil {
		return nil, err
	}
	out := []byte{5, byte(version)}
	for _, it := range items {
		if it.Entry == nil {
			if len(it.Hole) == 0 || len(it.Hole) > 0x7fffffff {
				return nil, errors.New("refkeytab: hole size out of range")
			}
			out = bo.AppendUint32(out, uint32(-int32(len(it.Hole))))
			out = append(out, it.Hole...)
			continue
		}
		body, err := EncodeEntry(version, it.Entry)
		if err != nil {
			return nil, err
		}
		if len(body) > 0x7fffffff {
			return nil, errors.New("refkeytab: record too long")
		}
		out = bo.AppendUint32(out, uint32(len(body)))
		out = append(out, body...)
	}
	return out, nil
}

// WriteEntries serialises entries without holes.
func WriteEntries(version int, es []Entry) ([]byte, error) {
	items := make([]Item, len(es))
	for i := range es {
		items[i] = Item{Entry: &es[i]}
	}
	return Write(version, items)
}

type rd struct {
	b  []byte
	p  int
	bo binary.ByteOrder
}

var errShort = errors.New("refkeytab: truncated record")

func (r *rd) left() int { return len(r.b) - r.p }
func (r *rd) u8() (uint8, error) {
	if r.left() < 1 {
		return 0, errShort
	}
	v := r.b[r.p]
	r.p++
	return v, nil
}
func (r *rd) u16() (uint16, error) {
	if r.left() < 2 {
		return 0, errShort
	}
	v := r.bo.Uint16(r.b[r.p:])
	r.p += 2
	return v, nil
}
func (r *rd) u32() (uint32, error) {
	if r.left() < 4 {
		return 0, errShort
	}
	v := r.bo.Uint32(r.b[r.p:])
	r.p += 4
	return v, nil
}
func (r *rd) str() ([]byte, error) {
	n, err := r.u16()
	if err != nil {
		return nil, err
	}
	if r.left() < int(n) {
		return nil, errShort
	}
	v := append([]byte{}, r.b[r.p:r.p+int(n)]...)
	r.p += int(n)
	return v, nil
}

// DecodeEntry parses one record body.
func DecodeEntry(version int, body []byte) (*Entry, error) {
	bo, err := Order(version)
	if err != nil {
		return nil, err
	}
	r := &rd{b: body, bo: bo}
	e := &Entry{}
	cnt, err := r.u16()
	if err != nil {
		return nil, err
	}
	n := int(cnt)
	if version == 1 {
		n--
		if n < 0 {
			return nil, errors.New("refkeytab: version 1 component count 0 (must include the realm)")
		}
	}
	realm, err := r.str()
	if err != nil {
		return nil, err
	}
	e.Realm = string(realm)
	for i := 0; i < n; i++ {
		c, err := r.str()
		if err != nil {
			return nil, err
		}
		e.Components = append(e.Components, string(c))
	}
	if version != 1 {
		if e.NameType, err = r.u32(); err != nil {
			return nil, err
		}
	}
	if e.Timestamp, err = r.u32(); err != nil {
		return nil, err
	}
	if e.Vno8, err = r.u8(); err != nil {
		return nil, err
	}
	if e.KeyType, err = r.u16(); err != nil {
		return nil, err
	}
	if e.Key, err = r.str(); err != nil {
		return nil, err
	}
	if r.left() >= 4 {
		e.HasVno32 = true
		e.Vno32, _ = r.u32()
	}
	if r.left() > 0 {
		e.Trailing = append([]byte{}, r.b[r.p:]...)
	}
	return e, nil
}

// ReadItems parses a file into its records, holes included. It is strict: any truncation is an error.
func ReadItems(b []byte) (version int, items []Item, err error) {
	if len(b) < 2 {
		return 0, nil, errors.New("refkeytab: shorter than the 2-byte header")
	}
	if b[0] != 5 {
		return 0, nil, errors.New("refkeytab: first byte is not 5")
	}
	version = int(b[1])
	bo, err := Order(version)
	if err != nil {
		return version, nil, err
	}
	p := 2
	for p < len(b) {
		if len(b)-p < 4 {
			return version, items, errors.New("refkeytab: truncated record length")
		}
		l := int32(bo.Uint32(b[p:]))
		p += 4
		if l == 0 {
			// end marker
			break
		}
		if l < 0 {
			if l == -2147483648 {
				return version, items, errors.New("refkeytab: hole length overflow")
			}
			n := int(-l)
			if len(b)-p < n {
				return version, items, errors.New("refkeytab: hole extends beyond the end of the file")
			}
			items = append(items, Item{Hole: append([]byte{}, b[p:p+n]...)})
			p += n
			continue
		}
		n := int(l)
		if len(b)-p < n {
			return version, items, errors.New("refkeytab: record extends beyond the end of the file")
		}
		e, err := DecodeEntry(version, b[p:p+n])
		if err != nil {
			return version, items, fmt.Errorf("record at offset %d: %w", p-4, err)
		}
		items = append(items, Item{Entry: e})
		p += n
	}
	return version, items, nil
}

// Read parses a file and returns its entries in file order.
func Read(b []byte) (version int, entries []Entry, err error) {
	version, items, err := ReadItems(b)
	for _, it := range items {
		if it.Entry != nil {
			entries = append(entries, *it.Entry)
		}
	}
	return version, entries, err
}

// Query is a key lookup.
type Query struct {
	Realm      string
	Components []string
	Kvno       uint32 // 0 = any
	KeyType    uint16
}

// Matches reports whether the entry passes the lookup filter: exact realm, exact component
// list, key type, and key version (any when 0 is requested).
func Matches(e *Entry, q Query) bool {
	if e.Realm != q.Realm || len(e.Components) != len(q.Components) || e.KeyType != q.KeyType {
		return false
	}
	for i := range e.Components {
		if e.Components[i] != q.Components[i] {
			return false
		}
	}
	return q.Kvno == 0 || e.Kvno() == q.Kvno
}

// Candidates returns the indexes, in file order, of the entries passing the filter.
func Candidates(es []Entry, q Query) []int {
	var out []int
	for i := range es {
		if Matches(&es[i], q) {
			out = append(out, i)
		}
	}
	return out
}

// Newest returns the members of idx carrying the latest timestamp. signed selects the
// interpretation of the 32-bit timestamp (two's complement seconds vs. unsigned seconds).
func Newest(es []Entry, idx []int, signed bool) []int {
	val := func(i int) int64 {
		if signed {
			return int64(int32(es[i].Timestamp))
		}
		return int64(es[i].Timestamp)
	}
	var out []int
	for _, i := range idx {
		switch {
		case len(out) == 0 || val(i) > val(out[0]):
			out = []int{i}
		case val(i) == val(out[0]):
			out = append(out, i)
		}
	}
	return out
}

// Lookup is the reference lookup: filter, then latest (unsigned) timestamp, first in file order on ties.
func Lookup(es []Entry, q Query) (int, bool) {
	w := Newest(es, Candidates(es, q), false)
	if len(w) == 0 {
		return -1, false
	}
	return w[0], true
}

// EqualEntry compares two entries field by field and names the first differing field ("" if equal).
func EqualEntry(a, b *Entry) string {
	switch {
	case a.Realm != b.Realm:
		return "realm"
	case len(a.Components) != len(b.Components):
		return "components"
	}
	for i := range a.Components {
		if a.Components[i] != b.Components[i] {
			return "components"
		}
	}
	switch {
	case a.NameType != b.NameType:
		return "nametype"
	case a.Timestamp != b.Timestamp:
		return "timestamp"
	case a.Vno8 != b.Vno8:
		return "vno8"
	case a.KeyType != b.KeyType:
		return "keytype"
	case !bytes.Equal(a.Key, b.Key):
		return "key"
	case a.HasVno32 != b.HasVno32 || a.Vno32 != b.Vno32:
		return "vno32"
	case !bytes.Equal(a.Trailing, b.Trailing):
		return "trailing"
	}
	return ""
}

// mitSample is a keytab written by MIT ktutil (two entries for testuser1@TEST.GOKRB5,
// aes128 kvno 1 and aes256 kvno 1 ... ) - the leading part of a published test vector.
const mitSample = "05020000003b0001000b544553542e474f4b52423500097465737475736572310000000159beb1d80100110010698c4df8e9f60e7eea5a21bf4526ad2500000001"

// handV1 is a version-1 file assembled by hand from the format description for a little-endian host.
const handV1LE = "0501" +
	"13000000" + "0200" + "0100" + "52" + "0100" + "75" + "04030201" + "07" + "1100" + "0200" + "aabb" + // R / u, ts 0x01020304, vno8 7, etype 17, key aabb
	"fdffffff" + "000000" + // hole of 3 bytes
	"18000000" + "0300" + "0000" + "0100" + "61" + "0000" + "ffffff7f" + "09" + "1700" + "0100" + "cc" + "00010000" + "ee" // "" / a,"" ts 0x7fffffff vno8 9 etype 23 key cc vno32 256 trailing ee

// handV2 is the same content as version 2 with name types 1 and 0x80000002.
const handV2 = "0502" +
	"00000017" + "0001" + "0001" + "52" + "0001" + "75" + "00000001" + "01020304" + "07" + "0011" + "0002" + "aabb" +
	"fffffffd" + "000000" +
	"0000001c" + "0002" + "0000" + "0001" + "61" + "0000" + "80000002" + "7fffffff" + "09" + "0017" + "0001" + "cc" + "00000100" + "ee"

// SelfTest checks the reference against hand-assembled files and an MIT-written sample.
func SelfTest() error {
	hand := []Item{
		{Entry: &Entry{Realm: "R", Components: []string{"u"}, NameType: 1, Timestamp: 0x01020304, Vno8: 7, KeyType: 17, Key: []byte{0xaa, 0xbb}}},
		{Hole: []byte{0, 0, 0}},
		{Entry: &Entry{Realm: "", Components: []string{"a", ""}, NameType: 0x80000002, Timestamp: 0x7fffffff, Vno8: 9, KeyType: 23, Key: []byte{0xcc}, HasVno32: true, Vno32: 256, Trailing: []byte{0xee}}},
	}
	want2, _ := hex.DecodeString(handV2)
	got2, err := Write(2, hand)
	if err != nil || !bytes.Equal(got2, want2) {
		return fmt.Errorf("refkeytab self-test: version 2 writer: %x (err %v), want %x", got2, err, want2)
	}
	if binary.NativeEndian.Uint16([]byte{1, 0}) == 1 {
		want1, _ := hex.DecodeString(handV1LE)
		got1, err := Write(1, hand)
		if err != nil || !bytes.Equal(got1, want1) {
			return fmt.Errorf("refkeytab self-test: version 1 writer: %x (err %v), want %x", got1, err, want1)
		}
	}
	for _, v := range []int{1, 2} {
		b, err := Write(v, hand)
		if err != nil {
			return err
		}
		ver, items, err := ReadItems(b)
		if err != nil || ver != v || len(items) != 3 || items[1].Entry != nil || len(items[1].Hole) != 3 {
			return fmt.Errorf("refkeytab self-test: version %d reader: %v", v, err)
		}
		for _, i := range []int{0, 2} {
			w := *hand[i].Entry
			if v == 1 {
				w.NameType = 0
			}
			if f := EqualEntry(items[i].Entry, &w); f != "" {
				return fmt.Errorf("refkeytab self-test: version %d entry %d differs in %s", v, i, f)
			}
		}
		if items[0].Entry.Kvno() != 7 || items[2].Entry.Kvno() != 256 {
			return errors.New("refkeytab self-test: effective kvno")
		}
		// every truncation of a file ending in an entry is rejected or yields fewer items
		for cut := 3; cut < len(b); cut++ {
			_, it, err := ReadItems(b[:cut])
			if err == nil && len(it) >= 3 {
				return fmt.Errorf("refkeytab self-test: truncated file (%d of %d bytes) accepted in full", cut, len(b))
			}
		}
	}
	// header only = empty keytab
	if _, es, err := Read([]byte{5, 2}); err != nil || len(es) != 0 {
		return errors.New("refkeytab self-test: empty keytab")
	}
	mb, _ := hex.DecodeString(mitSample)
	ver, es, err := Read(mb)
	if err != nil || ver != 2 || len(es) != 1 {
		return fmt.Errorf("refkeytab self-test: MIT sample: %v", err)
	}
	e := es[0]
	if e.Realm != "TEST.GOKRB5" || len(e.Components) != 1 || e.Components[0] != "testuser1" || e.NameType != 1 || e.Timestamp != 0x59beb1d8 ||
		e.Vno8 != 1 || e.KeyType != 17 || hex.EncodeToString(e.Key) != "698c4df8e9f60e7eea5a21bf4526ad25" || !e.HasVno32 || e.Vno32 != 1 || len(e.Trailing) != 0 {
		return fmt.Errorf("refkeytab self-test: MIT sample fields: %+v", e)
	}
	back, err := WriteEntries(2, es)
	if err != nil || !bytes.Equal(back, mb) {
		return errors.New("refkeytab self-test: MIT sample does not re-encode to itself")
	}
	// lookup
	ls := []Entry{
		{Realm: "A", Components: []string{"x"}, Timestamp: 10, Vno8: 1, KeyType: 17, Key: []byte{1}},
		{Realm: "A", Components: []string{"x"}, Timestamp: 30, Vno8: 2, KeyType: 17, Key: []byte{2}},
		{Realm: "A", Components: []string{"x"}, Timestamp: 30, Vno8: 3, KeyType: 17, Key: []byte{3}},
		{Realm: "A", Components: []string{"x"}, Timestamp: 20, Vno8: 2, KeyType: 18, Key: []byte{4}},
		{Realm: "a", Components: []string{"x"}, Timestamp: 99, Vno8: 2, KeyType: 17, Key: []byte{5}},
		{Realm: "A", Components: []string{"x", "y"}, Timestamp: 99, Vno8: 2, KeyType: 17, Key: []byte{6}},
		{Realm: "A", Components: []string{"x"}, Timestamp: 0x80000000, Vno8: 9, KeyType: 17, Key: []byte{7}, HasVno32: true, Vno32: 700},
	}
	chk := func(q Query, want int, ok bool) error {
		g, k := Lookup(ls, q)
		if g != want || k != ok {
			return fmt.Errorf("refkeytab self-test: lookup %+v = %d,%v want %d,%v", q, g, k, want, ok)
		}
		return nil
	}
	for _, c := range []struct {
		q    Query
		want int
		ok   bool
	}{
		{Query{"A", []string{"x"}, 1, 17}, 0, true},
		{Query{"A", []string{"x"}, 2, 17}, 1, true},
		{Query{"A", []string{"x"}, 0, 17}, 6, true},
		{Query{"A", []string{"x"}, 9, 17}, -1, false},
		{Query{"A", []string{"x"}, 700, 17}, 6, true},
		{Query{"A", []string{"x"}, 0, 18}, 3, true},
		{Query{"A", []string{"x"}, 4, 17}, -1, false},
		{Query{"A", []string{}, 0, 17}, -1, false},
		{Query{"A", []string{"x", "y"}, 0, 17}, 5, true},
		{Query{"a", []string{"x"}, 0, 17}, 4, true},
		{Query{"B", []string{"x"}, 0, 17}, -1, false},
	} {
		if err := chk(c.q, c.want, c.ok); err != nil {
			return err
		}
	}
	if w := Newest(ls, Candidates(ls, Query{"A", []string{"x"}, 0, 17}), true); len(w) != 2 || w[0] != 1 || w[1] != 2 {
		return fmt.Errorf("refkeytab self-test: signed newest = %v", w)
	}
	return nil
}
