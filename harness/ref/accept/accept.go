// Package accept is a reference AP-REQ minting function and a reference acceptor implementing
// RFC 4120 section 3.2.3 over ref/kmsg and ref/kcrypto. It imports nothing from gokrb5.
package accept

import (
	"bytes"
	"fmt"
	"sort"
	"time"

	"verif/ref/der"
	"verif/ref/kcrypto"
	"verif/ref/kmsg"
)

// KeytabEntry is one long-term key of the service.
type KeytabEntry struct {
	Realm     string
	Name      kmsg.Name
	Kvno      uint32
	Etype     int32
	Key       []byte
	Timestamp uint32
}

// Settings mirror the service-side configuration.
type Settings struct {
	Skew            time.Duration
	RequireHostAddr bool
	ClientAddr      *kmsg.Addr
	Override        *kmsg.Name
	DecodePAC       bool
	// PACVerify is the reference PAC verifier (nil: PACs are not judged -> DontCare when one is present and DecodePAC is on).
	PACVerify func(pac []byte, key kmsg.Key) error
}

// Mint describes an AP-REQ to be produced.
type Mint struct {
	ServiceKey   kmsg.Key // long-term key sealing the ticket
	Kvno         *uint32  // kvno label in the ticket's EncryptedData (nil = absent)
	EtypeLabel   int32    // 0 = ServiceKey.Type
	Realm        string   // ticket realm
	SName        kmsg.Name
	TktVno       int
	Tkt          kmsg.EncTicketPart
	TktUsage     uint32 // 0 = 2
	Auth         kmsg.Authenticator
	AuthKey      *kmsg.Key // nil = Tkt.Key
	AuthUsage    uint32    // 0 = 11
	AuthEtypeLbl int32     // 0 = AuthKey.Type
	AuthKvno     *uint32
	Options      uint32
	Pvno         int
	MsgType      int
	TktTrailing  []byte // raw DER appended inside the ticket SEQUENCE after enc-part
	TktCipherMut func([]byte) []byte
	AutCipherMut func([]byte) []byte
	Conf         func(n int) []byte // confounder source
}

// Build encodes and encrypts the request.
func (m Mint) Build() ([]byte, error) {
	conf := m.Conf
	if conf == nil {
		return nil, fmt.Errorf("accept: no confounder source")
	}
	tu := m.TktUsage
	if tu == 0 {
		tu = 2
	}
	tc, err := kcrypto.EncryptConf(m.ServiceKey.Type, m.ServiceKey.Value, tu, m.Tkt.DER(), conf(kcrypto.ConfLen(m.ServiceKey.Type)))
	if err != nil {
		return nil, err
	}
	if m.TktCipherMut != nil {
		tc = m.TktCipherMut(tc)
	}
	lbl := m.EtypeLabel
	if lbl == 0 {
		lbl = m.ServiceKey.Type
	}
	tkt := kmsg.Ticket{Vno: m.TktVno, Realm: m.Realm, SName: m.SName, Enc: kmsg.EncData{Etype: lbl, Kvno: m.Kvno, Cipher: tc}, Trailing: m.TktTrailing}
	ak := m.Tkt.Key
	if m.AuthKey != nil {
		ak = *m.AuthKey
	}
	au := m.AuthUsage
	if au == 0 {
		au = 11
	}
	ac, err := kcrypto.EncryptConf(ak.Type, ak.Value, au, m.Auth.DER(), conf(kcrypto.ConfLen(ak.Type)))
	if err != nil {
		return nil, err
	}
	if m.AutCipherMut != nil {
		ac = m.AutCipherMut(ac)
	}
	albl := m.AuthEtypeLbl
	if albl == 0 {
		albl = ak.Type
	}
	req := kmsg.APReq{Pvno: m.Pvno, MsgType: m.MsgType, Options: m.Options, Ticket: tkt.DER(), Auth: kmsg.EncData{Etype: albl, Kvno: m.AuthKvno, Cipher: ac}}
	return req.DER(), nil
}

// Verdict of the reference acceptor.
type Verdict struct {
	Accept   bool
	DontCare bool     // outside the judged part of the property (see Reasons)
	Reasons  []string // every defect found (not only the first)
	CName    kmsg.Name
	CRealm   string
	EndTime  time.Time
	// ReplayKey identifies the authenticator (client, realm, ctime+cusec, service) once it decrypted.
	ReplayKey string
	HasPAC    bool
	PAC       []byte
	SessKey   kmsg.Key
	AuthCksum *kmsg.Cksum
	Subkey    *kmsg.Key
}

// Error codes (RFC 4120 7.5.9) named in reasons.
const (
	InvalidFlagBit = 7 // TicketFlags bit 7 = invalid
)

// SelectKey implements the key selection of the statement: realm, principal, kvno (0/absent = any, newest) and etype.
func SelectKey(kt []KeytabEntry, realm string, name kmsg.Name, kvno *uint32, etype int32) (KeytabEntry, bool) {
	var best KeytabEntry
	found := false
	for _, e := range kt {
		if e.Realm != realm || !e.Name.Equal(name) || e.Etype != etype {
			continue
		}
		if kvno != nil && *kvno != 0 && e.Kvno != *kvno {
			continue
		}
		if !found || e.Timestamp > best.Timestamp {
			best = e
			found = true
		}
	}
	return best, found
}

// Accept decides an AP-REQ per RFC 4120 3.2.3. replay may be nil (no replay check); when
// non-nil an accepted authenticator is recorded in it.
func Accept(req []byte, kt []KeytabEntry, s Settings, now time.Time, replay map[string]bool) Verdict {
	var v Verdict
	rej := func(f string, a ...any) { v.Reasons = append(v.Reasons, fmt.Sprintf(f, a...)) }
	ap, err := kmsg.ParseAPReq(req)
	if err != nil {
		rej("malformed-apreq: %v", err)
		return v
	}
	if ap.Pvno != 5 {
		rej("pvno: %d", ap.Pvno)
	}
	if ap.MsgType != 14 {
		rej("msg-type: %d", ap.MsgType)
	}
	tkt, err := kmsg.ParseTicket(ap.Ticket)
	if err != nil {
		rej("malformed-ticket: %v", err)
		return v
	}
	if tkt.Vno != 5 {
		rej("tkt-vno: %d", tkt.Vno)
	}
	if len(tkt.SName.Parts) == 0 {
		v.DontCare = true
		rej("empty-sname: (not judged)")
	}
	name := tkt.SName
	if s.Override != nil {
		name = *s.Override
	}
	ke, ok := SelectKey(kt, tkt.Realm, name, tkt.Enc.Kvno, tkt.Enc.Etype)
	if !ok {
		rej("nokey: KRB_AP_ERR_NOKEY no keytab key for %s@%s kvno %v etype %d", name, tkt.Realm, tkt.Enc.Kvno, tkt.Enc.Etype)
		return v
	}
	pt, _, err := kcrypto.Decrypt(ke.Etype, ke.Key, 2, tkt.Enc.Cipher)
	if err != nil {
		rej("ticket-integrity: KRB_AP_ERR_BAD_INTEGRITY ticket does not decrypt: %v", err)
		return v
	}
	etp, err := kmsg.ParseEncTicketPart(pt)
	if err != nil {
		rej("ticket-encpart-malformed: %v", err)
		return v
	}
	v.CName, v.CRealm, v.EndTime, v.SessKey = etp.CName, etp.CRealm, etp.EndTime, etp.Key
	start := etp.AuthTime
	if etp.StartTime != nil {
		start = *etp.StartTime
	}
	if start.Sub(now) > s.Skew {
		rej("ticket-not-yet-valid: KRB_AP_ERR_TKT_NYV starttime %v is more than the skew after now %v", start, now)
	}
	if etp.Flags&(1<<(31-InvalidFlagBit)) != 0 {
		rej("ticket-invalid-flag: KRB_AP_ERR_TKT_NYV INVALID flag set")
	}
	if now.Sub(etp.EndTime) > s.Skew {
		rej("ticket-expired: KRB_AP_ERR_TKT_EXPIRED endtime %v is more than the skew before now %v", etp.EndTime, now)
	}
	if len(etp.CAddr) > 0 {
		if s.ClientAddr == nil {
			// RFC 4120 3.2.3: the sender's address must be among the ticket's addresses; a service that was not told the
			// sender's address cannot establish that, so the address-restricted ticket is not acceptable
			rej("caddr-unverifiable: KRB_AP_ERR_BADADDR ticket is restricted to addresses but no client address is known to the service")
		} else {
			match := false
			for _, a := range etp.CAddr {
				if a.Type == s.ClientAddr.Type && bytes.Equal(a.Data, s.ClientAddr.Data) {
					match = true
				}
			}
			if !match {
				rej("caddr-mismatch: KRB_AP_ERR_BADADDR client address not in ticket caddr")
			}
		}
	} else if s.RequireHostAddr {
		rej("caddr-required: KRB_AP_ERR_BADADDR host address required but ticket has none")
	}
	usage := uint32(11)
	if len(tkt.SName.Parts) > 0 && tkt.SName.Parts[0] == "krbtgt" {
		// gokrb5 switches to the TGS authenticator usage for krbtgt names: a convention outside 3.2.3
		v.DontCare = true
		rej("sname-krbtgt: (authenticator key usage convention not judged)")
	}
	if kcrypto.KeyLen(etp.Key.Type) == 0 || len(etp.Key.Value) != kcrypto.KeyLen(etp.Key.Type) {
		rej("session-key-unusable: session key unusable (type %d, %d bytes)", etp.Key.Type, len(etp.Key.Value))
		return v
	}
	apt, _, err := kcrypto.Decrypt(etp.Key.Type, etp.Key.Value, usage, ap.Auth.Cipher)
	if err != nil {
		rej("authenticator-integrity: KRB_AP_ERR_BAD_INTEGRITY authenticator does not decrypt under the session key: %v", err)
		return v
	}
	au, err := kmsg.ParseAuthenticator(apt)
	if err != nil {
		rej("authenticator-malformed: %v", err)
		return v
	}
	v.AuthCksum, v.Subkey = au.Cksum, au.Subkey
	if len(au.CName.Parts) == 0 || len(etp.CName.Parts) == 0 {
		v.DontCare = true
		rej("empty-cname: (not judged)")
	}
	if !au.CName.Equal(etp.CName) {
		rej("cname-mismatch: KRB_AP_ERR_BADMATCH authenticator cname %q != ticket cname %q", au.CName, etp.CName)
	}
	if au.CRealm != etp.CRealm {
		rej("crealm-mismatch: KRB_AP_ERR_BADMATCH authenticator crealm %q != ticket crealm %q", au.CRealm, etp.CRealm)
	}
	ct := au.CTime.Add(time.Duration(au.Cusec) * time.Microsecond)
	if now.Sub(ct) > s.Skew || ct.Sub(now) > s.Skew {
		rej("authenticator-skew: KRB_AP_ERR_SKEW ctime %v vs now %v", ct, now)
	}
	v.ReplayKey = fmt.Sprintf("%s|%s|%d|%d|%s", au.CName, au.CRealm, au.CTime.Unix(), au.Cusec, tkt.SName)
	// PAC
	for _, ad := range etp.AuthzData {
		if ad.Type != 1 { // AD-IF-RELEVANT
			continue
		}
		n, err := der.ParseOne(ad.Data)
		if err != nil {
			continue
		}
		inner, err := kmsg.ParseADs(n)
		if err != nil || len(inner) == 0 {
			continue
		}
		if inner[0].Type == 128 { // AD-WIN2K-PAC
			v.HasPAC = true
			v.PAC = inner[0].Data
			break
		}
	}
	if v.HasPAC && s.DecodePAC {
		if s.PACVerify == nil {
			v.DontCare = true
			rej("pac-unverifiable: PAC present, no reference PAC verifier (not judged)")
		} else if err := s.PACVerify(v.PAC, kmsg.Key{Type: ke.Etype, Value: ke.Key}); err != nil {
			rej("pac-invalid: PAC fails verification %v", err)
		}
	}
	judgedReject := false
	for _, r := range v.Reasons {
		if !bytes.Contains([]byte(r), []byte("(not judged)")) && !bytes.Contains([]byte(r), []byte("not judged)")) {
			judgedReject = true
		}
	}
	if !judgedReject && replay != nil {
		if replay[v.ReplayKey] {
			rej("replay: KRB_AP_ERR_REPEAT replay of %s", v.ReplayKey)
			judgedReject = true
		}
	}
	v.Accept = !judgedReject
	if v.Accept && replay != nil && !v.DontCare {
		replay[v.ReplayKey] = true
	}
	return v
}

// KeytabV2 renders entries as an MIT keytab file, format version 0x0502 (big-endian), for
// loading into the implementation under test.
func KeytabV2(entries []KeytabEntry) []byte {
	out := []byte{5, 2}
	p16 := func(b []byte, v int) []byte { return append(b, byte(v>>8), byte(v)) }
	p32 := func(b []byte, v uint32) []byte { return append(b, byte(v>>24), byte(v>>16), byte(v>>8), byte(v)) }
	for _, e := range entries {
		var r []byte
		r = p16(r, len(e.Name.Parts))
		r = p16(r, len(e.Realm))
		r = append(r, e.Realm...)
		for _, c := range e.Name.Parts {
			r = p16(r, len(c))
			r = append(r, c...)
		}
		r = p32(r, uint32(e.Name.Type))
		r = p32(r, e.Timestamp)
		r = append(r, byte(e.Kvno))
		r = p16(r, int(e.Etype))
		r = p16(r, len(e.Key))
		r = append(r, e.Key...)
		r = p32(r, e.Kvno)
		out = p32(out, uint32(len(r)))
		out = append(out, r...)
	}
	return out
}

// Tags returns the sorted distinct reason tags (the part before the first colon).
func (v Verdict) Tags() []string {
	seen := map[string]bool{}
	var out []string
	for _, r := range v.Reasons {
		t := r
		if i := bytes.IndexByte([]byte(r), ':'); i > 0 {
			t = r[:i]
		}
		if !seen[t] {
			seen[t] = true
			out = append(out, t)
		}
	}
	sort.Strings(out)
	return out
}
