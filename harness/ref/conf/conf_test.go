package conf

import (
	"errors"
	"reflect"
	"testing"
)

type lcg struct{ s uint64 }

func (l *lcg) Intn(n int) int {
	l.s = l.s*6364136223846793005 + 1442695040888963407
	return int((l.s >> 33) % uint64(n))
}

// The example of krb5.conf(5), [domain_realm].
func TestResolveDocExample(t *testing.T) {
	m := map[string]string{"crash.mit.edu": "TEST.ATHENA.MIT.EDU", ".dev.mit.edu": "TEST.ATHENA.MIT.EDU", "mit.edu": "ATHENA.MIT.EDU", ".mit.edu": "ATHENA.MIT.EDU"}
	for host, want := range map[string]string{
		"crash.mit.edu":   "TEST.ATHENA.MIT.EDU",
		"x.dev.mit.edu":   "TEST.ATHENA.MIT.EDU",
		"y.x.dev.mit.edu": "TEST.ATHENA.MIT.EDU",
		"dev.mit.edu":     "ATHENA.MIT.EDU", // ".dev.mit.edu" does not match the host dev.mit.edu
		"mit.edu":         "ATHENA.MIT.EDU",
		"www.mit.edu":     "ATHENA.MIT.EDU",
		"example.com":     "",
		"edu":             "",
	} {
		if got := Resolve(m, host); got != want {
			t.Errorf("Resolve(%s) = %q, want %q", host, got, want)
		}
		if got := ResolveWithParents(m, host); got != want {
			t.Errorf("ResolveWithParents(%s) = %q, want %q", host, got, want)
		}
	}
	delete(m, ".mit.edu")
	if Resolve(m, "www.mit.edu") != "" || ResolveWithParents(m, "www.mit.edu") != "ATHENA.MIT.EDU" {
		t.Error("dot-less parent handling")
	}
}

func TestParseProfile(t *testing.T) {
	txt := "# c\n[libdefaults]\r\n\tdefault_realm = A.B \n ; c2\n[realms]\nA.B = {\n kdc = h1\n kdc=h2:88*\n sub = {\n  x = y\n }\n}\n[domain_realm]\n .b = A.B\n"
	tree, err := ParseProfile(txt)
	if err != nil {
		t.Fatal(err)
	}
	if v := tree.Section("libdefaults").Values("default_realm"); !reflect.DeepEqual(v, []string{"A.B"}) {
		t.Error(v)
	}
	rl := tree.Section("realms").Children[0]
	if rl.Name != "A.B" || !reflect.DeepEqual(rl.Values("kdc"), []string{"h1", "h2:88*"}) {
		t.Error(rl)
	}
	for bad, want := range map[string]error{
		"[libdefaults]\n default_realm A\n":                 ErrRelationSyntax,
		"[realms]\nA = {\n kdc = x\n[domain_realm]\n":       ErrSectionNotTop,
		"[realms]\nA = {\n kdc = x\n":                       ErrUnclosedAtEOF,
		"[realms]\nA = \n kdc = x\n}\n":                     ErrMissingObrace,
		"[realms]\nA = {\n}\n}\n":                           ErrExtraCbrace,
		"[realms]\nA {\n}\n":                                ErrRelationSyntax,
		"x = y\n":                                           ErrNoSection,
		"[realms\n":                                         ErrSectionSyntax,
		"[domain_realm]\n = X\n":                            ErrRelationSyntax,
		"[libdefaults]\n two words = X\n":                   ErrRelationSyntax,
		"[realms]\nA = {\n sub = {\n }\n[libdefaults]\n}\n": ErrSectionNotTop,
	} {
		if _, err := ParseProfile(bad); !errors.Is(err, want) {
			t.Errorf("%q: %v, want %v", bad, err, want)
		}
	}
}

func TestEffective(t *testing.T) {
	l := []Server{{Host: "a"}, {Host: "b", Port: 750, Final: true}, {Host: "c"}}
	if got := HostPorts(l, 88); !reflect.DeepEqual(got, []string{"a:88", "b:750"}) {
		t.Error(got)
	}
	r := Realm{Admin: []Server{{Host: "2001:db8::1", IPv6: true, Port: 749}, {Host: "h"}}}
	if got := r.ExpectKpasswd(); !reflect.DeepEqual(got, []string{"[2001:db8::1]:464", "h:464"}) {
		t.Error(got)
	}
	if (Server{Host: "2001:db8::1", IPv6: true, Final: true}).Text() != "[2001:db8::1]*" {
		t.Error("text")
	}
}

// Every rendered model must be read back by the reference parser with exactly the model's
// relations, in every layout variant; judged mutations must be rejected by the reference parser.
func TestRenderSelfCheck(t *testing.T) {
	feat := map[string]int{}
	for i := 0; i < 4000; i++ {
		r := &lcg{s: uint64(i) * 7919}
		m := GenModel(r, Options{})
		obs := ""
		if i%8 == 7 {
			obs = ObserveVariants[(i/8)%len(ObserveVariants)]
		}
		rd := Render(&m, r, obs)
		if err := CheckRendered(&m, rd); err != nil {
			t.Fatalf("model %d (%s): %v\n%s", i, obs, err, rd.Text())
		}
		if m.HasNested() {
			feat["nested"]++
		}
		if m.HasV4() {
			feat["v4"]++
		}
		if rd.EOL == "\r\n" {
			feat["crlf"]++
		}
		if obs != "" {
			continue
		}
		for _, k := range MutationKinds {
			mu, ok := Mutate(rd, r, k)
			if !ok {
				continue
			}
			feat["mut-"+k]++
			if mu.Judged {
				feat["judged-"+k]++
				if _, err := ParseProfile(mu.Text); err == nil {
					t.Fatalf("judged mutation parses: %+v", mu)
				}
			}
			if mu.Text == rd.Text() {
				t.Fatalf("mutation did not change the text: %+v", mu)
			}
		}
	}
	for _, k := range []string{"nested", "v4", "crlf", "judged-drop-eq", "judged-drop-close", "judged-drop-open", "mut-bad-bool", "mut-bad-duration", "mut-bad-int"} {
		if feat[k] < 20 {
			t.Errorf("feature %s seen only %d times", k, feat[k])
		}
	}
	t.Log(feat)
}
