// Package conf is the reference model for property C16 (krb5.conf loading, host-to-realm
// resolution, KDC lookup). It contains
//
//   - the configuration MODEL (libdefaults values, realms with their server lists, domain
//     mappings) whose fields are the expected values,
//   - a seeded randomised RENDERER model -> text that stays inside the syntax documented in MIT
//     krb5.conf(5),
//   - a small reference PROFILE PARSER written after the documented structure (sections,
//     relations, nested brace blocks, comments) used to self-check the renderer and to decide
//     whether a mutated file is unambiguously invalid,
//   - the reference RESOLVER host -> realm.
//
// It is written from the MIT documentation only and imports nothing from gokrb5.
package conf

import (
	"errors"
	"fmt"
	"sort"
	"strconv"
	"strings"
)

// Rand is the random source (satisfied by *vh.Rand).
type Rand interface{ Intn(n int) int }

func pick(r Rand, xs ...string) string { return xs[r.Intn(len(xs))] }
func chance(r Rand, pct int) bool      { return r.Intn(100) < pct }

// Kind is the type of a libdefaults value.
type Kind int

// Value kinds.
const (
	KBool Kind = iota
	KDuration
	KInt
	KString
	KEtypes
	KHex
	KIntList
	KIPList
)

func (k Kind) String() string {
	return [...]string{"bool", "duration", "int", "string", "etypes", "hex", "intlist", "iplist"}[k]
}

// LibEntry is one [libdefaults] relation of the model: the text written to the file and the
// value it documents.
type LibEntry struct {
	Key     string
	Kind    Kind
	Text    string // value as written
	Class   string // spelling class (for fingerprints and coverage)
	Bool    bool
	Seconds int64 // KDuration
	Int     int64
	Str     string
	Names   []string // KEtypes: the names written
	IDs     []int32  // KEtypes: expected ids, in order
	Bytes   []byte   // KHex
	Ints    []int    // KIntList
	IPs     []string // KIPList
}

// Server is one entry of a per-realm server list.
type Server struct {
	Host  string // host name, IPv4 literal, or IPv6 literal without brackets
	Port  int    // 0 = not written
	IPv6  bool
	Final bool // '*' written immediately after the value
}

// Text is the value as written in the file.
func (s Server) Text() string {
	h := s.Host
	if s.IPv6 {
		h = "[" + h + "]"
	}
	if s.Port != 0 {
		h += ":" + strconv.Itoa(s.Port)
	}
	if s.Final {
		h += "*"
	}
	return h
}

// HostPort is the documented meaning "host:port" with the default port filled in.
func (s Server) HostPort(def int) string {
	h := s.Host
	if s.IPv6 {
		h = "[" + h + "]"
	}
	p := s.Port
	if p == 0 {
		p = def
	}
	return h + ":" + strconv.Itoa(p)
}

// HostOnly returns the host part as it appears in a host:port string.
func (s Server) HostOnly() string {
	if s.IPv6 {
		return "[" + s.Host + "]"
	}
	return s.Host
}

// Item is a relation or a nested block that gokrb5 does not model (unknown key / sub-block).
type Item struct {
	Key   string
	Value string
	Sub   []Item // non-nil: "Key = {" ... "}"
	Block bool
}

// Realm is one [realms] entry.
type Realm struct {
	Name          string
	KDC           []Server
	Admin         []Server
	Kpasswd       []Server
	Master        []Server
	DefaultDomain string
	Extra         []Item // unknown keys, nested blocks (auth_to_local_names, unknown, v4_*)
}

// Effective applies the final-value marker: values after a '*'-terminated value of the same
// key are ignored.
func Effective(l []Server) []Server {
	for i, s := range l {
		if s.Final {
			return l[:i+1]
		}
	}
	return l
}

// HostPorts renders the effective list with default port def.
func HostPorts(l []Server, def int) []string {
	out := []string{}
	for _, s := range Effective(l) {
		out = append(out, s.HostPort(def))
	}
	return out
}

// ExpectKDCs is the documented KDC list of the realm (default port 88).
func (r Realm) ExpectKDCs() []string { return HostPorts(r.KDC, 88) }

// ExpectKpasswd is the documented kpasswd server list: kpasswd_server entries, or, when there is
// none, port 464 on the admin_server hosts.
func (r Realm) ExpectKpasswd() []string {
	if len(r.Kpasswd) > 0 {
		return HostPorts(r.Kpasswd, 464)
	}
	out := []string{}
	for _, s := range Effective(r.Admin) {
		out = append(out, s.HostOnly()+":464")
	}
	return out
}

// ListClass names the notable feature of a server list (for per-defect fingerprints).
func ListClass(l []Server) string {
	c := "plain"
	for _, s := range l {
		if s.Final {
			c = "final-marker"
		}
	}
	for _, s := range l {
		if s.IPv6 {
			c = "ipv6"
		}
	}
	return c
}

// HasBlock reports whether the realm contains a nested block; v4 selects v4_* blocks only / non-v4 only.
func (r Realm) HasBlock(v4 bool) bool {
	for _, it := range r.Extra {
		if it.Block && strings.HasPrefix(it.Key, "v4_") == v4 {
			return true
		}
	}
	return false
}

// HasV4Relation reports a v4_* relation (not a block) in the realm.
func (r Realm) HasV4Relation() bool {
	for _, it := range r.Extra {
		if !it.Block && strings.HasPrefix(it.Key, "v4_") {
			return true
		}
	}
	return false
}

// Mapping is one [domain_realm] relation.
type Mapping struct{ Key, Realm string }

// Section is a section gokrb5 does not model.
type Section struct {
	Name  string
	Items []Item
}

// Model is one configuration.
type Model struct {
	Lib       []LibEntry
	Realms    []Realm
	Domains   []Mapping
	Unknown   []Section
	LibUnk    []Item // unknown keys inside [libdefaults]
	HasLib    bool   // section header present even if empty
	HasRealms bool
	HasDomain bool
}

// Lookup returns the libdefaults entry for key.
func (m *Model) Lookup(key string) *LibEntry {
	for i := range m.Lib {
		if m.Lib[i].Key == key {
			return &m.Lib[i]
		}
	}
	return nil
}

// HasNested reports a non-v4 nested block in any realm.
func (m *Model) HasNested() bool {
	for _, r := range m.Realms {
		if r.HasBlock(false) {
			return true
		}
	}
	return false
}

// HasV4 reports a v4_* block or relation in any realm.
func (m *Model) HasV4() bool {
	for _, r := range m.Realms {
		if r.HasBlock(true) || r.HasV4Relation() {
			return true
		}
	}
	return false
}

// DomainMap is the expected mapping table.
func (m *Model) DomainMap() map[string]string {
	out := map[string]string{}
	for _, d := range m.Domains {
		out[d.Key] = d.Realm
	}
	return out
}

// ---- value tables -------------------------------------------------------------------------

// BoolKeys are the boolean libdefaults relations.
var BoolKeys = []string{"allow_weak_crypto", "canonicalize", "dns_canonicalize_hostname", "dns_lookup_kdc", "dns_lookup_realm",
	"forwardable", "ignore_acceptor_hostname", "k5login_authoritative", "noaddresses", "proxiable", "rdns", "verify_ap_req_nofail"}

// DurationKeys take the documented "time duration" formats.
var DurationKeys = []string{"ticket_lifetime", "renew_lifetime"}

// EtypeKeys take enctype lists.
var EtypeKeys = []string{"default_tgs_enctypes", "default_tkt_enctypes", "permitted_enctypes"}

// StringKeys take free strings.
var StringKeys = []string{"default_realm", "default_keytab_name", "default_client_keytab_name", "k5login_directory"}

// TrueSpellings / FalseSpellings: the judged boolean spellings (each also in upper case and capitalised).
var TrueSpellings = []string{"true", "yes", "y", "t", "1"}

// FalseSpellings see TrueSpellings.
var FalseSpellings = []string{"false", "no", "n", "f", "0"}

// EtypeNames is MIT's "Encryption types" table restricted to the six types gokrb5 supports.
var EtypeNames = map[string]int32{
	"des3-cbc-sha1": 16, "des3-hmac-sha1": 16, "des3-cbc-sha1-kd": 16,
	"aes128-cts-hmac-sha1-96": 17, "aes128-cts": 17, "aes128-sha1": 17,
	"aes256-cts-hmac-sha1-96": 18, "aes256-cts": 18, "aes256-sha1": 18,
	"aes128-cts-hmac-sha256-128": 19, "aes128-sha2": 19,
	"aes256-cts-hmac-sha384-192": 20, "aes256-sha2": 20,
	"arcfour-hmac": 23, "rc4-hmac": 23, "arcfour-hmac-md5": 23,
}

// DroppedEtypeNames are names of types that are weak, unsupported by the library under test or
// unknown: they contribute no id.
var DroppedEtypeNames = []string{"des-cbc-crc", "des-cbc-md5", "des-cbc-md4", "camellia128-cts-cmac", "camellia256-cts-cmac",
	"camellia256-cts", "camellia128-cts", "rc4-hmac-exp", "arcfour-hmac-md5-exp", "des-hmac-sha1", "des3-cbc-raw", "no-such-enctype", "aes512-cts"}

// SortedEtypeNames lists EtypeNames deterministically.
func SortedEtypeNames() []string {
	out := make([]string, 0, len(EtypeNames))
	for n := range EtypeNames {
		out = append(out, n)
	}
	sort.Strings(out)
	return out
}

func spellCase(r Rand, s string) (string, string) {
	switch r.Intn(3) {
	case 0:
		return s, "lower"
	case 1:
		return strings.ToUpper(s), "upper"
	}
	return strings.ToUpper(s[:1]) + s[1:], "capitalised"
}

// GenBool draws a boolean value with a judged spelling.
func GenBool(r Rand, key string) LibEntry {
	v := r.Intn(2) == 1
	sp := FalseSpellings
	if v {
		sp = TrueSpellings
	}
	base := sp[r.Intn(len(sp))]
	txt, c := spellCase(r, base)
	return LibEntry{Key: key, Kind: KBool, Text: txt, Bool: v, Class: "bool-" + base + "-" + c}
}

// GenDuration draws a duration in one of the documented formats: N, NdNhNmNs subsets, h:m, h:m:s.
func GenDuration(r Rand, key string) LibEntry {
	e := LibEntry{Key: key, Kind: KDuration}
	small := func(n int) int64 { return int64(r.Intn(n)) }
	switch r.Intn(10) {
	case 0, 1: // N seconds
		n := int64(1 + r.Intn(200000))
		if chance(r, 10) {
			n = 0
		}
		if chance(r, 5) {
			n = 2147483647 - int64(r.Intn(1000))
		}
		e.Text, e.Seconds, e.Class = strconv.FormatInt(n, 10), n, "N"
	case 2, 3, 4, 5: // NdNhNmNs subsets
		for e.Text == "" {
			units := []struct {
				u   string
				mul int64
				max int
			}{{"d", 86400, 400}, {"h", 3600, 100}, {"m", 60, 100}, {"s", 1, 100}}
			cls := ""
			for _, u := range units {
				if chance(r, 45) {
					n := small(u.max)
					e.Text += strconv.FormatInt(n, 10) + u.u
					e.Seconds += n * u.mul
					cls += u.u
				}
			}
			e.Class = "units-" + cls
		}
	case 6, 7: // h:m
		h, m := small(100), small(60)
		cls := "h:m"
		if chance(r, 6) { // documented limit is the total of 2147483647 s, not the hour count
			h = 32768 + small(500000)
			cls = "h:m-large-hours"
		}
		e.Text, e.Seconds, e.Class = fmt.Sprintf("%d:%02d", h, m), h*3600+m*60, cls
	default: // h:m:s
		h, m, s := small(100), small(60), small(60)
		e.Text, e.Seconds, e.Class = fmt.Sprintf("%d:%02d:%02d", h, m, s), h*3600+m*60+s, "h:m:s"
	}
	return e
}

// GenEtypes draws an enctype list: 1..6 distinct supported types under any of their documented
// names, mixed with dropped names, separated by spaces and/or commas.
func GenEtypes(r Rand, key string) LibEntry {
	e := LibEntry{Key: key, Kind: KEtypes}
	// the two legacy des3 spellings are drawn less often so that one deviating name does not
	// dominate the lists
	var names []string
	for _, nm := range SortedEtypeNames() {
		w := 4
		if nm == "des3-cbc-sha1" || nm == "des3-hmac-sha1" {
			w = 1
		}
		for ; w > 0; w-- {
			names = append(names, nm)
		}
	}
	used := map[int32]bool{}
	n := 1 + r.Intn(5)
	var toks []string
	for len(e.IDs) < n {
		nm := names[r.Intn(len(names))]
		id := EtypeNames[nm]
		if used[id] {
			continue
		}
		used[id] = true
		e.IDs = append(e.IDs, id)
		toks = append(toks, nm)
		if chance(r, 20) {
			toks = append(toks, DroppedEtypeNames[r.Intn(len(DroppedEtypeNames))])
		}
	}
	if chance(r, 15) {
		toks = append([]string{DroppedEtypeNames[r.Intn(len(DroppedEtypeNames))]}, toks...)
	}
	e.Names = toks
	sepClass := r.Intn(10)
	var sb strings.Builder
	hasComma := false
	for i, t := range toks {
		if i > 0 {
			switch {
			case sepClass < 8:
				sb.WriteString(pick(r, " ", " ", "  ", "\t"))
			case sepClass < 9:
				sb.WriteString(",")
				hasComma = true
			default:
				s := pick(r, ", ", " ", ",", " , ")
				if strings.Contains(s, ",") {
					hasComma = true
				}
				sb.WriteString(s)
			}
		}
		sb.WriteString(t)
	}
	e.Text = sb.String()
	e.Class = "sep-space"
	if hasComma {
		e.Class = "sep-comma"
	}
	return e
}

var realmPool = []string{"EXAMPLE.COM", "TEST.GOKRB5", "ATHENA.MIT.EDU", "CORP.EXAMPLE.ORG", "SUB.TEST.GOKRB5", "R1", "Dev.Example.Net", "realm.lower", "X-Y.EXAMPLE", "A.B.C.D.E",
	"example.com", "Test.Gokrb5", "r1"} // realm names are case sensitive: these are other realms than their upper-case namesakes
var hostPool = []string{"kdc", "kdc1", "kdc2", "kerberos", "kerberos-1", "kadmin", "master", "srv-a", "srv-b", "k", "kpw", "host9"}

// serverHostPool: names of servers may be written in any letter case (domain_realm keys, which MIT wants in lower case, draw
// from hostPool only)
var serverHostPool = append(append([]string{}, hostPool...), "KDC-Upper", "Kdc1", "kAdmin")
var domPool = []string{"example.com", "test.gokrb5", "mit.edu", "corp.example.org", "dev.mit.edu", "x", "lab.local", "a.b.c.d.e"}

// GenServer draws one server value.
func GenServer(r Rand, defPorts []int) Server {
	s := Server{}
	switch v := r.Intn(100); {
	case v < 70:
		s.Host = pick(r, serverHostPool...) + "." + pick(r, domPool...)
	case v < 80:
		s.Host = pick(r, serverHostPool...)
	case v < 98:
		s.Host = fmt.Sprintf("10.%d.%d.%d", r.Intn(256), r.Intn(256), 1+r.Intn(254))
	default:
		s.Host = fmt.Sprintf("2001:db8::%x:%x", 1+r.Intn(0xfffe), 1+r.Intn(0xfffe))
		s.IPv6 = true
	}
	if chance(r, 50) {
		s.Port = defPorts[r.Intn(len(defPorts))]
		if chance(r, 30) {
			s.Port = 1 + r.Intn(65535)
		}
	}
	return s
}

func genList(r Rand, max int, ports []int) []Server {
	n := r.Intn(max + 1)
	var out []Server
	seen := map[string]bool{}
	for len(out) < n {
		s := GenServer(r, ports)
		if seen[s.Host] { // no duplicate hosts inside one list
			continue
		}
		seen[s.Host] = true
		out = append(out, s)
	}
	if n > 0 && chance(r, 20) {
		out[r.Intn(n)].Final = true
	}
	return out
}

func genItems(r Rand, depth int) []Item {
	var out []Item
	n := 1 + r.Intn(3)
	for i := 0; i < n; i++ {
		if depth > 0 && chance(r, 25) {
			out = append(out, Item{Key: pick(r, "sub", "inner", "opts", "mapping"), Block: true, Sub: genItems(r, depth-1)})
		} else {
			out = append(out, Item{Key: pick(r, "guest", "admin", "option", "debug", "kdc", "module", "path", "a.b"), Value: pick(r, "anonymous", "true", "/usr/lib/x.so", "host.example.com:88", "12", "some words here", "%{uid}", "a{1,2}b", "c}")})
		}
	}
	return out
}

// Options steer the generator.
type Options struct {
	NoNested bool // no non-v4 nested blocks inside realms
	NoV4     bool
	NoIPv6   bool
	Plain    bool // only the most ordinary values (base for invalid-file mutations)
}

// GenModel draws a configuration model.
func GenModel(r Rand, o Options) Model {
	var m Model
	// ---- libdefaults: every key is present with moderate probability so that one deviating key
	// does not mask the others
	add := func(e LibEntry) { m.Lib = append(m.Lib, e) }
	for _, k := range BoolKeys {
		p := 30
		if k == "dns_lookup_kdc" {
			p = 25
		}
		if chance(r, p) {
			e := GenBool(r, k)
			if k == "dns_lookup_kdc" && e.Bool && chance(r, 70) { // mostly false: the lookups of part d need it
				e = LibEntry{Key: k, Kind: KBool, Text: "false", Bool: false, Class: "bool-false-lower"}
			}
			add(e)
		}
	}
	for _, k := range DurationKeys {
		if chance(r, 50) {
			e := GenDuration(r, k)
			if o.Plain && e.Class == "h:m-large-hours" {
				e = LibEntry{Key: k, Kind: KDuration, Text: "10h", Seconds: 36000, Class: "units-h"}
			}
			add(e)
		}
	}
	if chance(r, 30) { // clockskew is documented in seconds
		n := int64(r.Intn(4000))
		add(LibEntry{Key: "clockskew", Kind: KDuration, Text: strconv.FormatInt(n, 10), Seconds: n, Class: "N"})
	}
	for _, k := range EtypeKeys {
		if chance(r, 35) {
			e := GenEtypes(r, k)
			if o.Plain {
				e = LibEntry{Key: k, Kind: KEtypes, Text: "aes256-cts-hmac-sha1-96 aes128-cts-hmac-sha1-96", Names: []string{"aes256-cts-hmac-sha1-96", "aes128-cts-hmac-sha1-96"}, IDs: []int32{18, 17}, Class: "sep-space"}
			}
			add(e)
		}
	}
	if chance(r, 70) {
		v := pick(r, realmPool...)
		add(LibEntry{Key: "default_realm", Kind: KString, Text: v, Str: v, Class: "string"})
	}
	if chance(r, 20) {
		v := pick(r, "/etc/krb5.keytab", "FILE:/etc/krb5.keytab", "FILE:/var/kerberos/krb5/user/%{euid}/client.keytab", "/home/u/my.keytab")
		add(LibEntry{Key: "default_keytab_name", Kind: KString, Text: v, Str: v, Class: "string"})
	}
	if chance(r, 15) {
		v := pick(r, "FILE:/usr/local/var/krb5/user/%{euid}/client.keytab", "/etc/client.keytab")
		add(LibEntry{Key: "default_client_keytab_name", Kind: KString, Text: v, Str: v, Class: "string"})
	}
	if chance(r, 15) {
		v := pick(r, "/etc/k5login.d", "/home/%{username}", "/var/k5")
		add(LibEntry{Key: "k5login_directory", Kind: KString, Text: v, Str: v, Class: "string"})
	}
	intKey := func(k string, p int, f func() int64) {
		if chance(r, p) {
			n := f()
			add(LibEntry{Key: k, Kind: KInt, Text: strconv.FormatInt(n, 10), Int: n, Class: "decimal"})
		}
	}
	intKey("ccache_type", 15, func() int64 { return int64(1 + r.Intn(4)) })
	intKey("kdc_timesync", 15, func() int64 { return int64(r.Intn(2)) })
	intKey("realm_try_domains", 15, func() int64 { return int64(r.Intn(6) - 1) })
	intKey("safe_checksum_type", 15, func() int64 { return int64([]int{8, 12, 15, 16, 7}[r.Intn(5)]) })
	intKey("udp_preference_limit", 25, func() int64 { return int64([]int{0, 1, 1465, 32700, r.Intn(32701)}[r.Intn(5)]) })
	if chance(r, 12) {
		b := []byte{byte(r.Intn(256)), byte(r.Intn(256)), byte(r.Intn(256)), byte(r.Intn(256))}
		if chance(r, 50) {
			b = []byte{0, 0, 0, 0x10}
		}
		add(LibEntry{Key: "kdc_default_options", Kind: KHex, Text: fmt.Sprintf("0x%02x%02x%02x%02x", b[0], b[1], b[2], b[3]), Bytes: b, Class: "0x8hex"})
	}
	if !o.Plain && chance(r, 10) {
		n := 1 + r.Intn(4)
		var ints []int
		var parts []string
		for i := 0; i < n; i++ {
			v := []int{17, 16, 15, 14, 2, 19, 138}[r.Intn(7)]
			ints = append(ints, v)
			parts = append(parts, strconv.Itoa(v))
		}
		e := LibEntry{Key: "preferred_preauth_types", Kind: KIntList, Ints: ints}
		if n == 1 {
			e.Text, e.Class = parts[0], "single"
		} else if chance(r, 50) {
			e.Text, e.Class = strings.Join(parts, ","), "comma"
		} else {
			e.Text, e.Class = strings.Join(parts, ", "), "comma-space" // the form of the documented default "17, 16, 15, 14"
		}
		add(e)
	}
	if !o.Plain && chance(r, 8) {
		n := 1 + r.Intn(3)
		var ips []string
		for i := 0; i < n; i++ {
			ips = append(ips, fmt.Sprintf("192.0.2.%d", 1+i*7+r.Intn(7)))
		}
		add(LibEntry{Key: "extra_addresses", Kind: KIPList, IPs: ips, Text: strings.Join(ips, ","), Class: "comma"})
	}
	// shuffle libdefaults order
	for i := len(m.Lib) - 1; i > 0; i-- {
		j := r.Intn(i + 1)
		m.Lib[i], m.Lib[j] = m.Lib[j], m.Lib[i]
	}
	nu := r.Intn(3)
	unkLib := [][2]string{{"default_ccache_name", "KEYRING:persistent:%{uid}"}, {"dns_uri_lookup", "true"}, {"pkinit_anchors", "FILE:/etc/pki/ca.pem"},
		{"spake_preauth_groups", "edwards25519"}, {"plugin_base_dir", "/usr/lib/krb5/plugins"}, {"qualify_shortname", "example.com"}, {"err_fmt", "%M (%C)"}, {"kcm_socket", "/var/run/.heim_org.h5l.kcm-socket"}}
	for i := 0; i < nu; i++ {
		u := unkLib[r.Intn(len(unkLib))]
		dup := false
		for _, x := range m.LibUnk {
			dup = dup || x.Key == u[0]
		}
		if !dup {
			m.LibUnk = append(m.LibUnk, Item{Key: u[0], Value: u[1]})
		}
	}
	m.HasLib = len(m.Lib)+len(m.LibUnk) > 0 || chance(r, 50)

	// ---- realms
	nr := r.Intn(5)
	names := map[string]bool{}
	for len(m.Realms) < nr {
		rl := Realm{Name: pick(r, realmPool...)}
		if names[rl.Name] {
			continue
		}
		names[rl.Name] = true
		rl.KDC = genList(r, 4, []int{88, 750})
		rl.Admin = genList(r, 4, []int{749})
		if chance(r, 45) {
			rl.Kpasswd = genList(r, 4, []int{464})
		}
		if chance(r, 40) {
			rl.Master = genList(r, 4, []int{88})
		}
		if o.NoIPv6 {
			for _, l := range [][]Server{rl.KDC, rl.Admin, rl.Kpasswd, rl.Master} {
				for i := range l {
					if l[i].IPv6 {
						l[i].IPv6 = false
						l[i].Host = fmt.Sprintf("192.0.2.%d", 1+r.Intn(250))
					}
				}
			}
		}
		if chance(r, 50) {
			rl.DefaultDomain = pick(r, domPool...)
		}
		if chance(r, 30) {
			rl.Extra = append(rl.Extra, Item{Key: "auth_to_local", Value: pick(r, "DEFAULT", "RULE:[2:$1](johndoe)s/^.*$/guest/", "RULE:[1:$1@$0](.*@EXAMPLE.COM)s/@.*//")})
		}
		if chance(r, 12) {
			// curly brackets inside a value are part of the value: only "tag = {" opens a block and only a line that begins with "}" closes one
			rl.Extra = append(rl.Extra, Item{Key: pick(r, "auth_to_local", "auth_to_local", "site_pattern"),
				Value: pick(r, "RULE:[1:$1](^.{3}$)s/x/y/", "RULE:[1:$1](^[a-z]{2,8}$)", "RULE:[1:$1](^a{2)", "RULE:[1:$1](b}c)", "a}b", "x{y", "x {", "}{", "${realm}/%{uid}")})
		}
		if chance(r, 20) {
			rl.Extra = append(rl.Extra, Item{Key: pick(r, "pkinit_anchors", "http_anchors", "sitename", "kdc_listen"), Value: pick(r, "FILE:/etc/ca.pem", "site-1", "88")})
		}
		if !o.NoNested && chance(r, 3) {
			rl.Extra = append(rl.Extra, Item{Key: "auth_to_local_names", Block: true, Sub: []Item{{Key: "guest", Value: "anonymous"}, {Key: "admin", Value: "root"}}[:1+r.Intn(2)]})
		}
		if !o.NoNested && chance(r, 2) {
			rl.Extra = append(rl.Extra, Item{Key: pick(r, "plugin_opts", "custom_block", "extra"), Block: true, Sub: genItems(r, 1)})
		}
		if !o.NoV4 && chance(r, 3) {
			rl.Extra = append(rl.Extra, Item{Key: "v4_instance_convert", Block: true, Sub: []Item{{Key: "mit", Value: "mit.edu"}, {Key: "lithium", Value: "lithium.lcs.mit.edu"}}[:1+r.Intn(2)]})
		}
		if !o.NoV4 && chance(r, 1) {
			rl.Extra = append(rl.Extra, Item{Key: "v4_realm", Value: "LCS.MIT.EDU"})
		}
		m.Realms = append(m.Realms, rl)
	}
	m.HasRealms = nr > 0 || chance(r, 50)

	// ---- domain_realm
	nd := r.Intn(9)
	keys := map[string]bool{}
	for len(m.Domains) < nd {
		d := pick(r, domPool...)
		k := d
		switch r.Intn(3) {
		case 0:
			k = "." + d
		case 1:
			k = pick(r, hostPool...) + "." + d
		}
		if keys[k] {
			continue
		}
		keys[k] = true
		m.Domains = append(m.Domains, Mapping{Key: k, Realm: pick(r, realmPool...)})
	}
	m.HasDomain = nd > 0 || chance(r, 50)

	// ---- unknown sections
	for _, nm := range []string{"logging", "appdefaults", "capaths", "plugins", "dbmodules", "otherapp"} {
		if chance(r, 12) {
			s := Section{Name: nm}
			switch nm {
			case "logging":
				s.Items = []Item{{Key: "default", Value: "FILE:/var/log/krb5libs.log"}, {Key: "kdc", Value: "SYSLOG:INFO:DAEMON"}}
			default:
				s.Items = genItems(r, 2)
			}
			m.Unknown = append(m.Unknown, s)
		}
	}
	return m
}

var errOracle = errors.New("oracle")

// ---- renderer -----------------------------------------------------------------------------

// LineKind classifies a rendered line.
type LineKind int

// Line kinds.
const (
	LBlank LineKind = iota
	LComment
	LHeader
	LRel
	LOpen
	LClose
)

// Line is one rendered line with the structural role the renderer gave it.
type Line struct {
	Text    string
	Section string // "" before the first header
	Kind    LineKind
	Depth   int  // brace depth before the line
	InV4    bool // the line belongs to (or opens/closes) a v4_* block, or is a v4_* relation
	Key     string
	VKind   int // Kind of a libdefaults value, -1 otherwise
}

// Rendered is a rendered file.
type Rendered struct {
	Lines    []Line
	EOL      string
	FinalEOL bool
	Observe  string
}

// Text joins the lines.
func (rd Rendered) Text() string { return JoinLines(rd.Lines, rd.EOL, rd.FinalEOL) }

// JoinLines joins lines with eol.
func JoinLines(ls []Line, eol string, final bool) string {
	var sb strings.Builder
	for i, l := range ls {
		sb.WriteString(l.Text)
		if i < len(ls)-1 || final {
			sb.WriteString(eol)
		}
	}
	return sb.String()
}

// KnownSection reports one of the three sections the property speaks about.
func KnownSection(s string) bool { return s == "libdefaults" || s == "realms" || s == "domain_realm" }

// Observe variants of the renderer: layouts outside the documented-and-unambiguous subset.
var ObserveVariants = []string{"bool-on-off", "repeated-section", "trailing-comment", "brace-next-line"}

type renderer struct {
	r    Rand
	out  []Line
	sec  string
	dep  int
	v4   bool
	obs  string
	base string // base indent of the file
}

var commentBodies = []string{" a comment", " kdc = commented-out.example.com", " [realms]", " }", " {", " v4_realm = OLD", "", " default_realm = WRONG.REALM",
	" = =", "\tallow_weak_crypto = maybe", " .example.com = WRONG", " [libdefaults]", " admin_server = x*"}

func (w *renderer) ws() string { return pick(w.r, "", " ", " ", "  ", "\t", " \t ") }

func (w *renderer) indent() string {
	if chance(w.r, 70) {
		return strings.Repeat(w.base, w.dep+1)
	}
	return pick(w.r, "", " ", "    ", "\t", "\t\t", " \t", "        ")
}

func (w *renderer) trail() string { return pick(w.r, "", "", "", " ", "\t", "   ") }

func (w *renderer) emit(l Line) {
	l.Section, l.Depth = w.sec, w.dep
	if w.v4 {
		l.InV4 = true
	}
	if l.Kind != LRel {
		l.VKind = -1
	}
	w.out = append(w.out, l)
}

// filler emits blank lines, whitespace-only lines and comment lines.
func (w *renderer) filler(pct int) {
	for chance(w.r, pct) {
		switch w.r.Intn(6) {
		case 0, 1:
			w.emit(Line{Kind: LBlank})
		case 2:
			w.emit(Line{Kind: LBlank, Text: pick(w.r, " ", "\t", "   ", " \t")})
		default:
			lead := ""
			if chance(w.r, 35) { // "possibly after initial whitespace"
				lead = pick(w.r, " ", "    ", "\t")
			}
			w.emit(Line{Kind: LComment, Text: lead + pick(w.r, "#", ";", "#", "##") + pick(w.r, commentBodies...)})
		}
		pct /= 2
	}
}

func (w *renderer) rel(key, val string, vk int) {
	t := w.indent() + key + w.ws() + "=" + w.ws() + val
	if w.obs == "trailing-comment" && chance(w.r, 40) {
		t += pick(w.r, " # note", "\t; note", " #x")
	} else if !strings.HasSuffix(val, "*") || chance(w.r, 30) {
		t += w.trail()
	}
	isV4 := strings.HasPrefix(key, "v4_")
	w.emit(Line{Kind: LRel, Text: t, Key: key, VKind: vk, InV4: isV4})
}

func (w *renderer) open(key string) {
	isV4 := strings.HasPrefix(key, "v4_")
	if isV4 {
		w.v4 = true
	}
	if w.obs == "brace-next-line" && chance(w.r, 60) {
		w.emit(Line{Kind: LOpen, Text: w.indent() + key + w.ws() + "=" + w.trail(), Key: key})
		w.emit(Line{Kind: LOpen, Text: w.indent() + "{" + w.trail(), Key: key})
	} else {
		w.emit(Line{Kind: LOpen, Text: w.indent() + key + w.ws() + "=" + w.ws() + "{" + w.trail(), Key: key})
	}
	w.dep++
}

func (w *renderer) close(key string) {
	w.dep--
	w.emit(Line{Kind: LClose, Text: w.indent() + "}" + w.trail(), Key: key})
	if w.dep <= 1 {
		w.v4 = false
	}
}

func (w *renderer) items(its []Item) {
	for _, it := range its {
		w.filler(15)
		if it.Block {
			w.open(it.Key)
			w.items(it.Sub)
			w.filler(10)
			w.close(it.Key)
		} else {
			w.rel(it.Key, it.Value, -1)
		}
	}
}

func (w *renderer) header(name string) {
	w.sec, w.dep = name, 0
	w.emit(Line{Kind: LHeader, Text: "[" + name + "]" + w.trail(), Key: name})
	w.dep = 0
}

func spellObserveBool(r Rand, v bool) string {
	s := "off"
	if v {
		s = "on"
	} else if chance(r, 30) {
		s = "nil"
	}
	t, _ := spellCase(r, s)
	return t
}

// Render turns the model into text with a randomised layout. observe selects a layout variant
// outside the judged subset ("" = judged).
func Render(m *Model, r Rand, observe string) Rendered {
	w := &renderer{r: r, obs: observe, base: pick(r, "    ", "  ", "\t", " ", "")}
	rd := Rendered{EOL: "\n", FinalEOL: !chance(r, 15), Observe: observe}
	if chance(r, 25) {
		rd.EOL = "\r\n"
	}
	w.dep = -1 // indent() of preamble lines
	w.filler(60)
	w.dep = 0

	type secFn struct {
		name string
		f    func()
	}
	var secs []secFn
	libBody := func(lo, hi int, unk bool) func() {
		return func() {
			// interleave unknown keys
			its := []func(){}
			for i := lo; i < hi; i++ {
				e := m.Lib[i]
				its = append(its, func() {
					txt := e.Text
					if observe == "bool-on-off" && e.Kind == KBool && chance(r, 60) {
						txt = spellObserveBool(r, e.Bool)
					}
					w.rel(e.Key, txt, int(e.Kind))
				})
			}
			if unk {
				for _, u := range m.LibUnk {
					u := u
					pos := r.Intn(len(its) + 1)
					its = append(its[:pos], append([]func(){func() { w.rel(u.Key, u.Value, -1) }}, its[pos:]...)...)
				}
			}
			for _, f := range its {
				w.filler(20)
				f()
			}
			w.filler(15)
		}
	}
	realmBody := func(lo, hi int) func() {
		return func() {
			for _, rl := range m.Realms[lo:hi] {
				w.filler(20)
				w.open(rl.Name)
				// merge the per-key sequences keeping the order inside each key
				var seqs [][]func()
				mk := func(key string, l []Server) {
					var s []func()
					for _, sv := range l {
						sv := sv
						s = append(s, func() { w.rel(key, sv.Text(), -1) })
					}
					if len(s) > 0 {
						seqs = append(seqs, s)
					}
				}
				mk("kdc", rl.KDC)
				mk("admin_server", rl.Admin)
				mk("kpasswd_server", rl.Kpasswd)
				mk("master_kdc", rl.Master)
				if rl.DefaultDomain != "" {
					seqs = append(seqs, []func(){func() { w.rel("default_domain", rl.DefaultDomain, -1) }})
				}
				for _, it := range rl.Extra {
					it := it
					seqs = append(seqs, []func(){func() { w.items([]Item{it}) }})
				}
				grouped := chance(r, 50) // the usual layout keeps the values of a key together
				for len(seqs) > 0 {
					i := r.Intn(len(seqs))
					n := 1
					if grouped {
						n = len(seqs[i])
					}
					for ; n > 0; n-- {
						w.filler(12)
						seqs[i][0]()
						seqs[i] = seqs[i][1:]
					}
					if len(seqs[i]) == 0 {
						seqs = append(seqs[:i], seqs[i+1:]...)
					}
				}
				w.filler(10)
				w.close(rl.Name)
			}
			w.filler(15)
		}
	}
	domBody := func(lo, hi int) func() {
		return func() {
			for _, d := range m.Domains[lo:hi] {
				w.filler(15)
				w.rel(d.Key, d.Realm, -1)
			}
			w.filler(15)
		}
	}
	split := func(n int) int {
		if observe == "repeated-section" && n >= 2 {
			return 1 + r.Intn(n-1)
		}
		return -1
	}
	if m.HasLib || len(m.Lib)+len(m.LibUnk) > 0 {
		if k := split(len(m.Lib)); k > 0 {
			secs = append(secs, secFn{"libdefaults", libBody(0, k, true)}, secFn{"libdefaults", libBody(k, len(m.Lib), false)})
		} else {
			secs = append(secs, secFn{"libdefaults", libBody(0, len(m.Lib), true)})
		}
	}
	if m.HasRealms || len(m.Realms) > 0 {
		if k := split(len(m.Realms)); k > 0 {
			secs = append(secs, secFn{"realms", realmBody(0, k)}, secFn{"realms", realmBody(k, len(m.Realms))})
		} else {
			secs = append(secs, secFn{"realms", realmBody(0, len(m.Realms))})
		}
	}
	if m.HasDomain || len(m.Domains) > 0 {
		if k := split(len(m.Domains)); k > 0 {
			secs = append(secs, secFn{"domain_realm", domBody(0, k)}, secFn{"domain_realm", domBody(k, len(m.Domains))})
		} else {
			secs = append(secs, secFn{"domain_realm", domBody(0, len(m.Domains))})
		}
	}
	for _, u := range m.Unknown {
		u := u
		secs = append(secs, secFn{u.Name, func() { w.items(u.Items); w.filler(15) }})
	}
	if chance(r, 75) { // sections in any order; sometimes the conventional one
		for i := len(secs) - 1; i > 0; i-- {
			j := r.Intn(i + 1)
			secs[i], secs[j] = secs[j], secs[i]
		}
	}
	for _, s := range secs {
		w.header(s.name)
		s.f()
	}
	rd.Lines = w.out
	return rd
}

// ---- reference profile parser ---------------------------------------------------------------

// Node is a relation (Sub false) or a (sub)section (Sub true) of the parsed profile tree.
type Node struct {
	Name     string
	Value    string
	Sub      bool
	Children []*Node
}

// Parse errors. ErrUnclosedAtEOF is kept apart: whether a brace block left open at the end of
// the file is an error is not settled by the documentation.
var (
	ErrSectionNotTop  = errors.New("section header inside a brace block")
	ErrSectionSyntax  = errors.New("malformed section header")
	ErrRelationSyntax = errors.New("relation without '=' or malformed tag")
	ErrMissingObrace  = errors.New("empty value not followed by '{'")
	ErrExtraCbrace    = errors.New("'}' without open block")
	ErrNoSection      = errors.New("relation outside a section")
	ErrUnclosedAtEOF  = errors.New("brace block still open at end of file")
)

func isBlank(c byte) bool {
	return c == ' ' || c == '\t' || c == '\r' || c == '\n' || c == '\v' || c == '\f'
}

func skipBlanks(s string) string {
	for len(s) > 0 && isBlank(s[0]) {
		s = s[1:]
	}
	return s
}

func trimRightBlanks(s string) string {
	for len(s) > 0 && isBlank(s[len(s)-1]) {
		s = s[:len(s)-1]
	}
	return s
}

// ParseProfile parses text after the structure documented in krb5.conf(5): sections in square
// brackets, relations "tag = value", sub-sections "tag = {" ... "}", comment lines starting
// (possibly after whitespace) with '#' or ';'. Sections of the same name are merged.
func ParseProfile(text string) (*Node, error) {
	root := &Node{Sub: true}
	var stack []*Node
	var cur *Node
	wantBrace := false
	for _, line := range strings.Split(text, "\n") {
		line = strings.TrimRight(line, "\r")
		cp := skipBlanks(line)
		if wantBrace {
			if cp == "" || cp[0] != '{' {
				return nil, ErrMissingObrace
			}
			wantBrace = false
			continue
		}
		if cp == "" || cp[0] == '#' || cp[0] == ';' {
			continue
		}
		if cp[0] == '[' {
			if len(stack) > 0 {
				return nil, ErrSectionNotTop
			}
			end := strings.IndexByte(cp, ']')
			if end < 0 {
				return nil, ErrSectionSyntax
			}
			name := cp[1:end]
			rest := cp[end+1:]
			if strings.HasPrefix(rest, "*") {
				rest = rest[1:]
			}
			if skipBlanks(rest) != "" {
				return nil, ErrSectionSyntax
			}
			cur = nil
			for _, c := range root.Children {
				if c.Name == name {
					cur = c
				}
			}
			if cur == nil {
				cur = &Node{Name: name, Sub: true}
				root.Children = append(root.Children, cur)
			}
			continue
		}
		if cp[0] == '}' {
			if len(stack) == 0 {
				return nil, ErrExtraCbrace
			}
			cur = stack[len(stack)-1]
			stack = stack[:len(stack)-1]
			continue
		}
		if cur == nil {
			return nil, ErrNoSection
		}
		eq := strings.IndexByte(cp, '=')
		if eq <= 0 {
			return nil, ErrRelationSyntax
		}
		tag := cp[:eq]
		if i := strings.IndexAny(tag, " \t"); i >= 0 {
			if skipBlanks(tag[i:]) != "" {
				return nil, ErrRelationSyntax
			}
			tag = tag[:i]
		}
		tag = strings.TrimSuffix(tag, "*")
		val := skipBlanks(cp[eq+1:])
		sub := false
		switch {
		case val == "":
			sub, wantBrace = true, true
		case val[0] == '{' && skipBlanks(val[1:]) == "":
			sub = true
		default:
			val = trimRightBlanks(val)
		}
		if sub {
			n := &Node{Name: tag, Sub: true}
			cur.Children = append(cur.Children, n)
			stack = append(stack, cur)
			cur = n
			continue
		}
		cur.Children = append(cur.Children, &Node{Name: tag, Value: val})
	}
	if wantBrace {
		return nil, ErrMissingObrace
	}
	if len(stack) > 0 {
		return root, ErrUnclosedAtEOF
	}
	return root, nil
}

// Section returns the named top-level section (nil if absent).
func (n *Node) Section(name string) *Node {
	for _, c := range n.Children {
		if c.Sub && c.Name == name {
			return c
		}
	}
	return nil
}

// Values returns the raw values of the relations named key directly below n.
func (n *Node) Values(key string) []string {
	out := []string{}
	if n == nil {
		return out
	}
	for _, c := range n.Children {
		if !c.Sub && c.Name == key {
			out = append(out, c.Value)
		}
	}
	return out
}

func eqStrings(a, b []string) bool {
	if len(a) != len(b) {
		return false
	}
	for i := range a {
		if a[i] != b[i] {
			return false
		}
	}
	return true
}

// CheckRendered is the oracle self-check: the rendered text, read back by the reference profile
// parser, must contain exactly the model's relations.
func CheckRendered(m *Model, rd Rendered) error {
	if rd.Observe == "trailing-comment" || rd.Observe == "bool-on-off" {
		return nil
	}
	tree, err := ParseProfile(rd.Text())
	if err != nil {
		return fmt.Errorf("%w: reference parser rejects rendered model: %v", errOracle, err)
	}
	lib := tree.Section("libdefaults")
	for _, e := range m.Lib {
		if v := lib.Values(e.Key); len(v) != 1 || v[0] != e.Text {
			return fmt.Errorf("%w: libdefaults %s read back as %q, written %q", errOracle, e.Key, v, e.Text)
		}
	}
	rs := tree.Section("realms")
	nsub := 0
	if rs != nil {
		for _, c := range rs.Children {
			if c.Sub {
				nsub++
			}
		}
	}
	if nsub != len(m.Realms) {
		return fmt.Errorf("%w: %d realms read back, %d written", errOracle, nsub, len(m.Realms))
	}
	for _, rl := range m.Realms {
		var node *Node
		for _, c := range rs.Children {
			if c.Sub && c.Name == rl.Name {
				node = c
			}
		}
		if node == nil {
			return fmt.Errorf("%w: realm %s not read back", errOracle, rl.Name)
		}
		for _, kl := range []struct {
			k string
			l []Server
		}{{"kdc", rl.KDC}, {"admin_server", rl.Admin}, {"kpasswd_server", rl.Kpasswd}, {"master_kdc", rl.Master}} {
			want := []string{}
			for _, s := range kl.l {
				want = append(want, s.Text())
			}
			if got := node.Values(kl.k); !eqStrings(got, want) {
				return fmt.Errorf("%w: realm %s %s read back as %q, written %q", errOracle, rl.Name, kl.k, got, want)
			}
		}
		dd := node.Values("default_domain")
		if (rl.DefaultDomain == "") != (len(dd) == 0) || (len(dd) == 1 && dd[0] != rl.DefaultDomain) {
			return fmt.Errorf("%w: realm %s default_domain read back as %q", errOracle, rl.Name, dd)
		}
	}
	dr := tree.Section("domain_realm")
	nrel := 0
	if dr != nil {
		nrel = len(dr.Children)
	}
	if nrel != len(m.Domains) {
		return fmt.Errorf("%w: %d domain mappings read back, %d written", errOracle, nrel, len(m.Domains))
	}
	for _, d := range m.Domains {
		if v := dr.Values(d.Key); len(v) != 1 || v[0] != d.Realm {
			return fmt.Errorf("%w: mapping %s read back as %q", errOracle, d.Key, v)
		}
	}
	return nil
}

// ---- reference resolver -----------------------------------------------------------------------

// Resolve is the documented host-to-realm resolution: the entry for the exact host name, else
// the entry for the longest matching domain ".suffix", else "".
func Resolve(m map[string]string, host string) string {
	if r, ok := m[host]; ok {
		return r
	}
	for i := 0; i < len(host); i++ {
		if host[i] == '.' {
			if r, ok := m[host[i:]]; ok {
				return r
			}
		}
	}
	return ""
}

// ResolveWithParents additionally lets a dot-less entry match the hosts below it (the third
// entry of the example in krb5.conf(5)); used only to find the cases on which the two readings
// of the documentation differ, which are not judged.
func ResolveWithParents(m map[string]string, host string) string {
	if r, ok := m[host]; ok {
		return r
	}
	for i := 0; i < len(host); i++ {
		if host[i] == '.' {
			if r, ok := m[host[i:]]; ok {
				return r
			}
			if r, ok := m[host[i+1:]]; ok {
				return r
			}
		}
	}
	return ""
}

// ---- invalid files ------------------------------------------------------------------------------

// MutationKinds are the single-edit mutations of a valid file.
var MutationKinds = []string{"drop-eq", "drop-close", "drop-open", "bad-bool", "bad-duration", "bad-int"}

// Mutation is a mutated file.
type Mutation struct {
	Kind    string
	Text    string
	LineNo  int
	Before  string
	After   string
	Section string
	Judged  bool   // unambiguously invalid: the reference parser rejects it for a structural reason
	Why     string // the reference parser's reason, or why it is not judged
}

// Mutate applies one mutation of the given kind to a line of a known section (never inside a
// v4_* block). ok is false if the file offers no candidate line.
func Mutate(rd Rendered, r Rand, kind string) (mu Mutation, ok bool) {
	var cand []int
	for i, l := range rd.Lines {
		if !KnownSection(l.Section) || l.InV4 {
			continue
		}
		switch kind {
		case "drop-eq":
			if (l.Kind == LRel || l.Kind == LOpen) && strings.Count(l.Text, "=") == 1 {
				cand = append(cand, i)
			}
		case "drop-close":
			if l.Kind == LClose {
				cand = append(cand, i)
			}
		case "drop-open":
			if l.Kind == LOpen && strings.Contains(l.Text, "{") {
				cand = append(cand, i)
			}
		case "bad-bool":
			if l.Kind == LRel && l.VKind == int(KBool) {
				cand = append(cand, i)
			}
		case "bad-duration":
			if l.Kind == LRel && l.VKind == int(KDuration) {
				cand = append(cand, i)
			}
		case "bad-int":
			if l.Kind == LRel && l.VKind == int(KInt) {
				cand = append(cand, i)
			}
		}
	}
	if len(cand) == 0 {
		return mu, false
	}
	i := cand[r.Intn(len(cand))]
	ls := append([]Line{}, rd.Lines...)
	old := ls[i].Text
	nw := old
	switch kind {
	case "drop-eq":
		nw = strings.Replace(old, "=", " ", 1)
	case "drop-close":
		nw = strings.Replace(old, "}", "", 1)
	case "drop-open":
		nw = strings.Replace(old, "{", "", 1)
	case "bad-bool":
		nw = old[:strings.Index(old, "=")+1] + " " + pick(r, "maybe", "2", "tru", "yess", "enabled", "-1")
	case "bad-duration":
		nw = old[:strings.Index(old, "=")+1] + " " + pick(r, "abc", "12x", "1:2:3:4", "h", "ten", "5 minutes")
	case "bad-int":
		nw = old[:strings.Index(old, "=")+1] + " " + pick(r, "four", "1.5", "12abc", "0x", "--1")
	}
	ls[i].Text = nw
	mu = Mutation{Kind: kind, Text: JoinLines(ls, rd.EOL, rd.FinalEOL), LineNo: i + 1, Before: old, After: nw, Section: rd.Lines[i].Section}
	if strings.HasPrefix(kind, "bad-") {
		mu.Why = "the profile syntax does not constrain values; a bad value is not a structural error"
		return mu, true
	}
	_, err := ParseProfile(mu.Text)
	switch {
	case err == nil:
		mu.Why = "reference parser accepts the mutated file"
	case errors.Is(err, ErrUnclosedAtEOF):
		mu.Why = err.Error() + " (not settled by the documentation)"
	default:
		mu.Judged, mu.Why = true, err.Error()
	}
	return mu, true
}
