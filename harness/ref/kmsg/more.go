package kmsg

// Strict decoders for the remaining RFC 4120 / RFC 3244 types whose encoders live in types.go,
// and model + encoder + strict decoder for SPNEGO (RFC 4178 4.2), the RFC 2743 3.1 initial
// context token framing and the RFC 4121 4.1 Kerberos mechanism token. Written from the RFC
// ASN.1 modules only; nothing from gokrb5 / gofork / encoding/asn1 is imported.

import (
	"errors"
	"fmt"

	"verif/ref/der"
)

// ---------------------------------------------------------------------------------------
// small helpers

func decMicroseconds(n *der.Node) (int, error) {
	v, err := n.AsInt()
	if err != nil {
		return 0, err
	}
	if v < 0 || v > 999999 {
		return 0, fmt.Errorf("kmsg: Microseconds %d out of range 0..999999", v)
	}
	return int(v), nil
}

func one(b []byte) (*der.Node, error) { return der.ParseOne(b) }

// ParseEncDataBytes decodes an EncryptedData from its full encoding (no trailing bytes).
func ParseEncDataBytes(b []byte) (EncData, error) {
	n, err := one(b)
	if err != nil {
		return EncData{}, err
	}
	return ParseEncData(n)
}

// ParseNameBytes decodes a PrincipalName from its full encoding.
func ParseNameBytes(b []byte) (Name, error) {
	n, err := one(b)
	if err != nil {
		return Name{}, err
	}
	return ParseName(n)
}

// ParseKDCReqBody decodes a KDC-REQ-BODY from its full encoding.
func ParseKDCReqBody(b []byte) (KDCReqBody, error) {
	n, err := one(b)
	if err != nil {
		return KDCReqBody{}, err
	}
	return ParseKDCReqBodyNode(n)
}

// ParseAuthenticatorStrict is ParseAuthenticator without tolerance for trailing bytes.
func ParseAuthenticatorStrict(b []byte) (Authenticator, error) {
	if _, err := one(b); err != nil {
		return Authenticator{}, err
	}
	a, err := ParseAuthenticator(b)
	if err != nil {
		return a, err
	}
	if a.Vno != 5 {
		return a, fmt.Errorf("kmsg: authenticator-vno %d", a.Vno)
	}
	if a.Cusec < 0 || a.Cusec > 999999 {
		return a, fmt.Errorf("kmsg: cusec %d out of range", a.Cusec)
	}
	return a, nil
}

// ParseEncTicketPartStrict is ParseEncTicketPart without tolerance for trailing bytes.
func ParseEncTicketPartStrict(b []byte) (EncTicketPart, error) {
	if _, err := one(b); err != nil {
		return EncTicketPart{}, err
	}
	return ParseEncTicketPart(b)
}

// ---------------------------------------------------------------------------------------
// KRB-ERROR (RFC 4120 5.9.1)

// ParseKRBError decodes a KRB-ERROR from its full encoding.
func ParseKRBError(b []byte) (KRBError, error) {
	n, err := one(b)
	if err != nil {
		return KRBError{}, err
	}
	return ParseKRBErrorNode(n)
}

// ParseKRBErrorNode decodes a KRB-ERROR element.
func ParseKRBErrorNode(n *der.Node) (KRBError, error) {
	var out KRBError
	in, err := appInner(n, 30)
	if err != nil {
		return out, err
	}
	f, err := seqOf(in)
	if err != nil {
		return out, err
	}
	pv, err := reqInt(f, 0)
	if err != nil {
		return out, err
	}
	if pv != 5 {
		return out, fmt.Errorf("kmsg: pvno %d", pv)
	}
	mt, err := reqInt(f, 1)
	if err != nil {
		return out, err
	}
	if mt != 30 {
		return out, fmt.Errorf("kmsg: msg-type %d in KRB-ERROR", mt)
	}
	out.MsgType = 30
	if out.CTime, err = optTimeField(f, 2); err != nil {
		return out, err
	}
	cu, err := f.opt(3)
	if err != nil {
		return out, err
	}
	if cu != nil {
		v, err := decMicroseconds(cu)
		if err != nil {
			return out, err
		}
		out.Cusec = &v
	}
	if out.STime, err = reqTimeField(f, 4); err != nil {
		return out, err
	}
	su, err := f.req(5)
	if err != nil {
		return out, err
	}
	if out.Susec, err = decMicroseconds(su); err != nil {
		return out, err
	}
	ec, err := f.req(6)
	if err != nil {
		return out, err
	}
	if out.Code, err = decInt32(ec); err != nil {
		return out, err
	}
	cr, err := f.opt(7)
	if err != nil {
		return out, err
	}
	if cr != nil {
		s, err := cr.AsGenString()
		if err != nil {
			return out, err
		}
		out.CRealm = &s
	}
	cn, err := f.opt(8)
	if err != nil {
		return out, err
	}
	if cn != nil {
		nm, err := ParseName(cn)
		if err != nil {
			return out, err
		}
		out.CName = &nm
	}
	if out.Realm, err = reqString(f, 9); err != nil {
		return out, err
	}
	sn, err := f.req(10)
	if err != nil {
		return out, err
	}
	if out.SName, err = ParseName(sn); err != nil {
		return out, err
	}
	et, err := f.opt(11)
	if err != nil {
		return out, err
	}
	if et != nil {
		s, err := et.AsGenString()
		if err != nil {
			return out, err
		}
		out.EText = &s
	}
	ed, err := f.opt(12)
	if err != nil {
		return out, err
	}
	if ed != nil {
		o, err := ed.AsOctets()
		if err != nil {
			return out, err
		}
		out.EData = append([]byte{}, o...)
	}
	return out, f.done()
}

// ---------------------------------------------------------------------------------------
// KDC-REP (RFC 4120 5.4.2)

// ParseKDCRep decodes an AS-REP or TGS-REP from its full encoding.
func ParseKDCRep(b []byte) (KDCRep, error) {
	var out KDCRep
	n, err := one(b)
	if err != nil {
		return out, err
	}
	if n.Class != der.Application || (n.Tag != 11 && n.Tag != 13) || !n.Constructed {
		return out, fmt.Errorf("kmsg: not an AS-REP/TGS-REP (class %d tag %d)", n.Class, n.Tag)
	}
	in, err := n.Inner()
	if err != nil {
		return out, err
	}
	f, err := seqOf(in)
	if err != nil {
		return out, err
	}
	pv, err := reqInt(f, 0)
	if err != nil {
		return out, err
	}
	if pv != 5 {
		return out, fmt.Errorf("kmsg: pvno %d", pv)
	}
	mt, err := reqInt(f, 1)
	if err != nil {
		return out, err
	}
	if int(mt) != n.Tag {
		return out, fmt.Errorf("kmsg: msg-type %d under application tag %d", mt, n.Tag)
	}
	out.MsgType = int(mt)
	pa, err := f.opt(2)
	if err != nil {
		return out, err
	}
	if pa != nil {
		if out.PAData, err = ParsePAs(pa); err != nil {
			return out, err
		}
	}
	if out.CRealm, err = reqString(f, 3); err != nil {
		return out, err
	}
	cn, err := f.req(4)
	if err != nil {
		return out, err
	}
	if out.CName, err = ParseName(cn); err != nil {
		return out, err
	}
	t, err := f.req(5)
	if err != nil {
		return out, err
	}
	if _, err := ParseTicketNode(t); err != nil {
		return out, err
	}
	out.Ticket = t.Raw
	e, err := f.req(6)
	if err != nil {
		return out, err
	}
	if out.Enc, err = ParseEncData(e); err != nil {
		return out, err
	}
	return out, f.done()
}

// ParseEncKDCRepPart decodes EncASRepPart ([APPLICATION 25]) or EncTGSRepPart ([APPLICATION 26])
// from its full encoding.
func ParseEncKDCRepPart(b []byte) (EncKDCRepPart, error) {
	var out EncKDCRepPart
	n, err := one(b)
	if err != nil {
		return out, err
	}
	if n.Class != der.Application || (n.Tag != 25 && n.Tag != 26) || !n.Constructed {
		return out, fmt.Errorf("kmsg: not an EncASRepPart/EncTGSRepPart (class %d tag %d)", n.Class, n.Tag)
	}
	out.AppTag = n.Tag
	in, err := n.Inner()
	if err != nil {
		return out, err
	}
	f, err := seqOf(in)
	if err != nil {
		return out, err
	}
	k, err := f.req(0)
	if err != nil {
		return out, err
	}
	if out.Key, err = ParseKey(k); err != nil {
		return out, err
	}
	lr, err := f.req(1)
	if err != nil {
		return out, err
	}
	if err := lr.Expect(der.Universal, der.TagSequence, true); err != nil {
		return out, err
	}
	for _, c := range lr.Children {
		lf, err := seqOf(c)
		if err != nil {
			return out, err
		}
		var l LastReq
		t, err := lf.req(0)
		if err != nil {
			return out, err
		}
		if l.Type, err = decInt32(t); err != nil {
			return out, err
		}
		if l.Value, err = reqTimeField(lf, 1); err != nil {
			return out, err
		}
		if err := lf.done(); err != nil {
			return out, err
		}
		out.LastReqs = append(out.LastReqs, l)
	}
	nn, err := f.req(2)
	if err != nil {
		return out, err
	}
	if out.Nonce, err = decUint32(nn); err != nil {
		return out, err
	}
	if out.KeyExpiration, err = optTimeField(f, 3); err != nil {
		return out, err
	}
	fl, err := f.req(4)
	if err != nil {
		return out, err
	}
	if out.Flags, err = decFlags(fl); err != nil {
		return out, err
	}
	if out.AuthTime, err = reqTimeField(f, 5); err != nil {
		return out, err
	}
	if out.StartTime, err = optTimeField(f, 6); err != nil {
		return out, err
	}
	if out.EndTime, err = reqTimeField(f, 7); err != nil {
		return out, err
	}
	if out.RenewTill, err = optTimeField(f, 8); err != nil {
		return out, err
	}
	if out.SRealm, err = reqString(f, 9); err != nil {
		return out, err
	}
	sn, err := f.req(10)
	if err != nil {
		return out, err
	}
	if out.SName, err = ParseName(sn); err != nil {
		return out, err
	}
	ca, err := f.opt(11)
	if err != nil {
		return out, err
	}
	if ca != nil {
		if out.CAddr, err = ParseAddrs(ca); err != nil {
			return out, err
		}
	}
	ep, err := f.opt(12)
	if err != nil {
		return out, err
	}
	if ep != nil {
		if out.EncPAData, err = ParsePAs(ep); err != nil {
			return out, err
		}
	}
	return out, f.done()
}

// ---------------------------------------------------------------------------------------
// AP-REP (RFC 4120 5.5.2)

// ParseAPRep decodes an AP-REP from its full encoding.
func ParseAPRep(b []byte) (APRep, error) {
	var out APRep
	n, err := one(b)
	if err != nil {
		return out, err
	}
	in, err := appInner(n, 15)
	if err != nil {
		return out, err
	}
	f, err := seqOf(in)
	if err != nil {
		return out, err
	}
	pv, err := reqInt(f, 0)
	if err != nil {
		return out, err
	}
	mt, err := reqInt(f, 1)
	if err != nil {
		return out, err
	}
	if pv != 5 || mt != 15 {
		return out, fmt.Errorf("kmsg: AP-REP pvno %d msg-type %d", pv, mt)
	}
	e, err := f.req(2)
	if err != nil {
		return out, err
	}
	if out.Enc, err = ParseEncData(e); err != nil {
		return out, err
	}
	return out, f.done()
}

// ParseEncAPRepPart decodes EncAPRepPart ([APPLICATION 27]) from its full encoding.
func ParseEncAPRepPart(b []byte) (EncAPRepPart, error) {
	var out EncAPRepPart
	n, err := one(b)
	if err != nil {
		return out, err
	}
	in, err := appInner(n, 27)
	if err != nil {
		return out, err
	}
	f, err := seqOf(in)
	if err != nil {
		return out, err
	}
	if out.CTime, err = reqTimeField(f, 0); err != nil {
		return out, err
	}
	cu, err := f.req(1)
	if err != nil {
		return out, err
	}
	if out.Cusec, err = decMicroseconds(cu); err != nil {
		return out, err
	}
	sk, err := f.opt(2)
	if err != nil {
		return out, err
	}
	if sk != nil {
		k, err := ParseKey(sk)
		if err != nil {
			return out, err
		}
		out.Subkey = &k
	}
	sq, err := f.opt(3)
	if err != nil {
		return out, err
	}
	if sq != nil {
		u, err := decUint32(sq)
		if err != nil {
			return out, err
		}
		out.SeqNumber = &u
	}
	return out, f.done()
}

// ---------------------------------------------------------------------------------------
// KRB-PRIV (RFC 4120 5.7.1)

// ParseKRBPriv decodes a KRB-PRIV from its full encoding.
func ParseKRBPriv(b []byte) (KRBPriv, error) {
	var out KRBPriv
	n, err := one(b)
	if err != nil {
		return out, err
	}
	in, err := appInner(n, 21)
	if err != nil {
		return out, err
	}
	f, err := seqOf(in)
	if err != nil {
		return out, err
	}
	pv, err := reqInt(f, 0)
	if err != nil {
		return out, err
	}
	mt, err := reqInt(f, 1)
	if err != nil {
		return out, err
	}
	if pv != 5 || mt != 21 {
		return out, fmt.Errorf("kmsg: KRB-PRIV pvno %d msg-type %d", pv, mt)
	}
	e, err := f.req(3)
	if err != nil {
		return out, err
	}
	if out.Enc, err = ParseEncData(e); err != nil {
		return out, err
	}
	return out, f.done()
}

// ParseEncKrbPrivPart decodes EncKrbPrivPart ([APPLICATION 28]); bytes after the element (cipher
// padding) are returned as rest.
func ParseEncKrbPrivPart(b []byte) (EncKrbPrivPart, []byte, error) {
	var out EncKrbPrivPart
	n, rest, err := der.Parse(b)
	if err != nil {
		return out, nil, err
	}
	in, err := appInner(n, 28)
	if err != nil {
		return out, rest, err
	}
	f, err := seqOf(in)
	if err != nil {
		return out, rest, err
	}
	ud, err := f.req(0)
	if err != nil {
		return out, rest, err
	}
	o, err := ud.AsOctets()
	if err != nil {
		return out, rest, err
	}
	out.UserData = append([]byte{}, o...)
	if out.Timestamp, err = optTimeField(f, 1); err != nil {
		return out, rest, err
	}
	us, err := f.opt(2)
	if err != nil {
		return out, rest, err
	}
	if us != nil {
		v, err := decMicroseconds(us)
		if err != nil {
			return out, rest, err
		}
		out.Usec = &v
	}
	sq, err := f.opt(3)
	if err != nil {
		return out, rest, err
	}
	if sq != nil {
		u, err := decUint32(sq)
		if err != nil {
			return out, rest, err
		}
		out.SeqNumber = &u
	}
	sa, err := f.req(4)
	if err != nil {
		return out, rest, err
	}
	if out.SAddress, err = ParseAddr(sa); err != nil {
		return out, rest, err
	}
	ra, err := f.opt(5)
	if err != nil {
		return out, rest, err
	}
	if ra != nil {
		a, err := ParseAddr(ra)
		if err != nil {
			return out, rest, err
		}
		out.RAddress = &a
	}
	return out, rest, f.done()
}

// ---------------------------------------------------------------------------------------
// ChangePasswdData (RFC 3244 2)

// ParseChangePasswdData decodes ChangePasswdData from its full encoding.
func ParseChangePasswdData(b []byte) (ChangePasswdData, error) {
	var out ChangePasswdData
	n, err := one(b)
	if err != nil {
		return out, err
	}
	f, err := seqOf(n)
	if err != nil {
		return out, err
	}
	np, err := f.req(0)
	if err != nil {
		return out, err
	}
	o, err := np.AsOctets()
	if err != nil {
		return out, err
	}
	out.NewPasswd = append([]byte{}, o...)
	tn, err := f.opt(1)
	if err != nil {
		return out, err
	}
	if tn != nil {
		nm, err := ParseName(tn)
		if err != nil {
			return out, err
		}
		out.TargName = &nm
	}
	tr, err := f.opt(2)
	if err != nil {
		return out, err
	}
	if tr != nil {
		s, err := tr.AsGenString()
		if err != nil {
			return out, err
		}
		out.TargRealm = &s
	}
	return out, f.done()
}

// ---------------------------------------------------------------------------------------
// ETYPE-INFO / ETYPE-INFO2 (RFC 4120 5.2.7.4, 5.2.7.5)

// ParseEtypeInfo decodes ETYPE-INFO.
func ParseEtypeInfo(b []byte) ([]EtypeInfoEntry, error) {
	n, err := one(b)
	if err != nil {
		return nil, err
	}
	if err := n.Expect(der.Universal, der.TagSequence, true); err != nil {
		return nil, err
	}
	out := []EtypeInfoEntry{}
	for _, c := range n.Children {
		f, err := seqOf(c)
		if err != nil {
			return nil, err
		}
		var e EtypeInfoEntry
		t, err := f.req(0)
		if err != nil {
			return nil, err
		}
		if e.Etype, err = decInt32(t); err != nil {
			return nil, err
		}
		s, err := f.opt(1)
		if err != nil {
			return nil, err
		}
		if s != nil {
			o, err := s.AsOctets()
			if err != nil {
				return nil, err
			}
			e.Salt = append([]byte{}, o...)
		}
		if err := f.done(); err != nil {
			return nil, err
		}
		out = append(out, e)
	}
	return out, nil
}

// ParseEtypeInfo2 decodes ETYPE-INFO2.
func ParseEtypeInfo2(b []byte) ([]EtypeInfo2Entry, error) {
	n, err := one(b)
	if err != nil {
		return nil, err
	}
	if err := n.Expect(der.Universal, der.TagSequence, true); err != nil {
		return nil, err
	}
	out := []EtypeInfo2Entry{}
	for _, c := range n.Children {
		f, err := seqOf(c)
		if err != nil {
			return nil, err
		}
		var e EtypeInfo2Entry
		t, err := f.req(0)
		if err != nil {
			return nil, err
		}
		if e.Etype, err = decInt32(t); err != nil {
			return nil, err
		}
		s, err := f.opt(1)
		if err != nil {
			return nil, err
		}
		if s != nil {
			str, err := s.AsGenString()
			if err != nil {
				return nil, err
			}
			e.Salt = &str
		}
		p, err := f.opt(2)
		if err != nil {
			return nil, err
		}
		if p != nil {
			o, err := p.AsOctets()
			if err != nil {
				return nil, err
			}
			e.Params = append([]byte{}, o...)
		}
		if err := f.done(); err != nil {
			return nil, err
		}
		out = append(out, e)
	}
	return out, nil
}

// ---------------------------------------------------------------------------------------
// SPNEGO (RFC 4178 4.2; the module uses EXPLICIT TAGS)

// Well-known mechanism OIDs.
var (
	OIDSPNEGO       = []int{1, 3, 6, 1, 5, 5, 2}
	OIDKRB5         = []int{1, 2, 840, 113554, 1, 2, 2}
	OIDMSLegacyKRB5 = []int{1, 2, 840, 48018, 1, 2, 2}
)

// OIDEqual compares two OIDs.
func OIDEqual(a, b []int) bool {
	if len(a) != len(b) {
		return false
	}
	for i := range a {
		if a[i] != b[i] {
			return false
		}
	}
	return true
}

// BitStr is a BIT STRING value: the octets and the number of unused bits in the last one.
type BitStr struct {
	Bytes  []byte
	Unused int
}

// NegTokenInit (RFC 4178 4.2.1).
type NegTokenInit struct {
	MechTypes   [][]int
	ReqFlags    *BitStr // nil = absent
	MechToken   []byte  // nil = absent
	MechListMIC []byte  // nil = absent
}

// NegTokenResp (RFC 4178 4.2.2).
type NegTokenResp struct {
	NegState      *int64 // nil = absent; 0 accept-completed, 1 accept-incomplete, 2 reject, 3 request-mic
	SupportedMech []int  // nil = absent
	ResponseToken []byte // nil = absent
	MechListMIC   []byte // nil = absent
}

// I64 returns a pointer to v.
func I64(v int64) *int64 { return &v }

func optOctets(tag int, b []byte) []byte {
	if b == nil {
		return nil
	}
	return der.Ctx(tag, der.Octets(b))
}

// DER encodes NegotiationToken ::= CHOICE { negTokenInit [0] NegTokenInit, ... } with the init arm.
func (n NegTokenInit) DER() []byte {
	var mts [][]byte
	for _, m := range n.MechTypes {
		mts = append(mts, der.OID(m...))
	}
	var rf []byte
	if n.ReqFlags != nil {
		rf = der.Ctx(1, der.Bits(n.ReqFlags.Bytes, n.ReqFlags.Unused))
	}
	return der.CtxAlways(0, der.Seq(der.CtxAlways(0, der.Seq(mts...)), rf, optOctets(2, n.MechToken), optOctets(3, n.MechListMIC)))
}

// DER encodes NegotiationToken with the negTokenResp [1] arm.
func (n NegTokenResp) DER() []byte {
	var ns, sm []byte
	if n.NegState != nil {
		ns = der.Ctx(0, der.Enum(*n.NegState))
	}
	if n.SupportedMech != nil {
		sm = der.Ctx(1, der.OID(n.SupportedMech...))
	}
	return der.CtxAlways(1, der.Seq(ns, sm, optOctets(2, n.ResponseToken), optOctets(3, n.MechListMIC)))
}

// decOID decodes an OBJECT IDENTIFIER strictly (every sub-identifier in minimal base-128 form).
func decOID(n *der.Node) ([]int, error) {
	if err := n.Expect(der.Universal, der.TagOID, false); err != nil {
		return nil, err
	}
	c := n.Content
	if len(c) == 0 {
		return nil, errors.New("kmsg: empty OID")
	}
	if c[len(c)-1]&0x80 != 0 {
		return nil, errors.New("kmsg: truncated OID")
	}
	var subs []int
	v, start := 0, true
	for _, o := range c {
		if start && o == 0x80 {
			return nil, errors.New("kmsg: OID sub-identifier with leading 0x80")
		}
		start = false
		if v > (1<<31)>>7 {
			return nil, errors.New("kmsg: OID sub-identifier too large")
		}
		v = v<<7 | int(o&0x7f)
		if o&0x80 == 0 {
			subs = append(subs, v)
			v, start = 0, true
		}
	}
	first := subs[0]
	var out []int
	switch {
	case first < 40:
		out = []int{0, first}
	case first < 80:
		out = []int{1, first - 40}
	default:
		out = []int{2, first - 80}
	}
	return append(out, subs[1:]...), nil
}

func optOctetsField(f *fields, tag int) ([]byte, error) {
	n, err := f.opt(tag)
	if err != nil || n == nil {
		return nil, err
	}
	o, err := n.AsOctets()
	if err != nil {
		return nil, err
	}
	return append([]byte{}, o...), nil
}

// ParseNegToken decodes a NegotiationToken; exactly one of the results is non-nil.
func ParseNegToken(b []byte) (*NegTokenInit, *NegTokenResp, error) {
	n, err := one(b)
	if err != nil {
		return nil, nil, err
	}
	if n.Class != der.Context || !n.Constructed || (n.Tag != 0 && n.Tag != 1) {
		return nil, nil, fmt.Errorf("kmsg: NegotiationToken choice with class %d tag %d constructed %v", n.Class, n.Tag, n.Constructed)
	}
	in, err := n.Inner()
	if err != nil {
		return nil, nil, err
	}
	f, err := seqOf(in)
	if err != nil {
		return nil, nil, err
	}
	if n.Tag == 0 {
		var out NegTokenInit
		mt, err := f.req(0)
		if err != nil {
			return nil, nil, err
		}
		if err := mt.Expect(der.Universal, der.TagSequence, true); err != nil {
			return nil, nil, err
		}
		out.MechTypes = [][]int{}
		for _, c := range mt.Children {
			o, err := decOID(c)
			if err != nil {
				return nil, nil, err
			}
			out.MechTypes = append(out.MechTypes, o)
		}
		rf, err := f.opt(1)
		if err != nil {
			return nil, nil, err
		}
		if rf != nil {
			bs, unused, err := rf.AsBits()
			if err != nil {
				return nil, nil, err
			}
			out.ReqFlags = &BitStr{Bytes: append([]byte{}, bs...), Unused: unused}
		}
		if out.MechToken, err = optOctetsField(f, 2); err != nil {
			return nil, nil, err
		}
		if out.MechListMIC, err = optOctetsField(f, 3); err != nil {
			return nil, nil, err
		}
		return &out, nil, f.done()
	}
	var out NegTokenResp
	ns, err := f.opt(0)
	if err != nil {
		return nil, nil, err
	}
	if ns != nil {
		if err := ns.Expect(der.Universal, der.TagEnumerated, false); err != nil {
			return nil, nil, err
		}
		v, err := ns.AsInt()
		if err != nil {
			return nil, nil, err
		}
		out.NegState = &v
	}
	sm, err := f.opt(1)
	if err != nil {
		return nil, nil, err
	}
	if sm != nil {
		if out.SupportedMech, err = decOID(sm); err != nil {
			return nil, nil, err
		}
	}
	if out.ResponseToken, err = optOctetsField(f, 2); err != nil {
		return nil, nil, err
	}
	if out.MechListMIC, err = optOctetsField(f, 3); err != nil {
		return nil, nil, err
	}
	return nil, &out, f.done()
}

// ---------------------------------------------------------------------------------------
// RFC 2743 3.1 initial context token framing:
//   InitialContextToken ::= [APPLICATION 0] IMPLICIT SEQUENCE { thisMech MechType, innerContextToken ANY DEFINED BY thisMech }
// i.e. 0x60, DER length, OID element, mechanism-specific bytes (not necessarily ASN.1).

// GSSFrame builds the framing.
func GSSFrame(mech []int, inner []byte) []byte {
	return der.TLV(der.Application, 0, true, append(der.OID(mech...), inner...))
}

// header parses one identifier+length header strictly (low tag numbers only) and returns the
// first identifier octet, the header length and the content length.
func header(b []byte) (id byte, hdr, clen int, err error) {
	if len(b) < 2 {
		return 0, 0, 0, errors.New("kmsg: truncated header")
	}
	id = b[0]
	if id&0x1f == 0x1f {
		return 0, 0, 0, errors.New("kmsg: high tag number not expected")
	}
	l := int(b[1])
	hdr = 2
	if l&0x80 != 0 {
		nl := l & 0x7f
		if nl == 0 || nl > 4 {
			return 0, 0, 0, errors.New("kmsg: indefinite or oversized length")
		}
		if len(b) < 2+nl {
			return 0, 0, 0, errors.New("kmsg: truncated length")
		}
		l = 0
		for i := 0; i < nl; i++ {
			l = l<<8 | int(b[2+i])
		}
		if b[2] == 0 || l < 0x80 {
			return 0, 0, 0, errors.New("kmsg: non-minimal length")
		}
		hdr += nl
	}
	return id, hdr, l, nil
}

// ParseGSSFrame strictly parses the framing: the outer length must cover exactly the rest of b.
func ParseGSSFrame(b []byte) (mech []int, inner []byte, err error) {
	id, hdr, clen, err := header(b)
	if err != nil {
		return nil, nil, err
	}
	if id != 0x60 {
		return nil, nil, fmt.Errorf("kmsg: initial context token starts with 0x%02x, not 0x60", id)
	}
	if hdr+clen != len(b) {
		return nil, nil, fmt.Errorf("kmsg: token length octets say %d content bytes, %d present", clen, len(b)-hdr)
	}
	c := b[hdr:]
	on, rest, err := der.Parse(c)
	if err != nil {
		// der.Parse parses only the first element of c: a primitive OID; an error is about that element
		return nil, nil, fmt.Errorf("kmsg: thisMech: %v", err)
	}
	if mech, err = decOID(on); err != nil {
		return nil, nil, err
	}
	return mech, rest, nil
}

// SPNEGOInitDER is the framed initial SPNEGO token carrying a NegTokenInit.
func SPNEGOInitDER(n NegTokenInit) []byte { return GSSFrame(OIDSPNEGO, n.DER()) }

// ParseSPNEGOToken decodes an SPNEGO context token: the framed NegTokenInit of the first
// message, or a bare NegotiationToken (negTokenResp) afterwards.
func ParseSPNEGOToken(b []byte) (*NegTokenInit, *NegTokenResp, error) {
	if len(b) == 0 {
		return nil, nil, errors.New("kmsg: empty token")
	}
	if b[0] == 0x60 {
		mech, inner, err := ParseGSSFrame(b)
		if err != nil {
			return nil, nil, err
		}
		if !OIDEqual(mech, OIDSPNEGO) {
			return nil, nil, fmt.Errorf("kmsg: thisMech %v is not SPNEGO", mech)
		}
		i, r, err := ParseNegToken(inner)
		if err != nil {
			return nil, nil, err
		}
		if i == nil {
			return nil, nil, errors.New("kmsg: framed SPNEGO token does not carry a negTokenInit")
		}
		return i, r, nil
	}
	i, r, err := ParseNegToken(b)
	if err != nil {
		return nil, nil, err
	}
	if r == nil {
		return nil, nil, errors.New("kmsg: negTokenInit without the initial-token framing")
	}
	return i, r, nil
}

// ---------------------------------------------------------------------------------------
// RFC 4121 4.1 Kerberos mechanism context token: framing with the krb5 OID, 2-byte TOK_ID, message.

// Token identifiers.
const (
	TokAPReq = 0x0100
	TokAPRep = 0x0200
	TokError = 0x0300
)

// KRB5Token is the Kerberos 5 initial/subsequent context token.
type KRB5Token struct {
	TokID uint16
	Msg   []byte // encoded AP-REQ / AP-REP / KRB-ERROR
}

// DER encodes the token.
func (k KRB5Token) DER() []byte {
	return GSSFrame(OIDKRB5, append([]byte{byte(k.TokID >> 8), byte(k.TokID)}, k.Msg...))
}

// ParseKRB5Token strictly decodes the token and checks that the message kind matches TOK_ID.
func ParseKRB5Token(b []byte) (KRB5Token, error) {
	var out KRB5Token
	mech, inner, err := ParseGSSFrame(b)
	if err != nil {
		return out, err
	}
	if !OIDEqual(mech, OIDKRB5) {
		return out, fmt.Errorf("kmsg: thisMech %v is not Kerberos 5", mech)
	}
	if len(inner) < 2 {
		return out, errors.New("kmsg: no TOK_ID")
	}
	out.TokID = uint16(inner[0])<<8 | uint16(inner[1])
	out.Msg = append([]byte{}, inner[2:]...)
	n, err := one(out.Msg)
	if err != nil {
		return out, fmt.Errorf("kmsg: message in token: %v", err)
	}
	want := map[uint16]int{TokAPReq: 14, TokAPRep: 15, TokError: 30}[out.TokID]
	if want == 0 {
		return out, fmt.Errorf("kmsg: unknown TOK_ID %04x", out.TokID)
	}
	if n.Class != der.Application || n.Tag != want || !n.Constructed {
		return out, fmt.Errorf("kmsg: TOK_ID %04x with message class %d tag %d", out.TokID, n.Class, n.Tag)
	}
	switch out.TokID {
	case TokAPReq:
		_, err = ParseAPReqNode(n)
	case TokAPRep:
		_, err = ParseAPRep(out.Msg)
	case TokError:
		_, err = ParseKRBErrorNode(n)
	}
	return out, err
}
