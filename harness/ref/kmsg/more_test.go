package kmsg

import (
	"bytes"
	"encoding/hex"
	"os"
	"regexp"
	"testing"
	"time"

	"verif/ref/der"
)

// vectors reads `NAME = "hex"` constants from Go source files of the library under test as text
// (nothing is imported). The Kerberos ones come from the MIT krb5 reference_encode.out suite,
// the SPNEGO ones are captured tokens.
func vectors(t *testing.T, paths ...string) map[string][]byte {
	out := map[string][]byte{}
	re := regexp.MustCompile(`(?m)^\s*([A-Za-z0-9_]+)\s*=\s*"([0-9a-fA-F]+)"`)
	for _, p := range paths {
		src, err := os.ReadFile(p)
		if err != nil {
			continue
		}
		for _, m := range re.FindAllStringSubmatch(string(src), -1) {
			if b, err := hex.DecodeString(m[2]); err == nil {
				out[m[1]] = b
			}
		}
	}
	return out
}

var tm = time.Date(1994, 6, 10, 6, 3, 17, 0, time.UTC)

func TestMITVectors(t *testing.T) {
	v := vectors(t, "/repo/v8/test/testdata/test_vectors.go")
	if len(v) < 40 {
		t.Skip("test vectors not available")
	}
	name := N(1, "hftsai", "extra")
	// every entry: decode strictly, check a few expected field values, re-encode byte for byte
	type tc struct {
		name string
		f    func(b []byte) ([]byte, error)
	}
	ok := func(c bool, what string) {
		t.Helper()
		if !c {
			t.Errorf("unexpected field value: %s", what)
		}
	}
	cases := []tc{
		{"MarshaledKRB5error", func(b []byte) ([]byte, error) {
			m, err := ParseKRBError(b)
			if err == nil {
				ok(m.CTime != nil && m.CTime.Equal(tm) && m.Cusec != nil && *m.Cusec == 123456 && m.STime.Equal(tm) && m.Susec == 123456, "times")
				ok(m.Code == 60 && m.CRealm != nil && *m.CRealm == "ATHENA.MIT.EDU" && m.CName != nil && m.CName.Equal(name) && m.Realm == "ATHENA.MIT.EDU" && m.SName.Equal(name), "names")
				ok(m.EText != nil && *m.EText == "krb5data" && string(m.EData) == "krb5data", "etext/edata")
			}
			return m.DER(), err
		}},
		{"MarshaledKRB5errorOptionalsNULL", func(b []byte) ([]byte, error) {
			m, err := ParseKRBError(b)
			if err == nil {
				ok(m.CTime == nil && m.Cusec != nil && m.CRealm == nil && m.CName == nil && m.EText == nil && m.EData == nil, "optionals absent")
			}
			return m.DER(), err
		}},
		{"MarshaledKRB5enc_kdc_rep_part", func(b []byte) ([]byte, error) {
			m, err := ParseEncKDCRepPart(b)
			if err == nil {
				ok(m.AppTag == 26 && m.Key.Type == 1 && string(m.Key.Value) == "12345678" && len(m.LastReqs) == 2 && m.LastReqs[0].Type == -5 && m.Nonce == 42, "key/lastreq/nonce")
				ok(m.Flags == 0xFEDCBA98 && m.KeyExpiration != nil && m.StartTime != nil && m.RenewTill != nil && m.SRealm == "ATHENA.MIT.EDU" && m.SName.Equal(name) && len(m.CAddr) == 2, "flags/times/names")
				ok(m.CAddr[0].Type == 2 && bytes.Equal(m.CAddr[0].Data, []byte{0x12, 0xd0, 0x00, 0x23}), "caddr")
			}
			return m.DER(), err
		}},
		{"MarshaledKRB5enc_kdc_rep_partOptionalsNULL", func(b []byte) ([]byte, error) {
			m, err := ParseEncKDCRepPart(b)
			if err == nil {
				ok(m.KeyExpiration == nil && m.StartTime == nil && m.RenewTill == nil && m.CAddr == nil && m.EncPAData == nil, "optionals absent")
			}
			return m.DER(), err
		}},
		{"MarshaledKRB5as_rep", func(b []byte) ([]byte, error) {
			m, err := ParseKDCRep(b)
			if err == nil {
				ok(m.MsgType == 11 && len(m.PAData) == 2 && m.PAData[0].Type == 13 && string(m.PAData[0].Value) == "pa-data" && m.CRealm == "ATHENA.MIT.EDU" && m.CName.Equal(name), "fields")
				ok(m.Enc.Etype == 0 && m.Enc.Kvno != nil && *m.Enc.Kvno == 5 && string(m.Enc.Cipher) == "krbASN.1 test message", "enc-part")
				tk, terr := ParseTicket(m.Ticket)
				ok(terr == nil && tk.Realm == "ATHENA.MIT.EDU" && tk.SName.Equal(name), "ticket")
			}
			return m.DER(), err
		}},
		{"MarshaledKRB5as_repOptionalsNULL", func(b []byte) ([]byte, error) {
			m, err := ParseKDCRep(b)
			ok(m.PAData == nil, "padata absent")
			return m.DER(), err
		}},
		{"MarshaledKRB5tgs_rep", func(b []byte) ([]byte, error) {
			m, err := ParseKDCRep(b)
			ok(m.MsgType == 13, "msg-type")
			return m.DER(), err
		}},
		{"MarshaledKRB5tgs_repOptionalsNULL", func(b []byte) ([]byte, error) { m, err := ParseKDCRep(b); return m.DER(), err }},
		{"MarshaledKRB5ap_rep", func(b []byte) ([]byte, error) { m, err := ParseAPRep(b); return m.DER(), err }},
		{"MarshaledKRB5ap_rep_enc_part", func(b []byte) ([]byte, error) {
			m, err := ParseEncAPRepPart(b)
			if err == nil {
				ok(m.CTime.Equal(tm) && m.Cusec == 123456 && m.Subkey != nil && m.Subkey.Type == 1 && m.SeqNumber != nil && *m.SeqNumber == 17, "fields")
			}
			return m.DER(), err
		}},
		{"MarshaledKRB5ap_rep_enc_partOptionalsNULL", func(b []byte) ([]byte, error) {
			m, err := ParseEncAPRepPart(b)
			ok(m.Subkey == nil && m.SeqNumber == nil, "optionals absent")
			return m.DER(), err
		}},
		{"MarshaledKRB5priv", func(b []byte) ([]byte, error) {
			m, err := ParseKRBPriv(b)
			ok(string(m.Enc.Cipher) == "krbASN.1 test message", "cipher")
			return m.DER(), err
		}},
		{"MarshaledKRB5enc_priv_part", func(b []byte) ([]byte, error) {
			m, rest, err := ParseEncKrbPrivPart(b)
			if err == nil {
				ok(len(rest) == 0 && string(m.UserData) == "krb5data" && m.Timestamp != nil && m.Usec != nil && *m.Usec == 123456 && m.SeqNumber != nil && *m.SeqNumber == 17 && m.SAddress.Type == 2 && m.RAddress != nil, "fields")
			}
			return m.DER(), err
		}},
		{"MarshaledKRB5enc_priv_partOptionalsNULL", func(b []byte) ([]byte, error) {
			m, _, err := ParseEncKrbPrivPart(b)
			ok(m.Timestamp == nil && m.Usec == nil && m.SeqNumber == nil && m.RAddress == nil, "optionals absent")
			return m.DER(), err
		}},
		{"MarshaledKRB5etype_info", func(b []byte) ([]byte, error) {
			m, err := ParseEtypeInfo(b)
			ok(len(m) == 3 && string(m[0].Salt) == "Morton's #0" && m[1].Salt == nil && m[2].Etype == 2, "entries")
			return EtypeInfoDER(m), err
		}},
		{"MarshaledKRB5etype_infoOnly1", func(b []byte) ([]byte, error) { m, err := ParseEtypeInfo(b); return EtypeInfoDER(m), err }},
		{"MarshaledKRB5etype_infoNoInfo", func(b []byte) ([]byte, error) { m, err := ParseEtypeInfo(b); return EtypeInfoDER(m), err }},
		{"MarshaledKRB5etype_info2", func(b []byte) ([]byte, error) {
			m, err := ParseEtypeInfo2(b)
			ok(len(m) == 3 && m[0].Salt != nil && *m[0].Salt == "Morton's #0" && string(m[0].Params) == "s2k: 0" && m[1].Salt == nil, "entries")
			return EtypeInfo2DER(m), err
		}},
		{"MarshaledKRB5etype_info2Only1", func(b []byte) ([]byte, error) { m, err := ParseEtypeInfo2(b); return EtypeInfo2DER(m), err }},
		{"MarshaledChangePasswdData", func(b []byte) ([]byte, error) {
			m, err := ParseChangePasswdData(b)
			if err == nil {
				ok(string(m.NewPasswd) == "newpassword" && m.TargName != nil && m.TargName.Equal(N(1, "testuser1")) && m.TargRealm != nil && *m.TargRealm == "TEST.GOKRB5", "fields")
			}
			return m.DER(), err
		}},
		// types whose decoders live in types.go: byte-exact re-encoding through the model
		{"MarshaledKRB5ticket", func(b []byte) ([]byte, error) { m, err := ParseTicket(b); return m.DER(), err }},
		{"MarshaledKRB5authenticator", func(b []byte) ([]byte, error) { m, err := ParseAuthenticatorStrict(b); return m.DER(), err }},
		{"MarshaledKRB5authenticatorOptionalsNULL", func(b []byte) ([]byte, error) { m, err := ParseAuthenticatorStrict(b); return m.DER(), err }},
		{"MarshaledKRB5enc_tkt_part", func(b []byte) ([]byte, error) { m, err := ParseEncTicketPartStrict(b); return m.DER(), err }},
		{"MarshaledKRB5enc_tkt_partOptionalsNULL", func(b []byte) ([]byte, error) { m, err := ParseEncTicketPartStrict(b); return m.DER(), err }},
		{"MarshaledKRB5ap_req", func(b []byte) ([]byte, error) { m, err := ParseAPReq(b); return m.DER(), err }},
		{"MarshaledKRB5as_req", func(b []byte) ([]byte, error) { m, err := ParseKDCReq(b); return m.DER(), err }},
		{"MarshaledKRB5as_reqOptionalsNULLexceptsecond_ticket", func(b []byte) ([]byte, error) { m, err := ParseKDCReq(b); return m.DER(), err }},
		{"MarshaledKRB5as_reqOptionalsNULLexceptserver", func(b []byte) ([]byte, error) { m, err := ParseKDCReq(b); return m.DER(), err }},
		{"MarshaledKRB5tgs_req", func(b []byte) ([]byte, error) { m, err := ParseKDCReq(b); return m.DER(), err }},
		{"MarshaledKRB5kdc_req_body", func(b []byte) ([]byte, error) {
			m, err := ParseKDCReqBody(b)
			if err == nil {
				ok(m.Options == 0xFEDCBA90 && m.Nonce == 42 && len(m.Etypes) == 2 && len(m.AddTickets) == 2 && m.EncAuthz != nil, "fields")
			}
			return m.DER(), err
		}},
		{"MarshaledKRB5kdc_req_bodyOptionalsNULLexceptsecond_ticket", func(b []byte) ([]byte, error) { m, err := ParseKDCReqBody(b); return m.DER(), err }},
		{"MarshaledKRB5enc_data", func(b []byte) ([]byte, error) { m, err := ParseEncDataBytes(b); return m.DER(), err }},
		{"MarshaledKRB5pa_enc_ts", func(b []byte) ([]byte, error) { m, err := ParsePAEncTSEnc(b); return m.DER(), err }},
	}
	for _, c := range cases {
		b, found := v[c.name]
		if !found {
			t.Errorf("%s: vector not found", c.name)
			continue
		}
		re, err := c.f(b)
		if err != nil {
			t.Errorf("%s: strict decoder rejects the MIT encoding: %v", c.name, err)
			continue
		}
		if !bytes.Equal(re, b) {
			t.Errorf("%s: re-encoding differs\n got %x\nwant %x", c.name, re, b)
		}
	}
	// MIT encodes a kvno with the top bit set as a negative INTEGER in two old vectors: UInt32 says reject
	for _, n := range []string{"MarshaledKRB5enc_dataMSBSetkvno", "MarshaledKRB5enc_dataKVNONegOne"} {
		if b, found := v[n]; found {
			if _, err := ParseEncDataBytes(b); err == nil {
				t.Errorf("%s: negative kvno accepted as UInt32", n)
			}
		}
	}
}

func TestSPNEGOVectors(t *testing.T) {
	v := vectors(t, "/repo/v8/spnego/spnego_test.go", "/repo/v8/spnego/negotiationToken_test.go", "/repo/v8/spnego/krb5Token_test.go")
	if len(v) < 4 {
		t.Skip("captured SPNEGO tokens not available")
	}
	if b, found := v["testGSSAPIInit"]; found {
		i, r, err := ParseSPNEGOToken(b)
		if err != nil || i == nil || r != nil {
			t.Fatalf("testGSSAPIInit: %v", err)
		}
		if len(i.MechTypes) != 4 || !OIDEqual(i.MechTypes[0], OIDKRB5) || i.ReqFlags != nil || i.MechListMIC != nil {
			t.Errorf("testGSSAPIInit: unexpected fields %+v", i.MechTypes)
		}
		if !bytes.Equal(SPNEGOInitDER(*i), b) {
			t.Errorf("testGSSAPIInit: re-encoding differs")
		}
		k, err := ParseKRB5Token(i.MechToken)
		if err != nil || k.TokID != TokAPReq {
			t.Errorf("testGSSAPIInit mech token: %v", err)
		} else if !bytes.Equal(k.DER(), i.MechToken) {
			t.Errorf("mech token re-encoding differs")
		}
	}
	if b, found := v["testNegTokenInit"]; found {
		i, _, err := ParseNegToken(b)
		if err != nil || i == nil || !bytes.Equal(i.DER(), b) {
			t.Errorf("testNegTokenInit: %v", err)
		}
	}
	for _, n := range []string{"testGSSAPIResp", "testNegTokenResp"} {
		if b, found := v[n]; found {
			_, r, err := ParseSPNEGOToken(b)
			if err != nil || r == nil {
				t.Fatalf("%s: %v", n, err)
			}
			if r.NegState == nil || *r.NegState != 0 || !OIDEqual(r.SupportedMech, OIDKRB5) || r.ResponseToken != nil || r.MechListMIC != nil {
				t.Errorf("%s: unexpected fields %+v", n, r)
			}
			if !bytes.Equal(r.DER(), b) {
				t.Errorf("%s: re-encoding differs", n)
			}
		}
	}
	if b, found := v["KRB5TokenHex"]; found {
		k, err := ParseKRB5Token(b)
		if err != nil || k.TokID != TokAPReq {
			t.Fatalf("KRB5TokenHex: %v", err)
		}
		if !bytes.Equal(k.DER(), b) {
			t.Errorf("KRB5TokenHex: re-encoding differs")
		}
		a, err := ParseAPReq(k.Msg)
		if err != nil || a.Options != 0 {
			t.Errorf("KRB5TokenHex AP-REQ: %v", err)
		}
	}
}

func TestRoundTripsMore(t *testing.T) {
	s := func(x string) *string { return &x }
	iv := func(x int) *int { return &x }
	nm := N(2, "host", "", "a.example.com")
	long := string(bytes.Repeat([]byte("x"), 70000))
	tk := Ticket{Vno: 5, Realm: "R", SName: nm, Enc: EncData{Etype: 18, Kvno: U32(4294967295), Cipher: []byte{1, 2, 3}}}.DER()

	ke := KRBError{MsgType: 30, CTime: T(tm), Cusec: iv(999999), STime: tm, Susec: 0, Code: -2147483648, CRealm: s(""), CName: &Name{Type: -1, Parts: []string{}}, Realm: long, SName: nm, EText: s("text"), EData: []byte{}}
	if d, err := ParseKRBError(ke.DER()); err != nil || !bytes.Equal(d.DER(), ke.DER()) || d.EData == nil || d.CName == nil || len(d.CName.Parts) != 0 {
		t.Errorf("KRB-ERROR round trip: %v", err)
	}
	ke2 := KRBError{STime: tm, Code: 6, Realm: "R", SName: nm}
	if d, err := ParseKRBError(ke2.DER()); err != nil || !bytes.Equal(d.DER(), ke2.DER()) || d.EData != nil || d.CTime != nil || d.Cusec != nil || d.EText != nil {
		t.Errorf("KRB-ERROR (no optionals) round trip: %v", err)
	}
	for _, mt := range []int{11, 13} {
		kr := KDCRep{MsgType: mt, PAData: []PA{{Type: 19, Value: []byte{}}}, CRealm: "R", CName: nm, Ticket: tk, Enc: EncData{Etype: -1, Cipher: []byte(long)}}
		if d, err := ParseKDCRep(kr.DER()); err != nil || !bytes.Equal(d.DER(), kr.DER()) {
			t.Errorf("KDC-REP %d round trip: %v", mt, err)
		}
		kr.AppTag = 24 - mt // mismatch between tag and msg-type must be rejected
		if _, err := ParseKDCRep(kr.DER()); err == nil {
			t.Errorf("KDC-REP with msg-type %d under tag %d accepted", mt, kr.AppTag)
		}
	}
	for _, at := range []int{25, 26} {
		ep := EncKDCRepPart{AppTag: at, Key: Key{Type: 18, Value: make([]byte, 32)}, LastReqs: []LastReq{{Type: 0, Value: tm}, {Type: -2147483648, Value: tm}}, Nonce: 4294967295,
			KeyExpiration: T(tm), Flags: 1, AuthTime: tm, EndTime: tm, RenewTill: T(tm), SRealm: "", SName: N(0), CAddr: []Addr{}, EncPAData: []PA{{Type: 149, Value: []byte{1}}}}
		d, err := ParseEncKDCRepPart(ep.DER())
		if err != nil || !bytes.Equal(d.DER(), ep.DER()) || d.CAddr == nil || d.StartTime != nil {
			t.Errorf("EncKDCRepPart %d round trip: %v", at, err)
		}
	}
	pp := EncKrbPrivPart{UserData: []byte{}, Usec: iv(1), SeqNumber: U32(0), SAddress: Addr{Type: 2, Data: []byte{127, 0, 0, 1}}}
	if d, rest, err := ParseEncKrbPrivPart(append(pp.DER(), 0, 0, 0)); err != nil || !bytes.Equal(d.DER(), pp.DER()) || len(rest) != 3 {
		t.Errorf("EncKrbPrivPart round trip: %v", err)
	}
	cp := ChangePasswdData{NewPasswd: []byte("pw"), TargRealm: s("R")}
	if d, err := ParseChangePasswdData(cp.DER()); err != nil || !bytes.Equal(d.DER(), cp.DER()) || d.TargName != nil {
		t.Errorf("ChangePasswdData round trip: %v", err)
	}

	ni := NegTokenInit{MechTypes: [][]int{OIDKRB5, OIDMSLegacyKRB5, {2, 999, 3}, {0, 39, 16383, 16384}}, ReqFlags: &BitStr{Bytes: []byte{0x76}, Unused: 1}, MechToken: []byte{}, MechListMIC: []byte(long)}
	i, r, err := ParseNegToken(ni.DER())
	if err != nil || r != nil || !bytes.Equal(i.DER(), ni.DER()) || i.MechToken == nil || !OIDEqual(i.MechTypes[3], ni.MechTypes[3]) || i.ReqFlags.Unused != 1 {
		t.Errorf("NegTokenInit round trip: %v", err)
	}
	if i2, _, err := ParseSPNEGOToken(SPNEGOInitDER(ni)); err != nil || !bytes.Equal(i2.DER(), ni.DER()) {
		t.Errorf("framed NegTokenInit round trip: %v", err)
	}
	if _, _, err := ParseSPNEGOToken(ni.DER()); err == nil {
		t.Errorf("unframed NegTokenInit accepted as SPNEGO token")
	}
	for _, nr := range []NegTokenResp{{}, {NegState: I64(3)}, {SupportedMech: OIDKRB5, ResponseToken: []byte{1}}, {NegState: I64(0), SupportedMech: OIDKRB5, ResponseToken: []byte{}, MechListMIC: []byte{9}}} {
		_, r, err := ParseSPNEGOToken(nr.DER())
		if err != nil || !bytes.Equal(r.DER(), nr.DER()) || (nr.NegState == nil) != (r.NegState == nil) || (nr.ResponseToken == nil) != (r.ResponseToken == nil) {
			t.Errorf("NegTokenResp %+v round trip: %v", nr, err)
		}
	}
	ar := APReq{Options: 0x20000000, Ticket: tk, Auth: EncData{Etype: 17, Cipher: []byte{5}}}.DER()
	for _, k := range []KRB5Token{{TokID: TokAPReq, Msg: ar}, {TokID: TokAPRep, Msg: APRep{Enc: EncData{Etype: 17, Cipher: []byte{5}}}.DER()}, {TokID: TokError, Msg: ke2.DER()}} {
		d, err := ParseKRB5Token(k.DER())
		if err != nil || d.TokID != k.TokID || !bytes.Equal(d.Msg, k.Msg) {
			t.Errorf("KRB5 token %04x round trip: %v", k.TokID, err)
		}
	}
	// negative cases of the strict parsers
	bad := [][]byte{
		GSSFrame(OIDSPNEGO, ar),                                         // wrong mech for ParseKRB5Token
		KRB5Token{TokID: TokAPRep, Msg: ar}.DER(),                       // TOK_ID does not match the message
		KRB5Token{TokID: 0x0400, Msg: ar}.DER(),                         // unknown TOK_ID
		append(KRB5Token{TokID: TokAPReq, Msg: ar}.DER(), 0),            // trailing byte
		append([]byte{0x60, 0x81, 0x0b}, GSSFrame(OIDKRB5, nil)[2:]...), // non-minimal length
	}
	for n, b := range bad {
		if _, err := ParseKRB5Token(b); err == nil {
			t.Errorf("bad KRB5 token %d accepted", n)
		}
	}
	// a NegTokenResp whose negState is an INTEGER instead of ENUMERATED, and an implicit (primitive) context tag
	if _, _, err := ParseNegToken(der.CtxAlways(1, der.Seq(der.Ctx(0, der.Int(0))))); err == nil {
		t.Errorf("INTEGER negState accepted")
	}
	if _, _, err := ParseNegToken(der.CtxAlways(1, der.Seq(der.TLV(der.Context, 0, false, []byte{0})))); err == nil {
		t.Errorf("implicitly tagged negState accepted")
	}
	if _, err := ParseKRBError(KRBError{STime: tm, Susec: 1000000, Code: 6, Realm: "R", SName: nm}.DER()); err == nil {
		t.Errorf("susec 1000000 accepted")
	}
}
