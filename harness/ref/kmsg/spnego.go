package kmsg

// Reference SPNEGO (RFC 4178) and GSS-API initial-token framing (RFC 2743 section 3.1, RFC 4121
// section 4.1) encoders, plus a deliberately lenient AP-REQ extractor used by soundness oracles.
// Written from the RFCs only; imports nothing from gokrb5. Every identifier is prefixed "Sp".

import (
	"bytes"
	"errors"

	"verif/ref/der"
)

// Object identifiers.
var (
	SpOIDSPNEGO = []int{1, 3, 6, 1, 5, 5, 2}             // RFC 4178
	SpOIDKRB5   = []int{1, 2, 840, 113554, 1, 2, 2}      // RFC 4121
	SpOIDMSKRB5 = []int{1, 2, 840, 48018, 1, 2, 2}       // MS legacy Kerberos (off-by-one typo OID)
	SpOIDNTLM   = []int{1, 3, 6, 1, 4, 1, 311, 2, 2, 10} // NTLMSSP (a foreign mechanism)
)

// TOK_ID values of the Kerberos mechanism's context tokens (RFC 4121 4.1).
var (
	SpTokAPReq = []byte{0x01, 0x00}
	SpTokAPRep = []byte{0x02, 0x00}
	SpTokError = []byte{0x03, 0x00}
)

// SpGSSFrame is the RFC 2743 3.1 initial context token: [APPLICATION 0] IMPLICIT SEQUENCE
// { thisMech OID, innerContextToken }: 0x60 len OID inner.
func SpGSSFrame(oid []int, inner []byte) []byte {
	c := append([]byte{}, der.OID(oid...)...)
	c = append(c, inner...)
	return der.TLV(der.Application, 0, true, c)
}

// SpKRB5Token is a Kerberos mechanism context token: GSS frame with the KRB5 OID around
// TOK_ID || message.
func SpKRB5Token(tokID []byte, msg []byte) []byte { return SpKRB5TokenOID(SpOIDKRB5, tokID, msg) }

// SpKRB5TokenOID is SpKRB5Token under an arbitrary mechanism OID.
func SpKRB5TokenOID(oid []int, tokID []byte, msg []byte) []byte {
	in := append([]byte{}, tokID...)
	in = append(in, msg...)
	return SpGSSFrame(oid, in)
}

// SpNegTokenInit is RFC 4178 4.2.1 NegTokenInit.
type SpNegTokenInit struct {
	MechTypes     [][]int // encoded even when empty unless OmitMechTypes
	OmitMechTypes bool
	ReqFlags      []byte // nil = absent; else the BIT STRING bytes (7 flag bits, 1 unused)
	MechToken     []byte // nil = absent
	MechListMIC   []byte // nil = absent
}

// DER encodes the NegotiationToken CHOICE alternative [0] NegTokenInit.
func (n SpNegTokenInit) DER() []byte {
	var mt, rf, tok, mic []byte
	if !n.OmitMechTypes {
		var oids [][]byte
		for _, o := range n.MechTypes {
			oids = append(oids, der.OID(o...))
		}
		mt = der.CtxAlways(0, der.Seq(oids...))
	}
	if n.ReqFlags != nil {
		rf = der.Ctx(1, der.Bits(n.ReqFlags, 1))
	}
	if n.MechToken != nil {
		tok = der.Ctx(2, der.Octets(n.MechToken))
	}
	if n.MechListMIC != nil {
		mic = der.Ctx(3, der.Octets(n.MechListMIC))
	}
	return der.CtxAlways(0, der.Seq(mt, rf, tok, mic))
}

// GSS is the initial SPNEGO token as sent on the wire: GSS frame with the SPNEGO OID around the
// NegotiationToken.
func (n SpNegTokenInit) GSS() []byte { return SpGSSFrame(SpOIDSPNEGO, n.DER()) }

// SpNegTokenResp is RFC 4178 4.2.2 NegTokenResp.
type SpNegTokenResp struct {
	NegState      *int  // nil = absent; 0 accept-completed, 1 accept-incomplete, 2 reject, 3 request-mic
	SupportedMech []int // nil = absent
	ResponseToken []byte
	MechListMIC   []byte
}

// SpInt returns a pointer to v.
func SpInt(v int) *int { return &v }

// DER encodes the NegotiationToken CHOICE alternative [1] NegTokenResp (sent without GSS frame).
func (n SpNegTokenResp) DER() []byte {
	var st, sm, tok, mic []byte
	if n.NegState != nil {
		st = der.Ctx(0, der.Enum(int64(*n.NegState)))
	}
	if n.SupportedMech != nil {
		sm = der.Ctx(1, der.OID(n.SupportedMech...))
	}
	if n.ResponseToken != nil {
		tok = der.Ctx(2, der.Octets(n.ResponseToken))
	}
	if n.MechListMIC != nil {
		mic = der.Ctx(3, der.Octets(n.MechListMIC))
	}
	return der.CtxAlways(1, der.Seq(st, sm, tok, mic))
}

// ---------------------------------------------------------------------------------------
// lenient extraction

// SpFound is one AP-REQ located inside arbitrary bytes.
type SpFound struct {
	Offset int
	Strict bool   // the element is strict DER and decodes with ParseAPReqNode
	DER    []byte // canonical re-encoding (SpNormalizeAPReq); byte-identical to the element for a well-formed request with pvno 5
}

// SpFindAPReqs returns every offset of b at which a BER/DER [APPLICATION 14] element starts
// that can be read as an AP-REQ, strictly (ParseAPReqNode) or leniently (SpNormalizeAPReq).
// It is a superset extractor for soundness oracles: whatever framing surrounds the request
// (GSS, SPNEGO, octet strings, junk) is ignored, trailing bytes are ignored, pvno / msg-type /
// tkt-vno and string or integer encodings are not judged. Results are distinct by DER.
func SpFindAPReqs(b []byte) []SpFound {
	var out []SpFound
	seen := map[string]bool{}
	for i := 0; i+2 <= len(b); i++ {
		if b[i] != 0x6e {
			continue
		}
		n, _, err := der.ParseWith(b[i:], der.ParseOpts{AllowBER: true})
		if err != nil {
			continue
		}
		f := SpFound{Offset: i}
		if _, err := ParseAPReqNode(n); err == nil {
			if sn, _, err2 := der.Parse(b[i:]); err2 == nil && bytes.Equal(sn.Raw, n.Raw) {
				f.Strict = true
			}
		}
		d, err := SpNormalizeAPReq(n)
		if err != nil {
			if !f.Strict {
				continue
			}
			d = append([]byte{}, n.Raw...)
		}
		f.DER = d
		if seen[string(f.DER)] {
			continue
		}
		seen[string(f.DER)] = true
		out = append(out, f)
	}
	return out
}

func spField(seq *der.Node, tag int) *der.Node {
	if seq == nil {
		return nil
	}
	for _, c := range seq.Children {
		if c.Class == der.Context && c.Tag == tag && c.Constructed && len(c.Children) >= 1 {
			return c.Children[0]
		}
	}
	return nil
}

func spInt(n *der.Node) (int64, bool) {
	if n == nil || n.Constructed || len(n.Content) == 0 || len(n.Content) > 8 {
		return 0, false
	}
	var v int64
	if n.Content[0]&0x80 != 0 {
		v = -1
	}
	for _, c := range n.Content {
		v = v<<8 | int64(c)
	}
	return v, true
}

func spEncData(n *der.Node) (EncData, error) {
	var e EncData
	if n == nil || !n.Constructed {
		return e, errors.New("kmsg: no EncryptedData")
	}
	et, ok := spInt(spField(n, 0))
	if !ok || et < -(1<<31) || et > (1<<31)-1 {
		return e, errors.New("kmsg: no etype")
	}
	e.Etype = int32(et)
	if k := spField(n, 1); k != nil {
		if kv, ok := spInt(k); ok {
			u := uint32(kv)
			e.Kvno = &u
		}
	}
	c := spField(n, 2)
	if c == nil || c.Constructed {
		return e, errors.New("kmsg: no cipher")
	}
	e.Cipher = c.Content
	return e, nil
}

// SpNormalizeAPReq reads an [APPLICATION 14] element leniently (fields located by context tag,
// any primitive accepted for strings and integers, unknown or trailing fields ignored, pvno,
// msg-type and tkt-vno not read) and re-encodes what it found as a canonical AP-REQ with pvno 5,
// msg-type 14 and tkt-vno 5, so that the reference acceptor can judge its cryptographic content.
func SpNormalizeAPReq(n *der.Node) ([]byte, error) {
	if n == nil || n.Class != der.Application || n.Tag != 14 || !n.Constructed || len(n.Children) < 1 {
		return nil, errors.New("kmsg: not an [APPLICATION 14] element")
	}
	seq := n.Children[0]
	if !seq.Constructed {
		return nil, errors.New("kmsg: AP-REQ body not constructed")
	}
	var opts uint32
	if o := spField(seq, 2); o != nil && !o.Constructed && len(o.Content) > 1 {
		bs := o.Content[1:]
		for i := 0; i < 4; i++ {
			opts <<= 8
			if i < len(bs) {
				opts |= uint32(bs[i])
			}
		}
	}
	t := spField(seq, 3)
	if t == nil || t.Class != der.Application || t.Tag != 1 || !t.Constructed || len(t.Children) < 1 {
		return nil, errors.New("kmsg: no ticket")
	}
	ts := t.Children[0]
	if !ts.Constructed {
		return nil, errors.New("kmsg: ticket body not constructed")
	}
	var tk Ticket
	tk.Vno = 5
	r := spField(ts, 1)
	if r == nil || r.Constructed {
		return nil, errors.New("kmsg: no realm")
	}
	tk.Realm = string(r.Content)
	sn := spField(ts, 2)
	if sn == nil || !sn.Constructed {
		return nil, errors.New("kmsg: no sname")
	}
	if nt, ok := spInt(spField(sn, 0)); ok && nt >= -(1<<31) && nt <= (1<<31)-1 {
		tk.SName.Type = int32(nt)
	}
	tk.SName.Parts = []string{}
	if ns := spField(sn, 1); ns != nil && ns.Constructed {
		for _, c := range ns.Children {
			if c.Constructed {
				return nil, errors.New("kmsg: constructed name component")
			}
			tk.SName.Parts = append(tk.SName.Parts, string(c.Content))
		}
	}
	var err error
	if tk.Enc, err = spEncData(spField(ts, 3)); err != nil {
		return nil, err
	}
	au, err := spEncData(spField(seq, 4))
	if err != nil {
		return nil, err
	}
	return APReq{Pvno: 5, MsgType: 14, Options: opts, Ticket: tk.DER(), Auth: au}.DER(), nil
}

// SpTokIDs scans b for the DER encoding of the KRB5 mechanism OID and returns the two bytes that
// follow each occurrence when they look like a TOK_ID (second byte 0x00, first 1..3). Used only to
// label observations (which kind of Kerberos mechanism token a byte string carries).
func SpTokIDs(b []byte) [][]byte {
	oid := der.OID(SpOIDKRB5...)
	var out [][]byte
	for i := 0; i+len(oid)+2 <= len(b); i++ {
		if bytes.Equal(b[i:i+len(oid)], oid) {
			t := b[i+len(oid) : i+len(oid)+2]
			if t[1] == 0 && t[0] >= 1 && t[0] <= 3 {
				out = append(out, []byte{t[0], t[1]})
			}
		}
	}
	return out
}
