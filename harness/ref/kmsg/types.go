// Package kmsg is an independent model of the Kerberos (RFC 4120), SPNEGO (RFC 4178), GSS
// framing (RFC 2743/4121) and kpasswd (RFC 3244) messages: plain Go structs with DER encoders
// and strict decoders built on ref/der. It imports nothing from gokrb5.
package kmsg

import (
	"errors"
	"fmt"
	"time"

	"verif/ref/der"
)

// Name is a PrincipalName.
type Name struct {
	Type  int32
	Parts []string
}

// N builds a name of type 1 (NT-PRINCIPAL) / 2 (NT-SRV-INST) as given.
func N(t int32, parts ...string) Name { return Name{Type: t, Parts: parts} }

// Equal compares component lists only (RFC 4120 6.2: the type is not significant).
func (n Name) Equal(o Name) bool {
	if len(n.Parts) != len(o.Parts) {
		return false
	}
	for i := range n.Parts {
		if n.Parts[i] != o.Parts[i] {
			return false
		}
	}
	return true
}

func (n Name) String() string {
	s := ""
	for i, p := range n.Parts {
		if i > 0 {
			s += "/"
		}
		s += p
	}
	return s
}

// DER encodes the PrincipalName.
func (n Name) DER() []byte {
	var parts [][]byte
	for _, p := range n.Parts {
		parts = append(parts, der.GenString(p))
	}
	return der.Seq(der.Ctx(0, der.Int(int64(n.Type))), der.CtxAlways(1, der.Seq(parts...)))
}

// EncData is EncryptedData.
type EncData struct {
	Etype  int32
	Kvno   *uint32
	Cipher []byte
}

// U32 returns a pointer to v.
func U32(v uint32) *uint32 { return &v }

// T returns a pointer to t.
func T(t time.Time) *time.Time { return &t }

// DER encodes EncryptedData.
func (e EncData) DER() []byte {
	var kv []byte
	if e.Kvno != nil {
		kv = der.Ctx(1, der.Int(int64(*e.Kvno)))
	}
	return der.Seq(der.Ctx(0, der.Int(int64(e.Etype))), kv, der.Ctx(2, der.Octets(e.Cipher)))
}

// Key is EncryptionKey.
type Key struct {
	Type  int32
	Value []byte
}

// DER encodes EncryptionKey.
func (k Key) DER() []byte {
	return der.Seq(der.Ctx(0, der.Int(int64(k.Type))), der.Ctx(1, der.Octets(k.Value)))
}

// Cksum is Checksum.
type Cksum struct {
	Type int32
	Sum  []byte
}

// DER encodes Checksum.
func (c Cksum) DER() []byte {
	return der.Seq(der.Ctx(0, der.Int(int64(c.Type))), der.Ctx(1, der.Octets(c.Sum)))
}

// Addr is HostAddress.
type Addr struct {
	Type int32
	Data []byte
}

// DER encodes HostAddress.
func (a Addr) DER() []byte {
	return der.Seq(der.Ctx(0, der.Int(int64(a.Type))), der.Ctx(1, der.Octets(a.Data)))
}

// AddrsDER encodes HostAddresses.
func AddrsDER(as []Addr) []byte {
	var items [][]byte
	for _, a := range as {
		items = append(items, a.DER())
	}
	return der.Seq(items...)
}

// AD is one AuthorizationData element.
type AD struct {
	Type int32
	Data []byte
}

// ADsDER encodes AuthorizationData.
func ADsDER(as []AD) []byte {
	var items [][]byte
	for _, a := range as {
		items = append(items, der.Seq(der.Ctx(0, der.Int(int64(a.Type))), der.Ctx(1, der.Octets(a.Data))))
	}
	return der.Seq(items...)
}

// PA is PA-DATA.
type PA struct {
	Type  int32
	Value []byte
}

// DER encodes PA-DATA.
func (p PA) DER() []byte {
	return der.Seq(der.Ctx(1, der.Int(int64(p.Type))), der.Ctx(2, der.Octets(p.Value)))
}

// PAsDER encodes SEQUENCE OF PA-DATA.
func PAsDER(ps []PA) []byte {
	var items [][]byte
	for _, p := range ps {
		items = append(items, p.DER())
	}
	return der.Seq(items...)
}

// Ticket is the outer ticket.
type Ticket struct {
	Vno   int
	Realm string
	SName Name
	Enc   EncData
	// Trailing is raw DER appended inside the ticket's SEQUENCE after enc-part (not part of RFC 4120: for hostile encodings).
	Trailing []byte
}

// DER encodes the Ticket ([APPLICATION 1]).
func (t Ticket) DER() []byte {
	vno := t.Vno
	if vno == 0 {
		vno = 5
	}
	return der.App(1, der.Seq(der.Ctx(0, der.Int(int64(vno))), der.Ctx(1, der.GenString(t.Realm)), der.Ctx(2, t.SName.DER()), der.Ctx(3, t.Enc.DER()), t.Trailing))
}

// EncTicketPart is the sealed part of a ticket.
type EncTicketPart struct {
	Flags      uint32
	Key        Key
	CRealm     string
	CName      Name
	TrType     int32
	TrContents []byte
	AuthTime   time.Time
	StartTime  *time.Time
	EndTime    time.Time
	RenewTill  *time.Time
	CAddr      []Addr // nil = absent
	AuthzData  []AD   // nil = absent
}

func optTime(tag int, t *time.Time) []byte {
	if t == nil {
		return nil
	}
	return der.Ctx(tag, der.GenTime(*t))
}

// DER encodes EncTicketPart ([APPLICATION 3]).
func (e EncTicketPart) DER() []byte { return der.App(3, e.SeqDER()) }

// SeqDER is the SEQUENCE of EncTicketPart without its [APPLICATION 3] tag.
func (e EncTicketPart) SeqDER() []byte {
	var caddr, ad []byte
	if e.CAddr != nil {
		caddr = der.Ctx(9, AddrsDER(e.CAddr))
	}
	if e.AuthzData != nil {
		ad = der.Ctx(10, ADsDER(e.AuthzData))
	}
	return der.Seq(
		der.Ctx(0, der.Flags32(e.Flags)),
		der.Ctx(1, e.Key.DER()),
		der.Ctx(2, der.GenString(e.CRealm)),
		der.Ctx(3, e.CName.DER()),
		der.Ctx(4, der.Seq(der.Ctx(0, der.Int(int64(e.TrType))), der.Ctx(1, der.Octets(e.TrContents)))),
		der.Ctx(5, der.GenTime(e.AuthTime)),
		optTime(6, e.StartTime),
		der.Ctx(7, der.GenTime(e.EndTime)),
		optTime(8, e.RenewTill),
		caddr, ad)
}

// Authenticator (RFC 4120 5.5.1).
type Authenticator struct {
	Vno       int
	CRealm    string
	CName     Name
	Cksum     *Cksum
	Cusec     int
	CTime     time.Time
	Subkey    *Key
	SeqNumber *uint32
	AuthzData []AD
}

// DER encodes the Authenticator ([APPLICATION 2]).
func (a Authenticator) DER() []byte {
	vno := a.Vno
	if vno == 0 {
		vno = 5
	}
	var ck, sk, sq, ad []byte
	if a.Cksum != nil {
		ck = der.Ctx(3, a.Cksum.DER())
	}
	if a.Subkey != nil {
		sk = der.Ctx(6, a.Subkey.DER())
	}
	if a.SeqNumber != nil {
		sq = der.Ctx(7, der.Int(int64(*a.SeqNumber)))
	}
	if a.AuthzData != nil {
		ad = der.Ctx(8, ADsDER(a.AuthzData))
	}
	return der.App(2, der.Seq(
		der.Ctx(0, der.Int(int64(vno))),
		der.Ctx(1, der.GenString(a.CRealm)),
		der.Ctx(2, a.CName.DER()),
		ck,
		der.Ctx(4, der.Int(int64(a.Cusec))),
		der.Ctx(5, der.GenTime(a.CTime)),
		sk, sq, ad))
}

// APReq (RFC 4120 5.5.1).
type APReq struct {
	Pvno    int
	MsgType int
	Options uint32
	Ticket  []byte // encoded Ticket
	Auth    EncData
}

// DER encodes AP-REQ ([APPLICATION 14]).
func (a APReq) DER() []byte {
	pv, mt := a.Pvno, a.MsgType
	if pv == 0 {
		pv = 5
	}
	if mt == 0 {
		mt = 14
	}
	return der.App(14, der.Seq(der.Ctx(0, der.Int(int64(pv))), der.Ctx(1, der.Int(int64(mt))), der.Ctx(2, der.Flags32(a.Options)), der.Ctx(3, a.Ticket), der.Ctx(4, a.Auth.DER())))
}

// APRep (RFC 4120 5.5.2).
type APRep struct {
	Enc EncData
}

// DER encodes AP-REP ([APPLICATION 15]).
func (a APRep) DER() []byte {
	return der.App(15, der.Seq(der.Ctx(0, der.Int(5)), der.Ctx(1, der.Int(15)), der.Ctx(2, a.Enc.DER())))
}

// EncAPRepPart ([APPLICATION 27]).
type EncAPRepPart struct {
	CTime     time.Time
	Cusec     int
	Subkey    *Key
	SeqNumber *uint32
}

// DER encodes EncAPRepPart.
func (e EncAPRepPart) DER() []byte {
	var sk, sq []byte
	if e.Subkey != nil {
		sk = der.Ctx(2, e.Subkey.DER())
	}
	if e.SeqNumber != nil {
		sq = der.Ctx(3, der.Int(int64(*e.SeqNumber)))
	}
	return der.App(27, der.Seq(der.Ctx(0, der.GenTime(e.CTime)), der.Ctx(1, der.Int(int64(e.Cusec))), sk, sq))
}

// KRBError (RFC 4120 5.9.1).
type KRBError struct {
	MsgType int
	CTime   *time.Time
	Cusec   *int
	STime   time.Time
	Susec   int
	Code    int32
	CRealm  *string
	CName   *Name
	Realm   string
	SName   Name
	EText   *string
	EData   []byte // nil = absent
}

// DER encodes KRB-ERROR ([APPLICATION 30]).
func (k KRBError) DER() []byte {
	mt := k.MsgType
	if mt == 0 {
		mt = 30
	}
	var cu, cr, cn, et, ed []byte
	if k.Cusec != nil {
		cu = der.Ctx(3, der.Int(int64(*k.Cusec)))
	}
	if k.CRealm != nil {
		cr = der.Ctx(7, der.GenString(*k.CRealm))
	}
	if k.CName != nil {
		cn = der.Ctx(8, k.CName.DER())
	}
	if k.EText != nil {
		et = der.Ctx(11, der.GenString(*k.EText))
	}
	if k.EData != nil {
		ed = der.Ctx(12, der.Octets(k.EData))
	}
	return der.App(30, der.Seq(
		der.Ctx(0, der.Int(5)), der.Ctx(1, der.Int(int64(mt))),
		optTime(2, k.CTime), cu,
		der.Ctx(4, der.GenTime(k.STime)), der.Ctx(5, der.Int(int64(k.Susec))),
		der.Ctx(6, der.Int(int64(k.Code))), cr, cn,
		der.Ctx(9, der.GenString(k.Realm)), der.Ctx(10, k.SName.DER()), et, ed))
}

// KDCReqBody (RFC 4120 5.4.1).
type KDCReqBody struct {
	Options    uint32
	CName      *Name
	Realm      string
	SName      *Name
	From       *time.Time
	Till       time.Time
	RTime      *time.Time
	Nonce      uint32
	Etypes     []int32
	Addresses  []Addr   // nil = absent
	EncAuthz   *EncData // nil = absent
	AddTickets [][]byte // encoded tickets; nil = absent
}

// DER encodes KDC-REQ-BODY.
func (b KDCReqBody) DER() []byte {
	var cn, sn, addrs, ea, at []byte
	if b.CName != nil {
		cn = der.Ctx(1, b.CName.DER())
	}
	if b.SName != nil {
		sn = der.Ctx(3, b.SName.DER())
	}
	var ets [][]byte
	for _, e := range b.Etypes {
		ets = append(ets, der.Int(int64(e)))
	}
	if b.Addresses != nil {
		addrs = der.Ctx(9, AddrsDER(b.Addresses))
	}
	if b.EncAuthz != nil {
		ea = der.Ctx(10, b.EncAuthz.DER())
	}
	if b.AddTickets != nil {
		at = der.Ctx(11, der.Seq(b.AddTickets...))
	}
	return der.Seq(
		der.Ctx(0, der.Flags32(b.Options)), cn, der.Ctx(2, der.GenString(b.Realm)), sn,
		optTime(4, b.From), der.Ctx(5, der.GenTime(b.Till)), optTime(6, b.RTime),
		der.Ctx(7, der.Int(int64(b.Nonce))), der.CtxAlways(8, der.Seq(ets...)), addrs, ea, at)
}

// KDCReq is AS-REQ (MsgType 10) or TGS-REQ (12).
type KDCReq struct {
	MsgType int
	PAData  []PA // nil = absent
	Body    KDCReqBody
	BodyRaw []byte // set by the decoder: the exact encoding of req-body (for the PA-TGS-REQ checksum)
}

// DER encodes the request with application tag MsgType.
func (k KDCReq) DER() []byte {
	var pa []byte
	if k.PAData != nil {
		pa = der.Ctx(3, PAsDER(k.PAData))
	}
	return der.App(k.MsgType, der.Seq(der.Ctx(1, der.Int(5)), der.Ctx(2, der.Int(int64(k.MsgType))), pa, der.Ctx(4, k.Body.DER())))
}

// KDCRep is AS-REP (11) or TGS-REP (13).
type KDCRep struct {
	MsgType int
	AppTag  int // defaults to MsgType
	PAData  []PA
	CRealm  string
	CName   Name
	Ticket  []byte
	Enc     EncData
}

// DER encodes the reply.
func (k KDCRep) DER() []byte {
	var pa []byte
	if k.PAData != nil {
		pa = der.Ctx(2, PAsDER(k.PAData))
	}
	tag := k.AppTag
	if tag == 0 {
		tag = k.MsgType
	}
	return der.App(tag, der.Seq(der.Ctx(0, der.Int(5)), der.Ctx(1, der.Int(int64(k.MsgType))), pa,
		der.Ctx(3, der.GenString(k.CRealm)), der.Ctx(4, k.CName.DER()), der.Ctx(5, k.Ticket), der.Ctx(6, k.Enc.DER())))
}

// LastReq entry.
type LastReq struct {
	Type  int32
	Value time.Time
}

// EncKDCRepPart (RFC 4120 5.4.2).
type EncKDCRepPart struct {
	AppTag        int // 25 (AS) or 26 (TGS)
	Key           Key
	LastReqs      []LastReq
	Nonce         uint32
	KeyExpiration *time.Time
	Flags         uint32
	AuthTime      time.Time
	StartTime     *time.Time
	EndTime       time.Time
	RenewTill     *time.Time
	SRealm        string
	SName         Name
	CAddr         []Addr
	EncPAData     []PA
	// NonceWide, if non-nil, is encoded in place of Nonce: an INTEGER outside the UInt32 range (or a negative one), as a
	// non-conformant or hostile KDC may send it. The parsers never set it.
	NonceWide *int64
}

// DER encodes EncKDCRepPart under its application tag.
func (e EncKDCRepPart) DER() []byte {
	var lrs [][]byte
	for _, l := range e.LastReqs {
		lrs = append(lrs, der.Seq(der.Ctx(0, der.Int(int64(l.Type))), der.Ctx(1, der.GenTime(l.Value))))
	}
	var caddr, epa []byte
	if e.CAddr != nil {
		caddr = der.Ctx(11, AddrsDER(e.CAddr))
	}
	if e.EncPAData != nil {
		epa = der.Ctx(12, PAsDER(e.EncPAData))
	}
	nonce := int64(e.Nonce)
	if e.NonceWide != nil {
		nonce = *e.NonceWide
	}
	return der.App(e.AppTag, der.Seq(
		der.Ctx(0, e.Key.DER()), der.CtxAlways(1, der.Seq(lrs...)), der.Ctx(2, der.Int(nonce)),
		optTime(3, e.KeyExpiration), der.Ctx(4, der.Flags32(e.Flags)), der.Ctx(5, der.GenTime(e.AuthTime)),
		optTime(6, e.StartTime), der.Ctx(7, der.GenTime(e.EndTime)), optTime(8, e.RenewTill),
		der.Ctx(9, der.GenString(e.SRealm)), der.Ctx(10, e.SName.DER()), caddr, epa))
}

// PAEncTSEnc (RFC 4120 5.2.7.2).
type PAEncTSEnc struct {
	Timestamp time.Time
	Usec      *int
}

// DER encodes PA-ENC-TS-ENC.
func (p PAEncTSEnc) DER() []byte {
	var u []byte
	if p.Usec != nil {
		u = der.Ctx(1, der.Int(int64(*p.Usec)))
	}
	return der.Seq(der.Ctx(0, der.GenTime(p.Timestamp)), u)
}

// EtypeInfo2Entry (RFC 4120 5.2.7.5).
type EtypeInfo2Entry struct {
	Etype  int32
	Salt   *string
	Params []byte
}

// EtypeInfo2DER encodes ETYPE-INFO2.
func EtypeInfo2DER(es []EtypeInfo2Entry) []byte {
	var items [][]byte
	for _, e := range es {
		var s, p []byte
		if e.Salt != nil {
			s = der.Ctx(1, der.GenString(*e.Salt))
		}
		if e.Params != nil {
			p = der.Ctx(2, der.Octets(e.Params))
		}
		items = append(items, der.Seq(der.Ctx(0, der.Int(int64(e.Etype))), s, p))
	}
	return der.Seq(items...)
}

// EtypeInfoEntry (RFC 4120 5.2.7.4).
type EtypeInfoEntry struct {
	Etype int32
	Salt  []byte // nil = absent
}

// EtypeInfoDER encodes ETYPE-INFO.
func EtypeInfoDER(es []EtypeInfoEntry) []byte {
	var items [][]byte
	for _, e := range es {
		var s []byte
		if e.Salt != nil {
			s = der.Ctx(1, der.Octets(e.Salt))
		}
		items = append(items, der.Seq(der.Ctx(0, der.Int(int64(e.Etype))), s))
	}
	return der.Seq(items...)
}

// KRBPriv (RFC 4120 5.7.1).
type KRBPriv struct {
	Enc EncData
}

// DER encodes KRB-PRIV ([APPLICATION 21]).
func (k KRBPriv) DER() []byte {
	return der.App(21, der.Seq(der.Ctx(0, der.Int(5)), der.Ctx(1, der.Int(21)), der.Ctx(3, k.Enc.DER())))
}

// EncKrbPrivPart ([APPLICATION 28]).
type EncKrbPrivPart struct {
	UserData  []byte
	Timestamp *time.Time
	Usec      *int
	SeqNumber *uint32
	SAddress  Addr
	RAddress  *Addr
}

// DER encodes EncKrbPrivPart.
func (e EncKrbPrivPart) DER() []byte {
	var us, sq, ra []byte
	if e.Usec != nil {
		us = der.Ctx(2, der.Int(int64(*e.Usec)))
	}
	if e.SeqNumber != nil {
		sq = der.Ctx(3, der.Int(int64(*e.SeqNumber)))
	}
	if e.RAddress != nil {
		ra = der.Ctx(5, e.RAddress.DER())
	}
	return der.App(28, der.Seq(der.Ctx(0, der.Octets(e.UserData)), optTime(1, e.Timestamp), us, sq, der.Ctx(4, e.SAddress.DER()), ra))
}

// ChangePasswdData (RFC 3244).
type ChangePasswdData struct {
	NewPasswd []byte
	TargName  *Name
	TargRealm *string
}

// DER encodes ChangePasswdData.
func (c ChangePasswdData) DER() []byte {
	var tn, tr []byte
	if c.TargName != nil {
		tn = der.Ctx(1, c.TargName.DER())
	}
	if c.TargRealm != nil {
		tr = der.Ctx(2, der.GenString(*c.TargRealm))
	}
	return der.Seq(der.Ctx(0, der.Octets(c.NewPasswd)), tn, tr)
}

// ---------------------------------------------------------------------------------------
// decoding helpers

type fields struct {
	kids []*der.Node
	i    int
}

func seqOf(n *der.Node) (*fields, error) {
	if err := n.Expect(der.Universal, der.TagSequence, true); err != nil {
		return nil, err
	}
	return &fields{kids: n.Children}, nil
}

// opt returns the inner element of the next child if it carries context tag t.
func (f *fields) opt(t int) (*der.Node, error) {
	if f.i >= len(f.kids) {
		return nil, nil
	}
	c := f.kids[f.i]
	if c.Class != der.Context {
		return nil, fmt.Errorf("kmsg: field with class %d tag %d where a context tag is expected", c.Class, c.Tag)
	}
	if c.Tag != t {
		if c.Tag < t {
			return nil, fmt.Errorf("kmsg: context tag [%d] out of order or unknown (expecting [%d] or later)", c.Tag, t)
		}
		return nil, nil
	}
	if !c.Constructed {
		return nil, fmt.Errorf("kmsg: context tag [%d] is not explicit (constructed)", t)
	}
	in, err := c.Inner()
	if err != nil {
		return nil, fmt.Errorf("kmsg: [%d]: %v", t, err)
	}
	f.i++
	return in, nil
}

func (f *fields) req(t int) (*der.Node, error) {
	n, err := f.opt(t)
	if err != nil {
		return nil, err
	}
	if n == nil {
		return nil, fmt.Errorf("kmsg: mandatory field [%d] missing", t)
	}
	return n, nil
}

func (f *fields) done() error {
	if f.i != len(f.kids) {
		c := f.kids[f.i]
		return fmt.Errorf("kmsg: unexpected trailing field class %d tag %d", c.Class, c.Tag)
	}
	return nil
}

func appInner(n *der.Node, tag int) (*der.Node, error) {
	if err := n.Expect(der.Application, tag, true); err != nil {
		return nil, err
	}
	return n.Inner()
}

func decInt32(n *der.Node) (int32, error) {
	v, err := n.AsInt()
	if err != nil {
		return 0, err
	}
	if v < -(1<<31) || v > (1<<31)-1 {
		return 0, errors.New("kmsg: Int32 out of range")
	}
	return int32(v), nil
}

func decUint32(n *der.Node) (uint32, error) {
	v, err := n.AsInt()
	if err != nil {
		return 0, err
	}
	if v < 0 || v > (1<<32)-1 {
		return 0, errors.New("kmsg: UInt32 out of range")
	}
	return uint32(v), nil
}

func decFlags(n *der.Node) (uint32, error) {
	b, unused, err := n.AsBits()
	if err != nil {
		return 0, err
	}
	if len(b) < 4 {
		return 0, fmt.Errorf("kmsg: KerberosFlags shorter than 32 bits (%d bytes)", len(b))
	}
	if len(b) == 4 && unused != 0 {
		return 0, errors.New("kmsg: KerberosFlags of 32 bits with unused bits")
	}
	return uint32(b[0])<<24 | uint32(b[1])<<16 | uint32(b[2])<<8 | uint32(b[3]), nil
}

// ParseName decodes a PrincipalName.
func ParseName(n *der.Node) (Name, error) {
	var out Name
	f, err := seqOf(n)
	if err != nil {
		return out, err
	}
	t, err := f.req(0)
	if err != nil {
		return out, err
	}
	if out.Type, err = decInt32(t); err != nil {
		return out, err
	}
	s, err := f.req(1)
	if err != nil {
		return out, err
	}
	if err := s.Expect(der.Universal, der.TagSequence, true); err != nil {
		return out, err
	}
	out.Parts = []string{}
	for _, c := range s.Children {
		str, err := c.AsGenString()
		if err != nil {
			return out, err
		}
		out.Parts = append(out.Parts, str)
	}
	return out, f.done()
}

// ParseEncData decodes EncryptedData.
func ParseEncData(n *der.Node) (EncData, error) {
	var out EncData
	f, err := seqOf(n)
	if err != nil {
		return out, err
	}
	e, err := f.req(0)
	if err != nil {
		return out, err
	}
	if out.Etype, err = decInt32(e); err != nil {
		return out, err
	}
	k, err := f.opt(1)
	if err != nil {
		return out, err
	}
	if k != nil {
		v, err := decUint32(k)
		if err != nil {
			return out, err
		}
		out.Kvno = &v
	}
	c, err := f.req(2)
	if err != nil {
		return out, err
	}
	if out.Cipher, err = c.AsOctets(); err != nil {
		return out, err
	}
	return out, f.done()
}

// ParseKey decodes EncryptionKey.
func ParseKey(n *der.Node) (Key, error) {
	var out Key
	f, err := seqOf(n)
	if err != nil {
		return out, err
	}
	t, err := f.req(0)
	if err != nil {
		return out, err
	}
	if out.Type, err = decInt32(t); err != nil {
		return out, err
	}
	v, err := f.req(1)
	if err != nil {
		return out, err
	}
	if out.Value, err = v.AsOctets(); err != nil {
		return out, err
	}
	return out, f.done()
}

// ParseCksum decodes Checksum.
func ParseCksum(n *der.Node) (Cksum, error) {
	k, err := ParseKey(n) // same shape
	return Cksum{Type: k.Type, Sum: k.Value}, err
}

// ParseAddr decodes HostAddress.
func ParseAddr(n *der.Node) (Addr, error) {
	k, err := ParseKey(n)
	return Addr{Type: k.Type, Data: k.Value}, err
}

// ParseAddrs decodes HostAddresses.
func ParseAddrs(n *der.Node) ([]Addr, error) {
	if err := n.Expect(der.Universal, der.TagSequence, true); err != nil {
		return nil, err
	}
	out := []Addr{}
	for _, c := range n.Children {
		a, err := ParseAddr(c)
		if err != nil {
			return nil, err
		}
		out = append(out, a)
	}
	return out, nil
}

// ParseADs decodes AuthorizationData.
func ParseADs(n *der.Node) ([]AD, error) {
	if err := n.Expect(der.Universal, der.TagSequence, true); err != nil {
		return nil, err
	}
	out := []AD{}
	for _, c := range n.Children {
		k, err := ParseKey(c)
		if err != nil {
			return nil, err
		}
		out = append(out, AD{Type: k.Type, Data: k.Value})
	}
	return out, nil
}

// ParsePAs decodes SEQUENCE OF PA-DATA.
func ParsePAs(n *der.Node) ([]PA, error) {
	if err := n.Expect(der.Universal, der.TagSequence, true); err != nil {
		return nil, err
	}
	out := []PA{}
	for _, c := range n.Children {
		f, err := seqOf(c)
		if err != nil {
			return nil, err
		}
		t, err := f.req(1)
		if err != nil {
			return nil, err
		}
		var p PA
		if p.Type, err = decInt32(t); err != nil {
			return nil, err
		}
		v, err := f.req(2)
		if err != nil {
			return nil, err
		}
		if p.Value, err = v.AsOctets(); err != nil {
			return nil, err
		}
		if err := f.done(); err != nil {
			return nil, err
		}
		out = append(out, p)
	}
	return out, nil
}

func optTimeField(f *fields, tag int) (*time.Time, error) {
	n, err := f.opt(tag)
	if err != nil || n == nil {
		return nil, err
	}
	t, err := n.AsTime()
	if err != nil {
		return nil, err
	}
	return &t, nil
}

func reqTimeField(f *fields, tag int) (time.Time, error) {
	n, err := f.req(tag)
	if err != nil {
		return time.Time{}, err
	}
	return n.AsTime()
}

func reqString(f *fields, tag int) (string, error) {
	n, err := f.req(tag)
	if err != nil {
		return "", err
	}
	return n.AsGenString()
}

func reqInt(f *fields, tag int) (int64, error) {
	n, err := f.req(tag)
	if err != nil {
		return 0, err
	}
	return n.AsInt()
}

// ParseTicket decodes a Ticket from its full encoding.
func ParseTicket(b []byte) (Ticket, error) {
	n, err := der.ParseOne(b)
	if err != nil {
		return Ticket{}, err
	}
	return ParseTicketNode(n)
}

// ParseTicketNode decodes a Ticket.
func ParseTicketNode(n *der.Node) (Ticket, error) {
	var out Ticket
	in, err := appInner(n, 1)
	if err != nil {
		return out, err
	}
	f, err := seqOf(in)
	if err != nil {
		return out, err
	}
	v, err := reqInt(f, 0)
	if err != nil {
		return out, err
	}
	out.Vno = int(v)
	if out.Realm, err = reqString(f, 1); err != nil {
		return out, err
	}
	s, err := f.req(2)
	if err != nil {
		return out, err
	}
	if out.SName, err = ParseName(s); err != nil {
		return out, err
	}
	e, err := f.req(3)
	if err != nil {
		return out, err
	}
	if out.Enc, err = ParseEncData(e); err != nil {
		return out, err
	}
	return out, f.done()
}

// ParseEncTicketPart decodes the sealed part of a ticket.
func ParseEncTicketPart(b []byte) (EncTicketPart, error) {
	var out EncTicketPart
	n, _, err := der.Parse(b) // trailing zero padding (des3) tolerated by the caller cutting or here ignoring rest
	if err != nil {
		return out, err
	}
	in, err := appInner(n, 3)
	if err != nil {
		return out, err
	}
	f, err := seqOf(in)
	if err != nil {
		return out, err
	}
	fl, err := f.req(0)
	if err != nil {
		return out, err
	}
	if out.Flags, err = decFlags(fl); err != nil {
		return out, err
	}
	k, err := f.req(1)
	if err != nil {
		return out, err
	}
	if out.Key, err = ParseKey(k); err != nil {
		return out, err
	}
	if out.CRealm, err = reqString(f, 2); err != nil {
		return out, err
	}
	c, err := f.req(3)
	if err != nil {
		return out, err
	}
	if out.CName, err = ParseName(c); err != nil {
		return out, err
	}
	tr, err := f.req(4)
	if err != nil {
		return out, err
	}
	trk, err := ParseKey(tr)
	if err != nil {
		return out, err
	}
	out.TrType, out.TrContents = trk.Type, trk.Value
	if out.AuthTime, err = reqTimeField(f, 5); err != nil {
		return out, err
	}
	if out.StartTime, err = optTimeField(f, 6); err != nil {
		return out, err
	}
	if out.EndTime, err = reqTimeField(f, 7); err != nil {
		return out, err
	}
	if out.RenewTill, err = optTimeField(f, 8); err != nil {
		return out, err
	}
	ca, err := f.opt(9)
	if err != nil {
		return out, err
	}
	if ca != nil {
		if out.CAddr, err = ParseAddrs(ca); err != nil {
			return out, err
		}
	}
	ad, err := f.opt(10)
	if err != nil {
		return out, err
	}
	if ad != nil {
		if out.AuthzData, err = ParseADs(ad); err != nil {
			return out, err
		}
	}
	return out, f.done()
}

// ParseAuthenticator decodes an Authenticator (trailing padding after the element is tolerated).
func ParseAuthenticator(b []byte) (Authenticator, error) {
	var out Authenticator
	n, _, err := der.Parse(b)
	if err != nil {
		return out, err
	}
	in, err := appInner(n, 2)
	if err != nil {
		return out, err
	}
	f, err := seqOf(in)
	if err != nil {
		return out, err
	}
	v, err := reqInt(f, 0)
	if err != nil {
		return out, err
	}
	out.Vno = int(v)
	if out.CRealm, err = reqString(f, 1); err != nil {
		return out, err
	}
	c, err := f.req(2)
	if err != nil {
		return out, err
	}
	if out.CName, err = ParseName(c); err != nil {
		return out, err
	}
	ck, err := f.opt(3)
	if err != nil {
		return out, err
	}
	if ck != nil {
		cc, err := ParseCksum(ck)
		if err != nil {
			return out, err
		}
		out.Cksum = &cc
	}
	cu, err := reqInt(f, 4)
	if err != nil {
		return out, err
	}
	out.Cusec = int(cu)
	if out.CTime, err = reqTimeField(f, 5); err != nil {
		return out, err
	}
	sk, err := f.opt(6)
	if err != nil {
		return out, err
	}
	if sk != nil {
		k, err := ParseKey(sk)
		if err != nil {
			return out, err
		}
		out.Subkey = &k
	}
	sq, err := f.opt(7)
	if err != nil {
		return out, err
	}
	if sq != nil {
		u, err := decUint32(sq)
		if err != nil {
			return out, err
		}
		out.SeqNumber = &u
	}
	ad, err := f.opt(8)
	if err != nil {
		return out, err
	}
	if ad != nil {
		if out.AuthzData, err = ParseADs(ad); err != nil {
			return out, err
		}
	}
	return out, f.done()
}

// ParseAPReq decodes an AP-REQ.
func ParseAPReq(b []byte) (APReq, error) {
	n, err := der.ParseOne(b)
	if err != nil {
		return APReq{}, err
	}
	return ParseAPReqNode(n)
}

// ParseAPReqNode decodes an AP-REQ element.
func ParseAPReqNode(n *der.Node) (APReq, error) {
	var out APReq
	in, err := appInner(n, 14)
	if err != nil {
		return out, err
	}
	f, err := seqOf(in)
	if err != nil {
		return out, err
	}
	v, err := reqInt(f, 0)
	if err != nil {
		return out, err
	}
	out.Pvno = int(v)
	m, err := reqInt(f, 1)
	if err != nil {
		return out, err
	}
	out.MsgType = int(m)
	o, err := f.req(2)
	if err != nil {
		return out, err
	}
	if out.Options, err = decFlags(o); err != nil {
		return out, err
	}
	t, err := f.req(3)
	if err != nil {
		return out, err
	}
	if _, err := ParseTicketNode(t); err != nil {
		return out, err
	}
	out.Ticket = t.Raw
	a, err := f.req(4)
	if err != nil {
		return out, err
	}
	if out.Auth, err = ParseEncData(a); err != nil {
		return out, err
	}
	return out, f.done()
}

// ParseKDCReq decodes an AS-REQ or TGS-REQ.
func ParseKDCReq(b []byte) (KDCReq, error) {
	var out KDCReq
	n, err := der.ParseOne(b)
	if err != nil {
		return out, err
	}
	if n.Class != der.Application || (n.Tag != 10 && n.Tag != 12) || !n.Constructed {
		return out, fmt.Errorf("kmsg: not an AS-REQ/TGS-REQ (class %d tag %d)", n.Class, n.Tag)
	}
	in, err := n.Inner()
	if err != nil {
		return out, err
	}
	f, err := seqOf(in)
	if err != nil {
		return out, err
	}
	pv, err := reqInt(f, 1)
	if err != nil {
		return out, err
	}
	if pv != 5 {
		return out, fmt.Errorf("kmsg: pvno %d", pv)
	}
	mt, err := reqInt(f, 2)
	if err != nil {
		return out, err
	}
	out.MsgType = int(mt)
	if out.MsgType != n.Tag {
		return out, fmt.Errorf("kmsg: msg-type %d under application tag %d", mt, n.Tag)
	}
	pa, err := f.opt(3)
	if err != nil {
		return out, err
	}
	if pa != nil {
		if out.PAData, err = ParsePAs(pa); err != nil {
			return out, err
		}
	}
	bd, err := f.req(4)
	if err != nil {
		return out, err
	}
	out.BodyRaw = bd.Raw
	if out.Body, err = ParseKDCReqBodyNode(bd); err != nil {
		return out, err
	}
	return out, f.done()
}

// ParseKDCReqBodyNode decodes KDC-REQ-BODY.
func ParseKDCReqBodyNode(n *der.Node) (KDCReqBody, error) {
	var out KDCReqBody
	f, err := seqOf(n)
	if err != nil {
		return out, err
	}
	o, err := f.req(0)
	if err != nil {
		return out, err
	}
	if out.Options, err = decFlags(o); err != nil {
		return out, err
	}
	cn, err := f.opt(1)
	if err != nil {
		return out, err
	}
	if cn != nil {
		nm, err := ParseName(cn)
		if err != nil {
			return out, err
		}
		out.CName = &nm
	}
	if out.Realm, err = reqString(f, 2); err != nil {
		return out, err
	}
	sn, err := f.opt(3)
	if err != nil {
		return out, err
	}
	if sn != nil {
		nm, err := ParseName(sn)
		if err != nil {
			return out, err
		}
		out.SName = &nm
	}
	if out.From, err = optTimeField(f, 4); err != nil {
		return out, err
	}
	if out.Till, err = reqTimeField(f, 5); err != nil {
		return out, err
	}
	if out.RTime, err = optTimeField(f, 6); err != nil {
		return out, err
	}
	nn, err := f.req(7)
	if err != nil {
		return out, err
	}
	if out.Nonce, err = decUint32(nn); err != nil {
		return out, err
	}
	et, err := f.req(8)
	if err != nil {
		return out, err
	}
	if err := et.Expect(der.Universal, der.TagSequence, true); err != nil {
		return out, err
	}
	out.Etypes = []int32{}
	for _, c := range et.Children {
		v, err := decInt32(c)
		if err != nil {
			return out, err
		}
		out.Etypes = append(out.Etypes, v)
	}
	ad, err := f.opt(9)
	if err != nil {
		return out, err
	}
	if ad != nil {
		if out.Addresses, err = ParseAddrs(ad); err != nil {
			return out, err
		}
	}
	ea, err := f.opt(10)
	if err != nil {
		return out, err
	}
	if ea != nil {
		e, err := ParseEncData(ea)
		if err != nil {
			return out, err
		}
		out.EncAuthz = &e
	}
	at, err := f.opt(11)
	if err != nil {
		return out, err
	}
	if at != nil {
		if err := at.Expect(der.Universal, der.TagSequence, true); err != nil {
			return out, err
		}
		out.AddTickets = [][]byte{}
		for _, c := range at.Children {
			if _, err := ParseTicketNode(c); err != nil {
				return out, err
			}
			out.AddTickets = append(out.AddTickets, c.Raw)
		}
	}
	return out, f.done()
}

// ParsePAEncTSEnc decodes PA-ENC-TS-ENC (trailing padding tolerated).
func ParsePAEncTSEnc(b []byte) (PAEncTSEnc, error) {
	var out PAEncTSEnc
	n, _, err := der.Parse(b)
	if err != nil {
		return out, err
	}
	f, err := seqOf(n)
	if err != nil {
		return out, err
	}
	if out.Timestamp, err = reqTimeField(f, 0); err != nil {
		return out, err
	}
	u, err := f.opt(1)
	if err != nil {
		return out, err
	}
	if u != nil {
		v, err := u.AsInt()
		if err != nil {
			return out, err
		}
		iv := int(v)
		out.Usec = &iv
	}
	return out, f.done()
}
