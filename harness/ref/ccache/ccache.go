// Package ccache is an independent model of the MIT Kerberos file credential cache format
// (format versions 0x0501 .. 0x0504) with a writer (model -> bytes) and a small reader used
// only for the self-test. It is written from the MIT "Credential cache file format"
// document and imports nothing from gokrb5.
//
// Format (MIT doc/formats/ccache_file_format.rst):
//
//	file       ::= 0x05 version(1..4) [header, version 4 only] principal credential*
//	header     ::= uint16 total-length-of-fields  field*
//	field      ::= uint16 tag  uint16 length  value(length bytes)
//	               tag 1: KDC time offset, length 8: int32 seconds, int32 microseconds;
//	               fields with unknown tags are to be ignored by a reader
//	principal  ::= uint32 name-type            [omitted in version 1]
//	               uint32 component-count      [includes the realm in version 1]
//	               data realm  data component*
//	data       ::= uint32 length  bytes
//	credential ::= principal client  principal server  keyblock
//	               uint32 authtime starttime endtime renew_till
//	               uint8 is_skey  uint32 ticket_flags  addresses  authdata
//	               data ticket  data second_ticket
//	keyblock   ::= uint16 enctype [written twice in version 3]  data
//	addresses  ::= uint32 count  (uint16 addrtype  data)*
//	authdata   ::= uint32 count  (uint16 ad_type   data)*
//
// Versions 1 and 2 use the byte order of the writing host for every integer, versions 3 and 4
// always use big-endian. ticket_flags is the krb5_flags integer: Kerberos flag bit 0
// (reserved) is the most significant bit of the 32-bit value (forwardable = 0x40000000).
//
// Configuration entries are credentials whose server principal has the realm "X-CACHECONF:"
// and the first component "krb5_ccache_conf_data"; the ticket field carries the value.
package ccache

import (
	"encoding/binary"
	"errors"
	"fmt"
)

// ConfRealm and ConfName identify configuration entries.
const (
	ConfRealm = "X-CACHECONF:"
	ConfName  = "krb5_ccache_conf_data"
)

// TagKDCOffset is the only header field tag defined by the format.
const TagKDCOffset = 1

// Principal is a principal name as stored in a cache.
type Principal struct {
	NameType   int32 // not stored in version 1
	Realm      string
	Components []string
}

// Address is one entry of the address list.
type Address struct {
	Type uint16
	Data []byte
}

// AuthData is one entry of the authorization-data list.
type AuthData struct {
	Type uint16
	Data []byte
}

// HeaderField is one tagged field of the version 4 header.
type HeaderField struct {
	Tag  uint16
	Data []byte
}

// Credential is one cache entry.
type Credential struct {
	Client       Principal
	Server       Principal
	KeyType      uint16
	Key          []byte
	AuthTime     int32
	StartTime    int32
	EndTime      int32
	RenewTill    int32
	IsSKey       bool
	Flags        uint32
	Addresses    []Address
	AuthData     []AuthData
	Ticket       []byte
	SecondTicket []byte
}

// Cache is a whole credential cache file.
type Cache struct {
	Version     int           // 1..4
	Header      []HeaderField // version 4 only
	Default     Principal
	Credentials []Credential
}

// Native is the byte order of this host (used by versions 1 and 2).
var Native binary.ByteOrder = binary.NativeEndian

// Order returns the integer byte order of a format version written on this host.
func Order(version int) binary.ByteOrder {
	if version == 1 || version == 2 {
		return Native
	}
	return binary.BigEndian
}

// NativeIsLittle reports whether this host is little-endian.
func NativeIsLittle() bool {
	var b [2]byte
	Native.PutUint16(b[:], 1)
	return b[0] == 1
}

// IsConfig reports whether a server principal marks a configuration entry.
func IsConfig(p Principal) bool {
	return p.Realm == ConfRealm && len(p.Components) >= 1 && p.Components[0] == ConfName
}

// KDCOffset builds the tag 1 header field (version 4, big-endian).
func KDCOffset(sec, usec int32) HeaderField {
	d := make([]byte, 8)
	binary.BigEndian.PutUint32(d, uint32(sec))
	binary.BigEndian.PutUint32(d[4:], uint32(usec))
	return HeaderField{Tag: TagKDCOffset, Data: d}
}

// ConfigEntry builds a configuration entry: key and optional principal argument, with value.
func ConfigEntry(client Principal, key string, princ *string, value []byte) Credential {
	comps := []string{ConfName, key}
	if princ != nil {
		comps = append(comps, *princ)
	}
	return Credential{
		Client: client,
		Server: Principal{NameType: 0, Realm: ConfRealm, Components: comps},
		Ticket: append([]byte{}, value...),
	}
}

type writer struct {
	b []byte
	o binary.ByteOrder
	v int
}

func (w *writer) u8(x uint8) { w.b = append(w.b, x) }
func (w *writer) u16(x uint16) {
	var t [2]byte
	w.o.PutUint16(t[:], x)
	w.b = append(w.b, t[:]...)
}
func (w *writer) u32(x uint32) {
	var t [4]byte
	w.o.PutUint32(t[:], x)
	w.b = append(w.b, t[:]...)
}
func (w *writer) data(d []byte) {
	w.u32(uint32(len(d)))
	w.b = append(w.b, d...)
}

func (w *writer) principal(p Principal) {
	if w.v != 1 {
		w.u32(uint32(p.NameType))
	}
	n := uint32(len(p.Components))
	if w.v == 1 {
		n++ // the count includes the realm
	}
	w.u32(n)
	w.data([]byte(p.Realm))
	for _, c := range p.Components {
		w.data([]byte(c))
	}
}

func (w *writer) credential(c *Credential) {
	w.principal(c.Client)
	w.principal(c.Server)
	w.u16(c.KeyType)
	if w.v == 3 {
		w.u16(c.KeyType)
	}
	w.data(c.Key)
	w.u32(uint32(c.AuthTime))
	w.u32(uint32(c.StartTime))
	w.u32(uint32(c.EndTime))
	w.u32(uint32(c.RenewTill))
	if c.IsSKey {
		w.u8(1)
	} else {
		w.u8(0)
	}
	w.u32(c.Flags)
	w.u32(uint32(len(c.Addresses)))
	for _, a := range c.Addresses {
		w.u16(a.Type)
		w.data(a.Data)
	}
	w.u32(uint32(len(c.AuthData)))
	for _, a := range c.AuthData {
		w.u16(a.Type)
		w.data(a.Data)
	}
	w.data(c.Ticket)
	w.data(c.SecondTicket)
}

// Write renders the cache in its format version using the host byte order for versions 1, 2.
func Write(c *Cache) ([]byte, error) { return WriteOrder(c, Order(c.Version)) }

// WriteOrder renders the cache with an explicit integer byte order (for the self-test).
func WriteOrder(c *Cache, o binary.ByteOrder) ([]byte, error) {
	if c.Version < 1 || c.Version > 4 {
		return nil, fmt.Errorf("ccache: no such format version %d", c.Version)
	}
	if c.Version != 4 && len(c.Header) != 0 {
		return nil, errors.New("ccache: header fields exist in version 4 only")
	}
	w := &writer{o: o, v: c.Version}
	w.u8(5)
	w.u8(uint8(c.Version))
	if c.Version == 4 {
		total := 0
		for _, f := range c.Header {
			if len(f.Data) > 0xffff {
				return nil, errors.New("ccache: header field too long")
			}
			total += 4 + len(f.Data)
		}
		if total > 0xffff {
			return nil, errors.New("ccache: header too long")
		}
		w.u16(uint16(total))
		for _, f := range c.Header {
			w.u16(f.Tag)
			w.u16(uint16(len(f.Data)))
			w.b = append(w.b, f.Data...)
		}
	}
	w.principal(c.Default)
	for i := range c.Credentials {
		w.credential(&c.Credentials[i])
	}
	return w.b, nil
}

// ---------------------------------------------------------------------------------------
// Reader (self-test only): strict, every read bounds-checked.

type reader struct {
	b   []byte
	p   int
	o   binary.ByteOrder
	v   int
	err error
}

func (r *reader) take(n int) []byte {
	if r.err != nil {
		return nil
	}
	if n < 0 || n > len(r.b)-r.p {
		r.err = fmt.Errorf("ccache: truncated at offset %d (need %d bytes)", r.p, n)
		return nil
	}
	s := r.b[r.p : r.p+n]
	r.p += n
	return s
}

func (r *reader) u8() uint8 {
	s := r.take(1)
	if s == nil {
		return 0
	}
	return s[0]
}

func (r *reader) u16() uint16 {
	s := r.take(2)
	if s == nil {
		return 0
	}
	return r.o.Uint16(s)
}

func (r *reader) u32() uint32 {
	s := r.take(4)
	if s == nil {
		return 0
	}
	return r.o.Uint32(s)
}

func (r *reader) data() []byte {
	n := r.u32()
	if r.err != nil {
		return nil
	}
	if uint64(n) > uint64(len(r.b)-r.p) {
		r.err = fmt.Errorf("ccache: data length %d exceeds the file at offset %d", n, r.p)
		return nil
	}
	return append([]byte{}, r.take(int(n))...)
}

func (r *reader) principal() Principal {
	var p Principal
	if r.v != 1 {
		p.NameType = int32(r.u32())
	}
	n := r.u32()
	if r.v == 1 {
		if n == 0 {
			if r.err == nil {
				r.err = errors.New("ccache: version 1 component count 0 cannot include the realm")
			}
			return p
		}
		n--
	}
	p.Realm = string(r.data())
	for i := uint32(0); i < n && r.err == nil; i++ {
		p.Components = append(p.Components, string(r.data()))
	}
	return p
}

func (r *reader) credential() Credential {
	var c Credential
	c.Client = r.principal()
	c.Server = r.principal()
	c.KeyType = r.u16()
	if r.v == 3 {
		if again := r.u16(); again != c.KeyType && r.err == nil {
			r.err = errors.New("ccache: version 3 repeated enctype differs")
		}
	}
	c.Key = r.data()
	c.AuthTime = int32(r.u32())
	c.StartTime = int32(r.u32())
	c.EndTime = int32(r.u32())
	c.RenewTill = int32(r.u32())
	c.IsSKey = r.u8() != 0
	c.Flags = r.u32()
	na := r.u32()
	for i := uint32(0); i < na && r.err == nil; i++ {
		t := r.u16()
		c.Addresses = append(c.Addresses, Address{Type: t, Data: r.data()})
	}
	nd := r.u32()
	for i := uint32(0); i < nd && r.err == nil; i++ {
		t := r.u16()
		c.AuthData = append(c.AuthData, AuthData{Type: t, Data: r.data()})
	}
	c.Ticket = r.data()
	c.SecondTicket = r.data()
	return c
}

// Read parses a cache file written on this host.
func Read(b []byte) (*Cache, error) {
	if len(b) < 2 || b[0] != 5 || b[1] < 1 || b[1] > 4 {
		return nil, errors.New("ccache: not a credential cache file (version bytes)")
	}
	return ReadOrder(b, Order(int(b[1])))
}

// ReadOrder parses with an explicit integer byte order.
func ReadOrder(b []byte, o binary.ByteOrder) (*Cache, error) {
	if len(b) < 2 || b[0] != 5 || b[1] < 1 || b[1] > 4 {
		return nil, errors.New("ccache: not a credential cache file (version bytes)")
	}
	c := &Cache{Version: int(b[1])}
	r := &reader{b: b, p: 2, o: o, v: c.Version}
	if c.Version == 4 {
		hl := int(r.u16())
		end := r.p + hl
		if r.err == nil && end > len(b) {
			return nil, errors.New("ccache: header length exceeds the file")
		}
		for r.err == nil && r.p < end {
			tag := r.u16()
			l := int(r.u16())
			if r.err == nil && r.p+l > end {
				return nil, errors.New("ccache: header field exceeds the header")
			}
			c.Header = append(c.Header, HeaderField{Tag: tag, Data: append([]byte{}, r.take(l)...)})
		}
		if r.err == nil && r.p != end {
			return nil, errors.New("ccache: header fields do not fill the header length")
		}
	}
	c.Default = r.principal()
	for r.err == nil && r.p < len(b) {
		c.Credentials = append(c.Credentials, r.credential())
	}
	if r.err != nil {
		return nil, r.err
	}
	return c, nil
}

// ---------------------------------------------------------------------------------------
// Self-test: hand-assembled files (from the format document, byte by byte) for each version.

func selfModel(version int) *Cache {
	u := Principal{NameType: 1, Realm: "R", Components: []string{"u"}}
	c := &Cache{Version: version, Default: u}
	if version == 4 {
		c.Header = []HeaderField{KDCOffset(6, 0), {Tag: 0x0102, Data: []byte("xyz")}}
	}
	c.Credentials = []Credential{{
		Client: u, Server: Principal{NameType: 2, Realm: "R", Components: []string{"krbtgt", "R"}},
		KeyType: 18, Key: []byte{1, 2, 3},
		AuthTime: 1, StartTime: 2, EndTime: 0x7ffffffe, RenewTill: -1,
		IsSKey: true, Flags: 0x40e10000,
		Addresses:    []Address{{Type: 2, Data: []byte{127, 0, 0, 1}}},
		AuthData:     []AuthData{{Type: 1, Data: []byte{0xaa, 0xbb}}},
		Ticket:       []byte{0x61, 0x00},
		SecondTicket: []byte{},
	}}
	return c
}

const (
	selfV4 = "0504" + "0013" + "00010008" + "00000006" + "00000000" + "01020003" + "78797a" +
		"00000001" + "00000001" + "00000001" + "52" + "00000001" + "75" +
		"00000001" + "00000001" + "00000001" + "52" + "00000001" + "75" +
		"00000002" + "00000002" + "00000001" + "52" + "00000006" + "6b7262746774" + "00000001" + "52" +
		"0012" + "00000003" + "010203" +
		"00000001" + "00000002" + "7ffffffe" + "ffffffff" + "01" + "40e10000" +
		"00000001" + "0002" + "00000004" + "7f000001" +
		"00000001" + "0001" + "00000002" + "aabb" +
		"00000002" + "6100" + "00000000"
	selfV3 = "0503" +
		"00000001" + "00000001" + "00000001" + "52" + "00000001" + "75" +
		"00000001" + "00000001" + "00000001" + "52" + "00000001" + "75" +
		"00000002" + "00000002" + "00000001" + "52" + "00000006" + "6b7262746774" + "00000001" + "52" +
		"0012" + "0012" + "00000003" + "010203" +
		"00000001" + "00000002" + "7ffffffe" + "ffffffff" + "01" + "40e10000" +
		"00000001" + "0002" + "00000004" + "7f000001" +
		"00000001" + "0001" + "00000002" + "aabb" +
		"00000002" + "6100" + "00000000"
	selfTailLE = "1200" + "03000000" + "010203" +
		"01000000" + "02000000" + "feffff7f" + "ffffffff" + "01" + "0000e140" +
		"01000000" + "0200" + "04000000" + "7f000001" +
		"01000000" + "0100" + "02000000" + "aabb" +
		"02000000" + "6100" + "00000000"
	selfV2LE = "0502" +
		"01000000" + "01000000" + "01000000" + "52" + "01000000" + "75" +
		"01000000" + "01000000" + "01000000" + "52" + "01000000" + "75" +
		"02000000" + "02000000" + "01000000" + "52" + "06000000" + "6b7262746774" + "01000000" + "52" +
		selfTailLE
	selfV1LE = "0501" +
		"02000000" + "01000000" + "52" + "01000000" + "75" +
		"02000000" + "01000000" + "52" + "01000000" + "75" +
		"03000000" + "01000000" + "52" + "06000000" + "6b7262746774" + "01000000" + "52" +
		selfTailLE
)

func unhex(s string) []byte {
	out := make([]byte, len(s)/2)
	for i := range out {
		var v byte
		for _, ch := range []byte(s[2*i : 2*i+2]) {
			v <<= 4
			switch {
			case ch >= '0' && ch <= '9':
				v |= ch - '0'
			case ch >= 'a' && ch <= 'f':
				v |= ch - 'a' + 10
			}
		}
		out[i] = v
	}
	return out
}

// Equal compares two caches field by field (nil and empty slices are the same).
func Equal(a, b *Cache) bool {
	x, _ := WriteOrder(a, binary.BigEndian)
	y, _ := WriteOrder(b, binary.BigEndian)
	if x == nil || y == nil || string(x) != string(y) {
		return false
	}
	// name types are not written in version 1 and the header only in version 4, all the
	// rest is injective in the rendering
	return true
}

// SelfTest checks the writer against hand-assembled files of every version and the reader
// against the writer.
func SelfTest() error {
	vec := []struct {
		v    int
		o    binary.ByteOrder
		file string
	}{
		{4, binary.BigEndian, selfV4}, {3, binary.BigEndian, selfV3},
		{2, binary.LittleEndian, selfV2LE}, {1, binary.LittleEndian, selfV1LE},
	}
	for _, t := range vec {
		want := unhex(t.file)
		got, err := WriteOrder(selfModel(t.v), t.o)
		if err != nil {
			return err
		}
		if string(got) != string(want) {
			return fmt.Errorf("ccache self-test: version %d rendering differs from the hand-assembled file:\n got %x\nwant %x", t.v, got, want)
		}
		back, err := ReadOrder(want, t.o)
		if err != nil {
			return fmt.Errorf("ccache self-test: version %d: reader: %v", t.v, err)
		}
		again, err := WriteOrder(back, t.o)
		if err != nil || string(again) != string(want) {
			return fmt.Errorf("ccache self-test: version %d does not survive read/write", t.v)
		}
		m := selfModel(t.v)
		if t.v == 1 { // name types are not stored
			m.Default.NameType = 0
			m.Credentials[0].Client.NameType = 0
			m.Credentials[0].Server.NameType = 0
		}
		if !Equal(back, m) || len(back.Header) != len(m.Header) {
			return fmt.Errorf("ccache self-test: version %d: reader result differs from the model", t.v)
		}
	}
	if (Order(1) != Native) || (Order(2) != Native) || Order(3) != binary.BigEndian || Order(4) != binary.BigEndian {
		return errors.New("ccache self-test: byte order selection")
	}
	if !IsConfig(ConfigEntry(Principal{}, "fast_avail", nil, []byte("yes")).Server) || IsConfig(Principal{Realm: "X-CACHECONF", Components: []string{ConfName}}) {
		return errors.New("ccache self-test: configuration entry recognition")
	}
	return nil
}

// SelfTestSample checks that an externally produced cache file (e.g. one written by MIT
// kinit) is read and written back byte-identically.
func SelfTestSample(file []byte) error {
	c, err := Read(file)
	if err != nil {
		return fmt.Errorf("ccache self-test: sample: %v", err)
	}
	out, err := Write(c)
	if err != nil {
		return err
	}
	if string(out) != string(file) {
		return fmt.Errorf("ccache self-test: sample is not reproduced byte-identically (%d vs %d bytes)", len(out), len(file))
	}
	return nil
}
