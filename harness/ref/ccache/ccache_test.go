package ccache

import (
	"fmt"
	"os"
	"os/exec"
	"path/filepath"
	"regexp"
	"strings"
	"testing"

	"verif/ref/der"
)

func TestSelf(t *testing.T) {
	if err := SelfTest(); err != nil {
		t.Fatal(err)
	}
}

// TestMITSample reads the MIT-generated version 4 cache that ships with the gokrb5 test data
// (taken as text from the Go source, nothing is imported), checks its content against what
// klist shows for it and re-writes it byte-identically.
func TestMITSample(t *testing.T) {
	files, _ := filepath.Glob("/repo/v8/test/testdata/*.go")
	re := regexp.MustCompile(`CCACHE_TEST\s*=\s*"([0-9a-fA-F]+)"`)
	var sample []byte
	for _, f := range files {
		src, err := os.ReadFile(f)
		if err != nil {
			continue
		}
		if m := re.FindSubmatch(src); m != nil {
			sample = unhex(string(m[1]))
		}
	}
	if sample == nil {
		t.Skip("sample cache not found")
	}
	if err := SelfTestSample(sample); err != nil {
		t.Fatal(err)
	}
	c, err := Read(sample)
	if err != nil {
		t.Fatal(err)
	}
	if c.Version != 4 || len(c.Header) != 1 || c.Header[0].Tag != TagKDCOffset || len(c.Header[0].Data) != 8 {
		t.Fatalf("header: %+v", c.Header)
	}
	if c.Default.Realm != "TEST.GOKRB5" || len(c.Default.Components) != 1 || c.Default.Components[0] != "testuser1" || c.Default.NameType != 1 {
		t.Fatalf("default principal: %+v", c.Default)
	}
	if len(c.Credentials) != 3 {
		t.Fatalf("%d credentials", len(c.Credentials))
	}
	tgt := c.Credentials[0]
	if tgt.Server.Realm != "TEST.GOKRB5" || len(tgt.Server.Components) != 2 || tgt.Server.Components[0] != "krbtgt" || len(tgt.Ticket) == 0 || tgt.Ticket[0] != 0x61 {
		t.Fatalf("first credential: %+v", tgt.Server)
	}
	// klist -f shows this TGT as forwardable, renewable, initial: flag bit 0 is the most
	// significant bit of the stored integer
	if tgt.Flags != 0x40c10000 {
		t.Fatalf("TGT flags %08x", tgt.Flags)
	}
	for i, cr := range c.Credentials {
		t.Logf("cred %d: server %v@%s keytype %d keylen %d flags %08x times %d %d %d %d config=%v", i, cr.Server.Components, cr.Server.Realm, cr.KeyType, len(cr.Key), cr.Flags, cr.AuthTime, cr.StartTime, cr.EndTime, cr.RenewTill, IsConfig(cr.Server))
	}
}

// ---------------------------------------------------------------------------------------
// Second opinion: the JDK's own credential cache reader (sun.security.krb5.internal.ccache)
// reads files of all four versions rendered by Write and must report the model's content.

const javaDump = `
import java.lang.reflect.Field;
import sun.security.krb5.PrincipalName;
import sun.security.krb5.internal.*;
import sun.security.krb5.internal.ccache.*;

public class Dump {
    static String hex(byte[] b) { StringBuilder s = new StringBuilder(); if (b != null) for (byte x : b) s.append(String.format("%02x", x)); return s.toString(); }
    static String pn(PrincipalName p) { return p.getNameType() + ":" + String.join("/", p.getNameStrings()) + "@" + p.getRealmString(); }
    static long t(KerberosTime k) { return k == null ? 0 : k.getTime() / 1000; }
    static Object get(Object o, String f) throws Exception { Field x = o.getClass().getDeclaredField(f); x.setAccessible(true); return x.get(o); }
    public static void main(String[] a) throws Exception {
        for (String path : a) {
            FileCredentialsCache c = FileCredentialsCache.acquireInstance(null, path);
            if (c == null) { System.out.println("UNREADABLE"); continue; }
            System.out.println("version " + (c.version & 0xff) + " default " + pn(c.getPrimaryPrincipal()));
            sun.security.krb5.internal.ccache.Credentials[] l = c.getCredsList();
            if (l != null) for (sun.security.krb5.internal.ccache.Credentials k : l) {
                boolean[] fl = k.getTicketFlags().toBooleanArray();
                long v = 0; for (int i = 0; i < 32 && i < fl.length; i++) if (fl[i]) v |= 1L << (31 - i);
                StringBuilder ad = new StringBuilder();
                HostAddresses ha = (HostAddresses) get(k, "caddr");
                if (ha != null) for (java.net.InetAddress ia : ha.getInetAddresses()) ad.append(hex(ia.getAddress())).append(",");
                StringBuilder au = new StringBuilder();
                AuthorizationData az = (AuthorizationData) get(k, "authorizationData");
                if (az != null) for (int i = 0; i < az.count(); i++) au.append(az.item(i).adType).append("=").append(hex(az.item(i).adData)).append(",");
                System.out.println("cred client " + pn(k.getClientPrincipal()) + " server " + pn(k.getServicePrincipal()) + " key " + k.getKey().getEType() + ":" + hex(k.getKey().getBytes())
                    + " times " + t(k.getAuthTime()) + " " + t(k.getStartTime()) + " " + t(k.getEndTime()) + " " + t(k.getRenewTill())
                    + " skey " + k.isEncInSKey + " flags " + String.format("%08x", v) + " addr " + ad + " authdata " + au + " ticket " + hex(k.getTicket().asn1Encode()));
            }
            for (CredentialsCache.ConfigEntry e : c.getConfigEntries()) System.out.println("config " + e.toString());
        }
    }
}
`

func derTicket(realm string, nt int, names []string, etype, kvno int, cipher []byte) []byte {
	var ns [][]byte
	for _, n := range names {
		ns = append(ns, der.GenString(n))
	}
	return der.App(1, der.Seq(
		der.Ctx(0, der.Int(5)),
		der.Ctx(1, der.GenString(realm)),
		der.Ctx(2, der.Seq(der.Ctx(0, der.Int(int64(nt))), der.Ctx(1, der.Seq(ns...)))),
		der.Ctx(3, der.Seq(der.Ctx(0, der.Int(int64(etype))), der.Ctx(1, der.Int(int64(kvno))), der.Ctx(2, der.Octets(cipher))))))
}

func jdkModel(version int) *Cache {
	u := Principal{NameType: 1, Realm: "EXAMPLE.COM", Components: []string{"alice", "admin"}}
	c := &Cache{Version: version, Default: u}
	if version == 4 {
		c.Header = []HeaderField{KDCOffset(-3, 250000)}
	}
	tgt := Principal{NameType: 2, Realm: "EXAMPLE.COM", Components: []string{"krbtgt", "EXAMPLE.COM"}}
	svc := Principal{NameType: 3, Realm: "OTHER.ORG", Components: []string{"HTTP", "www.other.org"}}
	c.Credentials = []Credential{
		{Client: u, Server: tgt, KeyType: 18, Key: []byte("0123456789abcdef0123456789ABCDEF"), AuthTime: 1700000000, StartTime: 1700000001, EndTime: 2100000000, RenewTill: 2100000777,
			Flags: 0x40e00000, Ticket: derTicket("EXAMPLE.COM", 2, tgt.Components, 18, 2, []byte("tgt-cipher")), SecondTicket: []byte{}},
		ConfigEntry(u, "fast_avail", &[]string{"krbtgt/EXAMPLE.COM@EXAMPLE.COM"}[0], []byte("yes")),
		{Client: u, Server: svc, KeyType: 17, Key: []byte("0123456789abcdef"), AuthTime: 1700000000, StartTime: 1700000100, EndTime: 2100000000, RenewTill: 0,
			IsSKey: false, Flags: 0x50a00000, // only flags the JDK knows (bits 1..11)
			Addresses: []Address{{Type: 2, Data: []byte{10, 1, 2, 3}}, {Type: 2, Data: []byte{192, 168, 0, 9}}},
			AuthData:  []AuthData{{Type: 1, Data: []byte{0x30, 0x00}}, {Type: 128, Data: []byte("pac?")}},
			Ticket:    derTicket("OTHER.ORG", 3, svc.Components, 17, 7, []byte("svc-cipher-bytes")), SecondTicket: []byte{}},
		ConfigEntry(u, "pa_type", nil, []byte("2")),
	}
	return c
}

func jdkExpect(c *Cache) string {
	pn := func(p Principal) string {
		nt := p.NameType
		if c.Version == 1 {
			nt = 0
		}
		return fmt.Sprintf("%d:%s@%s", nt, strings.Join(p.Components, "/"), p.Realm)
	}
	var sb strings.Builder
	fmt.Fprintf(&sb, "version %d default %s\n", c.Version, pn(c.Default))
	var conf []string
	for _, k := range c.Credentials {
		if IsConfig(k.Server) {
			conf = append(conf, k.Server.Components[1])
			continue
		}
		var ad, au strings.Builder
		for _, a := range k.Addresses {
			fmt.Fprintf(&ad, "%x,", a.Data)
		}
		for _, a := range k.AuthData {
			fmt.Fprintf(&au, "%d=%x,", a.Type, a.Data)
		}
		fmt.Fprintf(&sb, "cred client %s server %s key %d:%x times %d %d %d %d skey %v flags %08x addr %s authdata %s ticket %x\n",
			pn(k.Client), pn(k.Server), k.KeyType, k.Key, k.AuthTime, k.StartTime, k.EndTime, k.RenewTill, k.IsSKey, k.Flags, ad.String(), au.String(), k.Ticket)
	}
	_ = conf
	return sb.String()
}

func TestJDKReadsWhatIsWritten(t *testing.T) {
	javac, err1 := exec.LookPath("javac")
	java, err2 := exec.LookPath("java")
	if err1 != nil || err2 != nil {
		t.Skip("no JDK")
	}
	dir := t.TempDir()
	if err := os.WriteFile(filepath.Join(dir, "Dump.java"), []byte(javaDump), 0o644); err != nil {
		t.Fatal(err)
	}
	exports := []string{
		"--add-exports", "java.security.jgss/sun.security.krb5.internal.ccache=ALL-UNNAMED",
		"--add-exports", "java.security.jgss/sun.security.krb5.internal=ALL-UNNAMED",
		"--add-exports", "java.security.jgss/sun.security.krb5=ALL-UNNAMED"}
	if out, err := exec.Command(javac, append(append([]string{"-nowarn", "-d", dir}, exports...), filepath.Join(dir, "Dump.java"))...).CombinedOutput(); err != nil {
		t.Skipf("javac: %v\n%s", err, out)
	}
	for v := 1; v <= 4; v++ {
		m := jdkModel(v)
		b, err := Write(m)
		if err != nil {
			t.Fatal(err)
		}
		f := filepath.Join(dir, fmt.Sprintf("cc_v%d", v))
		if err := os.WriteFile(f, b, 0o600); err != nil {
			t.Fatal(err)
		}
		args := append([]string{"-cp", dir}, exports...)
		args = append(args, "--add-opens", "java.security.jgss/sun.security.krb5.internal.ccache=ALL-UNNAMED", "Dump", f)
		out, err := exec.Command(java, args...).CombinedOutput()
		if err != nil {
			t.Fatalf("java: %v\n%s", err, out)
		}
		var got strings.Builder
		for _, l := range strings.Split(string(out), "\n") {
			if strings.HasPrefix(l, "version ") || strings.HasPrefix(l, "cred ") {
				got.WriteString(l + "\n")
			}
		}
		if got.String() != jdkExpect(m) {
			t.Errorf("version %d: the JDK reads\n%s\nthe model is\n%s\nraw output:\n%s", v, got.String(), jdkExpect(m), out)
		}
	}
}
