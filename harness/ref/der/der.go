// Package der is a small independent DER encoder and strict DER parser (TLV tree). It imports
// neither encoding/asn1 nor the gofork copy used by gokrb5.
package der

import (
	"errors"
	"fmt"
	"math/big"
	"time"
)

// Classes.
const (
	Universal   = 0
	Application = 1
	Context     = 2
	Private     = 3
)

// Universal tags used by Kerberos.
const (
	TagBoolean         = 1
	TagInteger         = 2
	TagBitString       = 3
	TagOctetString     = 4
	TagNull            = 5
	TagOID             = 6
	TagEnumerated      = 10
	TagUTF8String      = 12
	TagSequence        = 16
	TagSet             = 17
	TagIA5String       = 22
	TagUTCTime         = 23
	TagGeneralizedTime = 24
	TagGeneralString   = 27
)

// ---------------------------------------------------------------------------------------
// Encoding

// Len encodes a definite length in minimal form.
func Len(n int) []byte {
	if n < 0x80 {
		return []byte{byte(n)}
	}
	var b []byte
	for v := n; v > 0; v >>= 8 {
		b = append([]byte{byte(v)}, b...)
	}
	return append([]byte{0x80 | byte(len(b))}, b...)
}

// TLV builds an element.
func TLV(class, tag int, constructed bool, content []byte) []byte {
	var id []byte
	first := byte(class << 6)
	if constructed {
		first |= 0x20
	}
	if tag < 31 {
		id = []byte{first | byte(tag)}
	} else {
		id = []byte{first | 0x1f}
		var t []byte
		for v := tag; ; v >>= 7 {
			t = append([]byte{byte(v & 0x7f)}, t...)
			if v < 0x80 {
				break
			}
		}
		for i := 0; i < len(t)-1; i++ {
			t[i] |= 0x80
		}
		id = append(id, t...)
	}
	out := append(id, Len(len(content))...)
	return append(out, content...)
}

func cat(items [][]byte) []byte {
	var c []byte
	for _, i := range items {
		c = append(c, i...)
	}
	return c
}

// Seq builds a SEQUENCE of already encoded items (nil items are skipped: absent optionals).
func Seq(items ...[]byte) []byte { return TLV(Universal, TagSequence, true, cat(items)) }

// Ctx wraps inner in an explicit context tag. A nil inner yields nil (absent optional).
func Ctx(tag int, inner []byte) []byte {
	if inner == nil {
		return nil
	}
	return TLV(Context, tag, true, inner)
}

// CtxAlways wraps even an empty inner.
func CtxAlways(tag int, inner []byte) []byte { return TLV(Context, tag, true, inner) }

// App wraps inner in an explicit application tag.
func App(tag int, inner []byte) []byte { return TLV(Application, tag, true, inner) }

// IntBytes returns the minimal two's complement content octets.
func IntBytes(v int64) []byte {
	n := 1
	for ; n < 8; n++ {
		// does v fit in n bytes?
		min := -(int64(1) << uint(8*n-1))
		max := (int64(1) << uint(8*n-1)) - 1
		if v >= min && v <= max {
			break
		}
	}
	b := make([]byte, n)
	for i := 0; i < n; i++ {
		b[n-1-i] = byte(v >> uint(8*i))
	}
	return b
}

// Int encodes an INTEGER.
func Int(v int64) []byte { return TLV(Universal, TagInteger, false, IntBytes(v)) }

// Enum encodes an ENUMERATED.
func Enum(v int64) []byte { return TLV(Universal, TagEnumerated, false, IntBytes(v)) }

// Octets encodes an OCTET STRING (nil and empty both give a present, empty string).
func Octets(b []byte) []byte { return TLV(Universal, TagOctetString, false, b) }

// GenString encodes a GeneralString (KerberosString).
func GenString(s string) []byte { return TLV(Universal, TagGeneralString, false, []byte(s)) }

// Bool encodes a BOOLEAN.
func Bool(v bool) []byte {
	if v {
		return TLV(Universal, TagBoolean, false, []byte{0xff})
	}
	return TLV(Universal, TagBoolean, false, []byte{0})
}

// Bits encodes a BIT STRING with the given number of unused bits.
func Bits(b []byte, unused int) []byte {
	return TLV(Universal, TagBitString, false, append([]byte{byte(unused)}, b...))
}

// Flags32 encodes a 32-bit KerberosFlags value (bit 0 = most significant bit).
func Flags32(v uint32) []byte {
	return Bits([]byte{byte(v >> 24), byte(v >> 16), byte(v >> 8), byte(v)}, 0)
}

// GenTime encodes a KerberosTime (GeneralizedTime, UTC, no fractional seconds).
func GenTime(t time.Time) []byte {
	return TLV(Universal, TagGeneralizedTime, false, []byte(t.UTC().Format("20060102150405Z")))
}

// OID encodes an OBJECT IDENTIFIER.
func OID(arcs ...int) []byte {
	if len(arcs) < 2 {
		return TLV(Universal, TagOID, false, nil)
	}
	c := []byte{byte(arcs[0]*40 + arcs[1])}
	for _, a := range arcs[2:] {
		var t []byte
		for v := a; ; v >>= 7 {
			t = append([]byte{byte(v & 0x7f)}, t...)
			if v < 0x80 {
				break
			}
		}
		for i := 0; i < len(t)-1; i++ {
			t[i] |= 0x80
		}
		c = append(c, t...)
	}
	return TLV(Universal, TagOID, false, c)
}

// ---------------------------------------------------------------------------------------
// Parsing

// Node is a parsed element.
type Node struct {
	Class       int
	Tag         int
	Constructed bool
	Content     []byte
	Raw         []byte
	Children    []*Node // parsed if Constructed
}

// ParseOpts controls strictness.
type ParseOpts struct {
	// AllowBER tolerates non-minimal lengths (used by lenient extractors).
	AllowBER bool
	MaxDepth int
}

// Parse parses exactly one element from b and returns the rest.
func Parse(b []byte) (*Node, []byte, error) { return parse(b, ParseOpts{}, 0) }

// ParseWith parses with options.
func ParseWith(b []byte, o ParseOpts) (*Node, []byte, error) { return parse(b, o, 0) }

// ParseOne parses one element and rejects trailing bytes.
func ParseOne(b []byte) (*Node, error) {
	n, rest, err := Parse(b)
	if err != nil {
		return nil, err
	}
	if len(rest) != 0 {
		return nil, fmt.Errorf("der: %d trailing bytes", len(rest))
	}
	return n, nil
}

func parse(b []byte, o ParseOpts, depth int) (*Node, []byte, error) {
	maxd := o.MaxDepth
	if maxd == 0 {
		maxd = 64
	}
	if depth > maxd {
		return nil, nil, errors.New("der: nesting too deep")
	}
	if len(b) < 2 {
		return nil, nil, errors.New("der: truncated header")
	}
	n := &Node{Class: int(b[0] >> 6), Constructed: b[0]&0x20 != 0, Tag: int(b[0] & 0x1f)}
	off := 1
	if n.Tag == 0x1f {
		n.Tag = 0
		for i := 0; ; i++ {
			if off >= len(b) {
				return nil, nil, errors.New("der: truncated tag")
			}
			if i > 4 {
				return nil, nil, errors.New("der: tag too large")
			}
			c := b[off]
			off++
			if i == 0 && c == 0x80 && !o.AllowBER {
				return nil, nil, errors.New("der: non-minimal tag")
			}
			n.Tag = n.Tag<<7 | int(c&0x7f)
			if c&0x80 == 0 {
				break
			}
		}
		if n.Tag < 31 && !o.AllowBER {
			return nil, nil, errors.New("der: long form used for small tag")
		}
	}
	if off >= len(b) {
		return nil, nil, errors.New("der: truncated length")
	}
	l := int(b[off])
	off++
	if l&0x80 != 0 {
		nl := l & 0x7f
		if nl == 0 {
			return nil, nil, errors.New("der: indefinite length")
		}
		if nl > 4 {
			return nil, nil, errors.New("der: length too large")
		}
		if off+nl > len(b) {
			return nil, nil, errors.New("der: truncated length")
		}
		l = 0
		for i := 0; i < nl; i++ {
			l = l<<8 | int(b[off+i])
		}
		if !o.AllowBER {
			if b[off] == 0 {
				return nil, nil, errors.New("der: non-minimal length (leading zero)")
			}
			if l < 0x80 {
				return nil, nil, errors.New("der: non-minimal length (long form for short length)")
			}
		}
		off += nl
	}
	if l < 0 || off+l > len(b) {
		return nil, nil, errors.New("der: content exceeds input")
	}
	n.Content = b[off : off+l]
	n.Raw = b[:off+l]
	if n.Constructed {
		c := n.Content
		for len(c) > 0 {
			ch, rest, err := parse(c, o, depth+1)
			if err != nil {
				return nil, nil, err
			}
			n.Children = append(n.Children, ch)
			c = rest
		}
	}
	return n, b[off+l:], nil
}

// Is reports class/tag.
func (n *Node) Is(class, tag int) bool { return n != nil && n.Class == class && n.Tag == tag }

// Expect checks class, tag and constructed bit.
func (n *Node) Expect(class, tag int, constructed bool) error {
	if n == nil {
		return errors.New("der: missing element")
	}
	if n.Class != class || n.Tag != tag || n.Constructed != constructed {
		return fmt.Errorf("der: expected class %d tag %d constructed %v, got class %d tag %d constructed %v", class, tag, constructed, n.Class, n.Tag, n.Constructed)
	}
	return nil
}

// Inner returns the single child of an explicit tag.
func (n *Node) Inner() (*Node, error) {
	if n == nil || !n.Constructed || len(n.Children) != 1 {
		return nil, errors.New("der: explicit tag without exactly one inner element")
	}
	return n.Children[0], nil
}

// Field returns the child with context tag t (nil if absent).
func (n *Node) Field(t int) *Node {
	for _, c := range n.Children {
		if c.Class == Context && c.Tag == t {
			return c
		}
	}
	return nil
}

// AsInt decodes an INTEGER / ENUMERATED strictly (minimal two's complement).
func (n *Node) AsInt() (int64, error) {
	if n == nil || n.Class != Universal || (n.Tag != TagInteger && n.Tag != TagEnumerated) || n.Constructed {
		return 0, errors.New("der: not an INTEGER")
	}
	c := n.Content
	if len(c) == 0 {
		return 0, errors.New("der: empty INTEGER")
	}
	if len(c) > 1 && ((c[0] == 0 && c[1]&0x80 == 0) || (c[0] == 0xff && c[1]&0x80 != 0)) {
		return 0, errors.New("der: non-minimal INTEGER")
	}
	if len(c) > 8 {
		return 0, errors.New("der: INTEGER too large")
	}
	v := new(big.Int).SetBytes(c)
	if c[0]&0x80 != 0 {
		v.Sub(v, new(big.Int).Lsh(big.NewInt(1), uint(8*len(c))))
	}
	return v.Int64(), nil
}

// AsOctets decodes an OCTET STRING.
func (n *Node) AsOctets() ([]byte, error) {
	if err := n.Expect(Universal, TagOctetString, false); err != nil {
		return nil, err
	}
	return n.Content, nil
}

// AsGenString decodes a GeneralString.
func (n *Node) AsGenString() (string, error) {
	if err := n.Expect(Universal, TagGeneralString, false); err != nil {
		return "", err
	}
	return string(n.Content), nil
}

// AsTime decodes a KerberosTime (exactly YYYYMMDDHHMMSSZ).
func (n *Node) AsTime() (time.Time, error) {
	if err := n.Expect(Universal, TagGeneralizedTime, false); err != nil {
		return time.Time{}, err
	}
	if len(n.Content) != 15 || n.Content[14] != 'Z' {
		return time.Time{}, fmt.Errorf("der: KerberosTime %q not YYYYMMDDHHMMSSZ", n.Content)
	}
	return time.Parse("20060102150405Z", string(n.Content))
}

// AsBits decodes a BIT STRING into bytes and the number of unused bits.
func (n *Node) AsBits() ([]byte, int, error) {
	if err := n.Expect(Universal, TagBitString, false); err != nil {
		return nil, 0, err
	}
	if len(n.Content) == 0 {
		return nil, 0, errors.New("der: empty BIT STRING content")
	}
	u := int(n.Content[0])
	if u > 7 || (len(n.Content) == 1 && u != 0) {
		return nil, 0, errors.New("der: bad unused-bits octet")
	}
	return n.Content[1:], u, nil
}

// AsBool decodes a BOOLEAN (DER: 0x00 or 0xFF).
func (n *Node) AsBool() (bool, error) {
	if err := n.Expect(Universal, TagBoolean, false); err != nil {
		return false, err
	}
	if len(n.Content) != 1 || (n.Content[0] != 0 && n.Content[0] != 0xff) {
		return false, errors.New("der: bad BOOLEAN")
	}
	return n.Content[0] != 0, nil
}

// AsOID decodes an OBJECT IDENTIFIER.
func (n *Node) AsOID() ([]int, error) {
	if err := n.Expect(Universal, TagOID, false); err != nil {
		return nil, err
	}
	if len(n.Content) == 0 {
		return nil, errors.New("der: empty OID")
	}
	out := []int{int(n.Content[0]) / 40, int(n.Content[0]) % 40}
	v := 0
	for i, c := range n.Content[1:] {
		v = v<<7 | int(c&0x7f)
		if c&0x80 == 0 {
			out = append(out, v)
			v = 0
		} else if i == len(n.Content)-2 {
			return nil, errors.New("der: truncated OID")
		}
	}
	return out, nil
}
