// Package pac is an independent model of the MS-PAC container (MS-PAC 2.3, 2.4) and of the
// server-signature verification (2.8): buffer-table parser, builder, signer and verifier. The
// NDR payload of the individual buffers is treated as opaque. It imports nothing from gokrb5.
package pac

import (
	_ "embed"
	"encoding/binary"
	"encoding/hex"
	"errors"
	"fmt"
	"strings"

	"verif/ref/kcrypto"
	"verif/ref/kmsg"
)

// Buffer types.
const (
	LogonInfo  = 1
	ServerSig  = 6
	KDCSig     = 7
	ClientInfo = 10
)

//go:embed sample_ad_win2k_pac.hex
var sampleHex string

//go:embed sample_keytab_syshttp.hex
var sampleKeytabHex string

// Buf is one PAC buffer.
type Buf struct {
	Type uint32
	Data []byte
	Off  uint64 // as found by Parse
}

// Parse decodes the buffer table strictly (bounds checked).
func Parse(b []byte) ([]Buf, uint32, error) {
	if len(b) < 8 {
		return nil, 0, errors.New("pac: shorter than the PACTYPE header")
	}
	n := binary.LittleEndian.Uint32(b[0:])
	ver := binary.LittleEndian.Uint32(b[4:])
	if uint64(n)*16+8 > uint64(len(b)) {
		return nil, ver, fmt.Errorf("pac: %d buffers do not fit in %d bytes", n, len(b))
	}
	out := make([]Buf, 0, n)
	for i := uint32(0); i < n; i++ {
		o := 8 + 16*int(i)
		t := binary.LittleEndian.Uint32(b[o:])
		sz := binary.LittleEndian.Uint32(b[o+4:])
		off := binary.LittleEndian.Uint64(b[o+8:])
		if off > uint64(len(b)) || off+uint64(sz) > uint64(len(b)) {
			return nil, ver, fmt.Errorf("pac: buffer %d (type %d) [%d,+%d) outside the PAC of %d bytes", i, t, off, sz, len(b))
		}
		out = append(out, Buf{Type: t, Data: b[off : off+uint64(sz)], Off: off})
	}
	return out, ver, nil
}

// Build lays out buffers after the table, each at an 8-byte aligned offset.
func Build(bufs []Buf) []byte {
	hdr := 8 + 16*len(bufs)
	off := (hdr + 7) &^ 7
	out := make([]byte, off)
	binary.LittleEndian.PutUint32(out[0:], uint32(len(bufs)))
	for i, bf := range bufs {
		o := 8 + 16*i
		binary.LittleEndian.PutUint32(out[o:], bf.Type)
		binary.LittleEndian.PutUint32(out[o+4:], uint32(len(bf.Data)))
		binary.LittleEndian.PutUint64(out[o+8:], uint64(len(out)))
		out = append(out, bf.Data...)
		for len(out)%8 != 0 {
			out = append(out, 0)
		}
	}
	return out
}

// SigLen is the signature length for a checksum type (MS-PAC 2.8.1 plus RFC 8009 types).
func SigLen(t int32) (int, bool) {
	switch t {
	case -138:
		return 16, true
	case 15, 16:
		return 12, true
	case 19:
		return 16, true
	case 20:
		return 24, true
	}
	return 0, false
}

// SigBuf renders PAC_SIGNATURE_DATA.
func SigBuf(t int32, sig []byte, rodc *uint16) []byte {
	b := make([]byte, 4)
	binary.LittleEndian.PutUint32(b, uint32(t))
	b = append(b, sig...)
	if rodc != nil {
		b = append(b, byte(*rodc), byte(*rodc>>8))
	}
	return b
}

// checksum computes a PAC signature of the given type under key (usage 17). HMAC-MD5 (-138) is
// usable with a key of any etype (MS-PAC 2.8.1); the other types need a key of their own etype.
func checksum(t int32, key kmsg.Key, data []byte) ([]byte, error) {
	et, ok := kcrypto.EtypeOfCksum[t]
	if !ok {
		return nil, fmt.Errorf("pac: unsupported signature type %d", t)
	}
	if t == -138 {
		return kcrypto.HMACMD5Checksum(key.Value, 17, data), nil
	}
	if kcrypto.KeyLen(et) != len(key.Value) {
		return nil, fmt.Errorf("pac: signature type %d needs a %d-byte key, have %d", t, kcrypto.KeyLen(et), len(key.Value))
	}
	return kcrypto.Checksum(et, key.Value, 17, data)
}

// zeroed returns a copy of the PAC with the signature bytes of the first server- and first
// KDC-signature buffers set to zero, and the two buffers.
func zeroed(b []byte) ([]byte, *Buf, *Buf, error) {
	bufs, _, err := Parse(b)
	if err != nil {
		return nil, nil, nil, err
	}
	z := append([]byte{}, b...)
	var srv, kdc *Buf
	for i := range bufs {
		bf := &bufs[i]
		if (bf.Type == ServerSig && srv == nil) || (bf.Type == KDCSig && kdc == nil) {
			if len(bf.Data) < 4 {
				return nil, nil, nil, errors.New("pac: signature buffer shorter than its type field")
			}
			t := int32(binary.LittleEndian.Uint32(bf.Data))
			n, ok := SigLen(t)
			if !ok {
				if bf.Type == ServerSig {
					return nil, nil, nil, fmt.Errorf("pac: unsupported server signature type %d", t)
				}
				// an unknown KDC signature type cannot be zeroed by length; MS-PAC leaves the service
				// no way to verify it: treat the rest of the buffer as the signature
				n = len(bf.Data) - 4
			}
			if len(bf.Data) < 4+n {
				return nil, nil, nil, fmt.Errorf("pac: signature buffer of type %d shorter than %d bytes", t, 4+n)
			}
			for j := 0; j < n; j++ {
				z[int(bf.Off)+4+j] = 0
			}
			if bf.Type == ServerSig {
				srv = bf
			} else {
				kdc = bf
			}
		}
	}
	return z, srv, kdc, nil
}

// Verify implements the service-side check of MS-PAC 2.8 (server signature only: the KDC
// signature needs the krbtgt key) together with the mandatory-buffer rule.
func Verify(b []byte, key kmsg.Key) error {
	bufs, _, err := Parse(b)
	if err != nil {
		return err
	}
	have := map[uint32]bool{}
	for _, bf := range bufs {
		have[bf.Type] = true
	}
	for _, t := range []uint32{LogonInfo, ClientInfo, ServerSig, KDCSig} {
		if !have[t] {
			return fmt.Errorf("pac: mandatory buffer type %d missing", t)
		}
	}
	z, srv, _, err := zeroed(b)
	if err != nil {
		return err
	}
	t := int32(binary.LittleEndian.Uint32(srv.Data))
	n, _ := SigLen(t)
	want, err := checksum(t, key, z)
	if err != nil {
		return err
	}
	got := srv.Data[4 : 4+n]
	if hex.EncodeToString(got) != hex.EncodeToString(want) {
		return errors.New("pac: server signature mismatch")
	}
	return nil
}

// Sign rebuilds the PAC from its non-signature buffers (in the given order, signature buffers
// are re-created at their original positions or appended) with a server signature of type st
// under key and a KDC signature of type kt under kdcKey.
func Sign(bufs []Buf, st int32, key kmsg.Key, kt int32, kdcKey kmsg.Key, rodc *uint16) ([]byte, error) {
	sn, ok := SigLen(st)
	if !ok {
		return nil, fmt.Errorf("pac: unsupported type %d", st)
	}
	kn, ok := SigLen(kt)
	if !ok {
		return nil, fmt.Errorf("pac: unsupported type %d", kt)
	}
	var out []Buf
	hasS, hasK := false, false
	for _, bf := range bufs {
		switch bf.Type {
		case ServerSig:
			if !hasS {
				out = append(out, Buf{Type: ServerSig, Data: SigBuf(st, make([]byte, sn), rodc)})
				hasS = true
				continue
			}
		case KDCSig:
			if !hasK {
				out = append(out, Buf{Type: KDCSig, Data: SigBuf(kt, make([]byte, kn), rodc)})
				hasK = true
				continue
			}
		}
		out = append(out, Buf{Type: bf.Type, Data: bf.Data})
	}
	if !hasS {
		out = append(out, Buf{Type: ServerSig, Data: SigBuf(st, make([]byte, sn), rodc)})
	}
	if !hasK {
		out = append(out, Buf{Type: KDCSig, Data: SigBuf(kt, make([]byte, kn), rodc)})
	}
	z := Build(out)
	ssig, err := checksum(st, key, z)
	if err != nil {
		return nil, err
	}
	ksig, err := checksum(kt, kdcKey, ssig)
	if err != nil {
		return nil, err
	}
	parsed, _, _ := Parse(z)
	doneS, doneK := false, false
	for _, bf := range parsed {
		if bf.Type == ServerSig && !doneS {
			copy(z[int(bf.Off)+4:], ssig)
			doneS = true
		}
		if bf.Type == KDCSig && !doneK {
			copy(z[int(bf.Off)+4:], ksig)
			doneK = true
		}
	}
	return z, nil
}

// SampleBytes returns the AD-issued sample PAC (from the repository's test vectors; data only).
func SampleBytes() []byte {
	b, err := hex.DecodeString(strings.TrimSpace(sampleHex))
	if err != nil {
		panic(err)
	}
	return b
}

// SampleKey returns the aes256 key (sysHTTP@TEST.GOKRB5 kvno 2) under which the sample PAC was
// signed, read from the MIT keytab sample with a minimal reader.
func SampleKey() (kmsg.Key, error) {
	b, err := hex.DecodeString(strings.TrimSpace(sampleKeytabHex))
	if err != nil {
		return kmsg.Key{}, err
	}
	if len(b) < 2 || b[0] != 5 || b[1] != 2 {
		return kmsg.Key{}, errors.New("pac: sample keytab not version 2")
	}
	p := 2
	for p+4 <= len(b) {
		l := int(int32(binary.BigEndian.Uint32(b[p:])))
		p += 4
		if l < 0 {
			p += -l
			continue
		}
		rec := b[p : p+l]
		p += l
		q := 0
		nc := int(binary.BigEndian.Uint16(rec[q:]))
		q += 2
		rl := int(binary.BigEndian.Uint16(rec[q:]))
		q += 2 + rl
		for i := 0; i < nc; i++ {
			cl := int(binary.BigEndian.Uint16(rec[q:]))
			q += 2 + cl
		}
		q += 4 + 4 // name type, timestamp
		kv := int(rec[q])
		q++
		kt := int(binary.BigEndian.Uint16(rec[q:]))
		q += 2
		kl := int(binary.BigEndian.Uint16(rec[q:]))
		q += 2
		key := rec[q : q+kl]
		if kt == 18 && kv == 2 {
			return kmsg.Key{Type: 18, Value: append([]byte{}, key...)}, nil
		}
	}
	return kmsg.Key{}, errors.New("pac: aes256 kvno 2 key not found in sample keytab")
}

// Rand is the PRNG interface needed here.
type Rand interface {
	Intn(n int) int
	Bytes(n int) []byte
}

// Sample returns the sample PAC re-signed under key with the key's own checksum type (KDC
// signature under a random key of the same type).
func Sample(key kmsg.Key, r Rand) ([]byte, error) {
	bufs, _, err := Parse(SampleBytes())
	if err != nil {
		return nil, err
	}
	st := kcrypto.CksumTypeOf[key.Type]
	if _, ok := SigLen(st); !ok {
		st = -138 // des3 has no PAC signature type of its own; HMAC-MD5 is usable with any key
	}
	kdc := kmsg.Key{Type: key.Type, Value: kcrypto.RandomToKey(key.Type, r.Bytes(kcrypto.SeedLen(key.Type)))}
	return Sign(bufs, st, key, st, kdc, nil)
}

// FlipSignedBit flips one bit inside the logon-info buffer (always covered by the server signature).
func FlipSignedBit(b []byte, r Rand) []byte {
	out := append([]byte{}, b...)
	bufs, _, err := Parse(b)
	if err != nil {
		return out
	}
	for _, bf := range bufs {
		if bf.Type == LogonInfo && len(bf.Data) > 0 {
			i := r.Intn(len(bf.Data) * 8)
			out[int(bf.Off)+i/8] ^= 0x80 >> uint(i%8)
			return out
		}
	}
	return out
}

// SelfTest verifies the AD-issued sample under its real key and exercises re-signing.
func SelfTest() error {
	k, err := SampleKey()
	if err != nil {
		return err
	}
	if err := Verify(SampleBytes(), k); err != nil {
		return fmt.Errorf("pac: AD-issued sample does not verify under its key: %v", err)
	}
	bad := SampleBytes()
	bad[100] ^= 1
	if Verify(bad, k) == nil {
		return errors.New("pac: corrupted sample verifies")
	}
	bufs, _, _ := Parse(SampleBytes())
	rb := Build(bufs)
	if hex.EncodeToString(rb) != hex.EncodeToString(SampleBytes()) {
		return errors.New("pac: Build(Parse(sample)) does not reproduce the sample layout")
	}
	return nil
}

// SampleEffectiveName is the account name encoded in the sample PAC's logon information (as
// asserted by the repository's own vectors).
const SampleEffectiveName = "testuser1"
