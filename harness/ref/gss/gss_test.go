package gss

import (
	"bytes"
	"testing"

	"verif/ref/kcrypto"
)

func TestSelf(t *testing.T) {
	if err := SelfTest(); err != nil {
		t.Fatal(err)
	}
}

func TestDecodeRejects(t *testing.T) {
	key := bytes.Repeat([]byte{7}, 16)
	mic, err := BuildMIC(kcrypto.AES128, key, UsageInitiatorSign, 0, 1<<32, []byte("x"))
	if err != nil {
		t.Fatal(err)
	}
	wrap, err := BuildWrap(kcrypto.AES128, key, UsageInitiatorSeal, 0, 1<<63, []byte("x"))
	if err != nil {
		t.Fatal(err)
	}
	if len(mic) != 28 || len(wrap) != 29 {
		t.Fatalf("lengths %d %d", len(mic), len(wrap))
	}
	for l := 0; l < 16; l++ {
		if _, err := DecodeMIC(mic[:l], false); err != ErrShort {
			t.Fatalf("MIC len %d: %v", l, err)
		}
		if _, err := DecodeWrap(wrap[:l], false); err != ErrShort {
			t.Fatalf("Wrap len %d: %v", l, err)
		}
	}
	if _, err := DecodeMIC(wrap, false); err != ErrTokID {
		t.Fatal("wrap as MIC", err)
	}
	if _, err := DecodeWrap(mic, false); err != ErrTokID {
		t.Fatal("MIC as wrap", err)
	}
	for i := 3; i < 8; i++ {
		c := append([]byte{}, mic...)
		c[i] = 0xFE
		if _, err := DecodeMIC(c, false); err != ErrFiller {
			t.Fatal("MIC filler", i, err)
		}
	}
	c := append([]byte{}, wrap...)
	c[3] = 0
	if _, err := DecodeWrap(c, false); err != ErrFiller {
		t.Fatal("wrap filler", err)
	}
	if _, err := DecodeMIC(mic, true); err != ErrDirection {
		t.Fatal("MIC direction", err)
	}
	c = append([]byte{}, wrap...)
	c[5] = 14 // EC larger than the 13 octets of data
	if _, err := DecodeWrap(c, false); err != ErrEC {
		t.Fatal("EC", err)
	}
	c[5] = 13 // EC = all data: empty payload, 13-octet "checksum": decodes, must not verify
	w, err := DecodeWrap(c, false)
	if err != nil || len(w.Payload) != 0 || VerifyWrap(kcrypto.AES128, key, UsageInitiatorSeal, w) {
		t.Fatal("EC=13", err)
	}
	// a header-only Wrap token (EC 0, no data) decodes and never verifies
	w, err = DecodeWrap(WrapHeader(0, 0, 0, 0), false)
	if err != nil || VerifyWrap(kcrypto.AES128, key, UsageInitiatorSeal, w) {
		t.Fatal("header only", err)
	}
	if WrapUsage(true) != 22 || MICUsage(true) != 23 || WrapUsage(false) != 24 || MICUsage(false) != 25 {
		t.Fatal("usages")
	}
}
