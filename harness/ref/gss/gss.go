// Package gss is an independent builder, decoder and verifier for the RFC 4121 section 4.2.6
// per-message tokens (MIC token 4.2.6.1, Wrap token without confidentiality 4.2.6.2), written from
// the RFC text over the reference checksums of ref/kcrypto. It imports nothing from gokrb5.
//
// Layout (RFC 4121 4.2.6.1, MIC):
//
//	0..1   TOK_ID    04 04
//	2      Flags     0x01 SentByAcceptor, 0x02 Sealed (SHALL NOT be set in MIC), 0x04 AcceptorSubkey
//	3..7   Filler    FF FF FF FF FF
//	8..15  SND_SEQ   64 bit big-endian
//	16..   SGN_CKSUM checksum(key, usage, payload || octets 0..15)
//
// Layout (RFC 4121 4.2.6.2, Wrap, no confidentiality):
//
//	0..1   TOK_ID    05 04
//	2      Flags
//	3      Filler    FF
//	4..5   EC        big-endian; without confidentiality: number of octets of the trailing checksum
//	6..7   RRC       big-endian right rotation count
//	8..15  SND_SEQ   64 bit big-endian
//	16..   payload || checksum(key, usage, payload || header with EC = RRC = 0), the whole of
//	       it rotated right by RRC octets (4.2.5)
//
// Confidentiality (sealed Wrap tokens) is not modelled: the code under test never encrypts.  The
// Sealed bit is carried as an opaque header bit that takes part in the checksum like every other
// flag bit; DecodeWrap reports it and VerifyWrap treats the token as the unsealed layout.
package gss

import (
	"bytes"
	"encoding/binary"
	"encoding/hex"
	"errors"
	"fmt"

	"verif/ref/kcrypto"
)

// Flag bits of octet 2.
const (
	FlagSentByAcceptor byte = 0x01
	FlagSealed         byte = 0x02
	FlagAcceptorSubkey byte = 0x04
)

// Key usages (RFC 4121 section 2).
const (
	UsageAcceptorSeal  uint32 = 22
	UsageAcceptorSign  uint32 = 23
	UsageInitiatorSeal uint32 = 24
	UsageInitiatorSign uint32 = 25
)

// HdrLen is the length of both token headers.
const HdrLen = 16

// Errors of the decoders: each names the first RFC requirement that is not met.
var (
	ErrShort     = errors.New("gss: token shorter than the 16 octet header")
	ErrTokID     = errors.New("gss: wrong TOK_ID")
	ErrFiller    = errors.New("gss: wrong filler")
	ErrDirection = errors.New("gss: SentByAcceptor flag does not match the expected sender")
	ErrEC        = errors.New("gss: EC larger than the data following the header")
)

// MIC is a decoded MIC token (the payload is not transmitted).
type MIC struct {
	Flags    byte
	Seq      uint64
	Checksum []byte
}

// Wrap is a decoded Wrap token without confidentiality. Payload and Checksum are given after the
// rotation by RRC has been undone.
type Wrap struct {
	Flags    byte
	EC       uint16
	RRC      uint16
	Seq      uint64
	Payload  []byte
	Checksum []byte
}

// WrapUsage / MICUsage give the key usage the RFC assigns to a sender.
func WrapUsage(sentByAcceptor bool) uint32 {
	if sentByAcceptor {
		return UsageAcceptorSeal
	}
	return UsageInitiatorSeal
}

// MICUsage is the signing usage of a sender.
func MICUsage(sentByAcceptor bool) uint32 {
	if sentByAcceptor {
		return UsageAcceptorSign
	}
	return UsageInitiatorSign
}

// MICHeader is octets 0..15 of a MIC token.
func MICHeader(flags byte, seq uint64) []byte {
	h := []byte{0x04, 0x04, flags, 0xFF, 0xFF, 0xFF, 0xFF, 0xFF, 0, 0, 0, 0, 0, 0, 0, 0}
	binary.BigEndian.PutUint64(h[8:], seq)
	return h
}

// WrapHeader is octets 0..15 of a Wrap token.
func WrapHeader(flags byte, ec, rrc uint16, seq uint64) []byte {
	h := []byte{0x05, 0x04, flags, 0xFF, 0, 0, 0, 0, 0, 0, 0, 0, 0, 0, 0, 0}
	binary.BigEndian.PutUint16(h[4:], ec)
	binary.BigEndian.PutUint16(h[6:], rrc)
	binary.BigEndian.PutUint64(h[8:], seq)
	return h
}

func cat(a, b []byte) []byte {
	out := make([]byte, 0, len(a)+len(b))
	out = append(out, a...)
	return append(out, b...)
}

// MICChecksum is SGN_CKSUM: checksum over payload followed by the token header (4.2.4).
func MICChecksum(et int32, key []byte, usage uint32, flags byte, seq uint64, payload []byte) ([]byte, error) {
	return kcrypto.Checksum(et, key, usage, cat(payload, MICHeader(flags, seq)))
}

// WrapChecksum is the checksum of a Wrap token without confidentiality: over the payload followed
// by the header in which EC and RRC are filled with zeroes (4.2.4).
func WrapChecksum(et int32, key []byte, usage uint32, flags byte, seq uint64, payload []byte) ([]byte, error) {
	return kcrypto.Checksum(et, key, usage, cat(payload, WrapHeader(flags, 0, 0, seq)))
}

// BuildMIC returns the MIC token for the payload.
func BuildMIC(et int32, key []byte, usage uint32, flags byte, seq uint64, payload []byte) ([]byte, error) {
	ck, err := MICChecksum(et, key, usage, flags, seq, payload)
	if err != nil {
		return nil, err
	}
	return cat(MICHeader(flags, seq), ck), nil
}

// BuildWrap returns the Wrap token without confidentiality for the payload with RRC = 0.
func BuildWrap(et int32, key []byte, usage uint32, flags byte, seq uint64, payload []byte) ([]byte, error) {
	return BuildWrapRRC(et, key, usage, flags, seq, payload, 0)
}

// BuildWrapRRC is BuildWrap with a right rotation of rrc octets applied to payload || checksum.
func BuildWrapRRC(et int32, key []byte, usage uint32, flags byte, seq uint64, payload []byte, rrc uint16) ([]byte, error) {
	ck, err := WrapChecksum(et, key, usage, flags, seq, payload)
	if err != nil {
		return nil, err
	}
	if len(ck) > 0xFFFF {
		return nil, errors.New("gss: checksum too long for EC")
	}
	body := rotate(cat(payload, ck), int(rrc))
	return cat(WrapHeader(flags, uint16(len(ck)), rrc, seq), body), nil
}

// rotate rotates right by n octets (n may exceed the length; 4.2.5: "RRC mod length").
func rotate(b []byte, n int) []byte {
	out := make([]byte, len(b))
	if len(b) == 0 {
		return out
	}
	n %= len(b)
	for i := range b {
		out[(i+n)%len(b)] = b[i]
	}
	return out
}

func unrotate(b []byte, n int) []byte {
	if len(b) == 0 {
		return []byte{}
	}
	return rotate(b, len(b)-n%len(b))
}

// DecodeMIC checks the fixed parts of a MIC token for the expected sender and returns its fields.
func DecodeMIC(b []byte, expectFromAcceptor bool) (*MIC, error) {
	if len(b) < HdrLen {
		return nil, ErrShort
	}
	if b[0] != 0x04 || b[1] != 0x04 {
		return nil, ErrTokID
	}
	if (b[2]&FlagSentByAcceptor != 0) != expectFromAcceptor {
		return nil, ErrDirection
	}
	for _, f := range b[3:8] {
		if f != 0xFF {
			return nil, ErrFiller
		}
	}
	return &MIC{Flags: b[2], Seq: binary.BigEndian.Uint64(b[8:16]), Checksum: append([]byte{}, b[16:]...)}, nil
}

// DecodeWrap checks the fixed parts of a Wrap token for the expected sender, undoes the rotation
// and splits the data into payload and the EC trailing checksum octets.
func DecodeWrap(b []byte, expectFromAcceptor bool) (*Wrap, error) {
	if len(b) < HdrLen {
		return nil, ErrShort
	}
	if b[0] != 0x05 || b[1] != 0x04 {
		return nil, ErrTokID
	}
	if (b[2]&FlagSentByAcceptor != 0) != expectFromAcceptor {
		return nil, ErrDirection
	}
	if b[3] != 0xFF {
		return nil, ErrFiller
	}
	w := &Wrap{Flags: b[2], EC: binary.BigEndian.Uint16(b[4:6]), RRC: binary.BigEndian.Uint16(b[6:8]), Seq: binary.BigEndian.Uint64(b[8:16])}
	body := b[HdrLen:]
	if int(w.EC) > len(body) {
		return nil, ErrEC
	}
	body = unrotate(body, int(w.RRC))
	w.Payload = append([]byte{}, body[:len(body)-int(w.EC)]...)
	w.Checksum = append([]byte{}, body[len(body)-int(w.EC):]...)
	return w, nil
}

// VerifyMIC recomputes the checksum from the presented payload, the decoded header fields, key
// and usage and compares all octets.
func VerifyMIC(et int32, key []byte, usage uint32, m *MIC, payload []byte) bool {
	want, err := MICChecksum(et, key, usage, m.Flags, m.Seq, payload)
	return err == nil && len(want) > 0 && bytes.Equal(want, m.Checksum)
}

// VerifyWrap recomputes the checksum from the decoded payload and header fields, key and usage
// and compares all octets (so EC must equal the checksum length of the key's etype).
func VerifyWrap(et int32, key []byte, usage uint32, w *Wrap) bool {
	want, err := WrapChecksum(et, key, usage, w.Flags, w.Seq, w.Payload)
	return err == nil && len(want) > 0 && int(w.EC) == len(want) && bytes.Equal(want, w.Checksum)
}

// AcceptMIC is the whole receiver: decode for the expected sender, then verify.
func AcceptMIC(et int32, key []byte, usage uint32, b []byte, expectFromAcceptor bool, payload []byte) (bool, error) {
	m, err := DecodeMIC(b, expectFromAcceptor)
	if err != nil {
		return false, err
	}
	return VerifyMIC(et, key, usage, m, payload), nil
}

// AcceptWrap is the whole receiver for Wrap tokens.
func AcceptWrap(et int32, key []byte, usage uint32, b []byte, expectFromAcceptor bool) (bool, error) {
	w, err := DecodeWrap(b, expectFromAcceptor)
	if err != nil {
		return false, err
	}
	return VerifyWrap(et, key, usage, w), nil
}

func hx(s string) []byte {
	b, err := hex.DecodeString(s)
	if err != nil {
		panic(err)
	}
	return b
}

// SelfTest checks the reference against a hand-assembled token for every etype, against a token
// of an LDAP SASL/GSSAPI security-layer negotiation sent by a directory server (aes128, acceptor,
// usage 22; the octets are published in gokrb5's test-suite, the producer was not gokrb5) and
// its own round trips. A failure means the oracle is broken, never that a property is violated.
func SelfTest() error {
	if err := kcrypto.SelfTest(); err != nil {
		return err
	}
	// captured acceptor Wrap token
	capKey := hx("14f9bde6b50ec508201a97f74c4e5bd3")
	capTok := hx("050401ff000c000000000000575e85d601010000853b728d5268525a1386c19f")
	w, err := DecodeWrap(capTok, true)
	if err != nil {
		return fmt.Errorf("gss selftest: captured token not decoded: %v", err)
	}
	if w.Flags != 1 || w.EC != 12 || w.RRC != 0 || w.Seq != 0x575e85d6 || !bytes.Equal(w.Payload, []byte{1, 1, 0, 0}) || len(w.Checksum) != 12 {
		return fmt.Errorf("gss selftest: captured token fields %+v", w)
	}
	if !VerifyWrap(kcrypto.AES128, capKey, UsageAcceptorSeal, w) {
		return errors.New("gss selftest: captured token does not verify with usage 22")
	}
	for _, u := range []uint32{23, 24, 25} {
		if VerifyWrap(kcrypto.AES128, capKey, u, w) {
			return fmt.Errorf("gss selftest: captured token verifies with usage %d", u)
		}
	}
	if _, err := DecodeWrap(capTok, false); err != ErrDirection {
		return fmt.Errorf("gss selftest: direction check: %v", err)
	}
	if got, err := BuildWrap(kcrypto.AES128, capKey, UsageAcceptorSeal, 1, 0x575e85d6, []byte{1, 1, 0, 0}); err != nil || !bytes.Equal(got, capTok) {
		return fmt.Errorf("gss selftest: rebuilt captured token = %x (%v)", got, err)
	}
	// hand-assembled tokens for every etype
	for _, et := range kcrypto.Etypes {
		key := kcrypto.RandomToKey(et, bytes.Repeat([]byte{0x5A, 0x21, 0x0C}, 11)[:kcrypto.SeedLen(et)])
		payload := []byte("reference payload")
		seq := uint64(0x0102030405060708)
		// MIC
		hdr := []byte{0x04, 0x04, 0x05, 0xFF, 0xFF, 0xFF, 0xFF, 0xFF, 1, 2, 3, 4, 5, 6, 7, 8}
		ck, err := kcrypto.Checksum(et, key, 23, append(append([]byte{}, payload...), hdr...))
		if err != nil {
			return err
		}
		if len(ck) != kcrypto.CksumLen(et) {
			return fmt.Errorf("gss selftest: etype %d checksum length %d", et, len(ck))
		}
		want := append(append([]byte{}, hdr...), ck...)
		got, err := BuildMIC(et, key, 23, 0x05, seq, payload)
		if err != nil || !bytes.Equal(got, want) {
			return fmt.Errorf("gss selftest: etype %d MIC = %x (%v) want %x", et, got, err, want)
		}
		if ok, err := AcceptMIC(et, key, 23, got, true, payload); !ok || err != nil {
			return fmt.Errorf("gss selftest: etype %d own MIC not accepted: %v", et, err)
		}
		if ok, _ := AcceptMIC(et, key, 23, got, true, payload[1:]); ok {
			return fmt.Errorf("gss selftest: etype %d MIC accepted for another payload", et)
		}
		if ok, _ := AcceptMIC(et, key, 25, got, true, payload); ok {
			return fmt.Errorf("gss selftest: etype %d MIC accepted for another usage", et)
		}
		if ok, _ := AcceptMIC(et, key, 23, got[:len(got)-1], true, payload); ok {
			return fmt.Errorf("gss selftest: etype %d truncated MIC accepted", et)
		}
		// Wrap
		cl := kcrypto.CksumLen(et)
		zhdr := []byte{0x05, 0x04, 0x04, 0xFF, 0, 0, 0, 0, 1, 2, 3, 4, 5, 6, 7, 8}
		wck, err := kcrypto.Checksum(et, key, 24, append(append([]byte{}, payload...), zhdr...))
		if err != nil {
			return err
		}
		whdr := []byte{0x05, 0x04, 0x04, 0xFF, 0, byte(cl), 0, 0, 1, 2, 3, 4, 5, 6, 7, 8}
		wwant := append(append(append([]byte{}, whdr...), payload...), wck...)
		wgot, err := BuildWrap(et, key, 24, 0x04, seq, payload)
		if err != nil || !bytes.Equal(wgot, wwant) {
			return fmt.Errorf("gss selftest: etype %d Wrap = %x (%v) want %x", et, wgot, err, wwant)
		}
		d, err := DecodeWrap(wgot, false)
		if err != nil || d.Flags != 4 || int(d.EC) != cl || d.RRC != 0 || d.Seq != seq || !bytes.Equal(d.Payload, payload) || !bytes.Equal(d.Checksum, wck) {
			return fmt.Errorf("gss selftest: etype %d Wrap decode %+v (%v)", et, d, err)
		}
		if !VerifyWrap(et, key, 24, d) || VerifyWrap(et, key, 22, d) {
			return fmt.Errorf("gss selftest: etype %d Wrap verify", et)
		}
		// rotation: a rotated token decodes to the same fields; RRC equal to a multiple of the
		// data length is the identity
		for _, rrc := range []uint16{1, uint16(cl), uint16(len(payload) + cl), 1000} {
			rt, err := BuildWrapRRC(et, key, 24, 0x04, seq, payload, rrc)
			if err != nil {
				return err
			}
			rd, err := DecodeWrap(rt, false)
			if err != nil || !bytes.Equal(rd.Payload, payload) || !VerifyWrap(et, key, 24, rd) {
				return fmt.Errorf("gss selftest: etype %d rotated (rrc %d) token not accepted: %v", et, rrc, err)
			}
		}
		rt, _ := BuildWrapRRC(et, key, 24, 0x04, seq, payload, uint16(cl))
		if !bytes.Equal(rt[16:16+cl], wck) || !bytes.Equal(rt[16+cl:], payload) {
			return fmt.Errorf("gss selftest: etype %d rotation by the checksum length must put the checksum first", et)
		}
		// every single bit flip outside RRC makes the own receiver reject
		for i := 0; i < len(wgot)*8; i++ {
			if i/8 == 6 || i/8 == 7 {
				continue
			}
			c := append([]byte{}, wgot...)
			c[i/8] ^= 0x80 >> uint(i%8)
			if ok, _ := AcceptWrap(et, key, 24, c, false); ok {
				return fmt.Errorf("gss selftest: etype %d Wrap with bit %d flipped accepted", et, i)
			}
		}
	}
	return nil
}
