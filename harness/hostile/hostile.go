// Package hostile is the sanitizer-style workload machinery of property C04 ("no input makes a
// decoder or verifier panic, hang or allocate without bound"): deterministic mutation generators
// over a corpus of valid inputs, an allocation meter, a per-call hang watchdog, a panic guard
// that names the innermost github.com/jcmturner frame, and the address-space limit of the child.
//
// Nothing in here knows gokrb5; the property package supplies the entry points and the corpus.
package hostile

import (
	"encoding/binary"
	"encoding/hex"
	"fmt"
	"os"
	"regexp"
	"runtime"
	"runtime/debug"
	"runtime/metrics"
	"sort"
	"strings"
	"sync/atomic"
	"syscall"
	"time"

	"verif/vh"
)

// ---------------------------------------------------------------------------------------
// PRNG: splitmix64 seeded by a plain integer (cheap to create per case).

// Rng is a splitmix64 stream.
type Rng struct{ s uint64 }

// NewRng returns a stream for seed.
func NewRng(seed uint64) *Rng { return &Rng{s: seed} }

// U64 returns the next value.
func (r *Rng) U64() uint64 {
	r.s += 0x9E3779B97F4A7C15
	z := r.s
	z = (z ^ (z >> 30)) * 0xBF58476D1CE4E5B9
	z = (z ^ (z >> 27)) * 0x94D049BB133111EB
	return z ^ (z >> 31)
}

// Intn returns a value in [0,n).
func (r *Rng) Intn(n int) int {
	if n <= 0 {
		return 0
	}
	return int(r.U64() % uint64(n))
}

// Mix combines two words into a seed.
func Mix(a, b uint64) uint64 {
	x := a ^ (b+0x9E3779B97F4A7C15)*0xBF58476D1CE4E5B9
	x ^= x >> 29
	x *= 0x94D049BB133111EB
	return x ^ (x >> 32)
}

// ---------------------------------------------------------------------------------------
// Mutation classes

// Kind is the syntax family of a corpus item; it selects the structure-aware classes.
type Kind int

// Kinds.
const (
	DER    Kind = iota // ASN.1 DER (Kerberos, SPNEGO)
	Binary             // fixed-layout binary with count/length fields (keytab, ccache, PAC, NDR, GSS tokens, kpasswd)
	Text               // line oriented text (krb5.conf, HTTP header values)
)

// Config steers the generators.
type Config struct {
	Thorough bool
	Seed     uint64   // stream for position sampling and havoc (derive it from VERIF_SEED, entry and item)
	Havoc    int      // number of havoc cases
	QuickCap int      // quick tier: at most this many cases per position-indexed class (positions are sampled); 0 = all
	Lines    []string // Text: hostile lines inserted at every line position
}

// Class is one deterministic mutation class of one corpus item: N cases, the n-th built on
// demand. Build returns nil when the case would equal the original or an earlier case.
type Class struct {
	Name  string
	N     int
	Build func(n int) []byte
}

func clone(b []byte) []byte { return append(make([]byte, 0, len(b)+8), b...) }

// QuickVals are the 8 substitution values of the quick tier for original byte b.
func QuickVals(b byte) [8]byte {
	return [8]byte{0x00, 0xFF, b ^ 0x80, b ^ 0x01, b + 1, b - 1, 0x30, 0x80}
}

// positions returns all n positions, or (quick tier with a cap) the first 48 plus a seeded sample.
func positions(n, max int, seed uint64) []int {
	if max <= 0 || n <= max {
		p := make([]int, n)
		for i := range p {
			p[i] = i
		}
		return p
	}
	head := 48
	if head > max {
		head = max
	}
	p := make([]int, 0, max)
	for i := 0; i < head; i++ {
		p = append(p, i)
	}
	rest := make([]int, n-head)
	for i := range rest {
		rest[i] = head + i
	}
	r := NewRng(seed)
	for i := 0; i < max-head && i < len(rest); i++ {
		j := i + r.Intn(len(rest)-i)
		rest[i], rest[j] = rest[j], rest[i]
		p = append(p, rest[i])
	}
	sort.Ints(p)
	return p
}

// Prefixes is the class of all proper prefixes (lengths 0..len-1).
func Prefixes(base []byte) Class {
	return Class{Name: "prefix", N: len(base), Build: func(n int) []byte { return clone(base[:n]) }}
}

// Substitutions is the class of single-byte substitutions: quick 8 values per position,
// thorough all 255 other values.
func Substitutions(base []byte, c Config) Class {
	if c.Thorough {
		return Class{Name: "subst", N: len(base) * 255, Build: func(n int) []byte {
			pos, vi := n/255, n%255
			v := byte(vi)
			if v >= base[pos] {
				v++
			}
			m := clone(base)
			m[pos] = v
			return m
		}}
	}
	per := 0
	if c.QuickCap > 0 {
		per = c.QuickCap / 8
	}
	ps := positions(len(base), per, Mix(c.Seed, 1))
	return Class{Name: "subst", N: len(ps) * 8, Build: func(n int) []byte {
		pos, vi := ps[n/8], n%8
		vs := QuickVals(base[pos])
		v := vs[vi]
		if v == base[pos] {
			return nil
		}
		for k := 0; k < vi; k++ {
			if vs[k] == v {
				return nil
			}
		}
		m := clone(base)
		m[pos] = v
		return m
	}}
}

// ---- DER structure

type node struct {
	start, end     int // whole TLV
	tagLen         int
	lenOff, lenLen int
	cStart         int // first content octet
	encap          int // 1: BIT STRING whose content after the unused-bits octet is DER; 0 otherwise
	kids           []*node
}

func parseSeq(b []byte, off, end, depth int) ([]*node, bool) {
	var out []*node
	for off < end {
		n, ok := parseOne(b, off, end, depth)
		if !ok {
			return nil, false
		}
		out = append(out, n)
		off = n.end
	}
	return out, true
}

func parseOne(b []byte, off, end, depth int) (*node, bool) {
	if depth > 40 || off+2 > end {
		return nil, false
	}
	n := &node{start: off}
	first := b[off]
	p := off + 1
	if first&0x1f == 0x1f {
		k := 0
		for {
			if p >= end || k > 4 {
				return nil, false
			}
			c := b[p]
			p++
			k++
			if c&0x80 == 0 {
				break
			}
		}
	}
	n.tagLen = p - off
	if p >= end {
		return nil, false
	}
	n.lenOff = p
	l := int(b[p])
	p++
	if l >= 0x80 {
		k := l & 0x7f
		if k == 0 || k > 4 || p+k > end {
			return nil, false
		}
		l = 0
		for i := 0; i < k; i++ {
			l = l<<8 | int(b[p+i])
		}
		p += k
	}
	n.lenLen = p - n.lenOff
	n.cStart = p
	if l < 0 || p+l > end {
		return nil, false
	}
	n.end = p + l
	if first&0x20 != 0 {
		if kids, ok := parseSeq(b, p, n.end, depth+1); ok {
			n.kids = kids
		}
	} else if first == 0x04 && l >= 2 {
		if kids, ok := parseSeq(b, p, n.end, depth+1); ok {
			n.kids = kids
		}
	} else if first == 0x03 && l >= 3 && b[p] == 0 {
		if kids, ok := parseSeq(b, p+1, n.end, depth+1); ok {
			n.kids = kids
			n.encap = 1
		}
	}
	return n, true
}

func flatten(ns []*node, out []*node) []*node {
	for _, n := range ns {
		out = append(out, n)
		out = flatten(n.kids, out)
	}
	return out
}

// DERLen encodes a definite length minimally.
func DERLen(n int) []byte {
	switch {
	case n < 0x80:
		return []byte{byte(n)}
	case n < 0x100:
		return []byte{0x81, byte(n)}
	case n < 0x10000:
		return []byte{0x82, byte(n >> 8), byte(n)}
	case n < 0x1000000:
		return []byte{0x83, byte(n >> 16), byte(n >> 8), byte(n)}
	}
	return []byte{0x84, byte(n >> 24), byte(n >> 16), byte(n >> 8), byte(n)}
}

// HostileLens are the replacement length octets for a TLV with content length l.
func HostileLens(l int) [][]byte {
	out := [][]byte{
		{0x00}, {0x01}, {0x7F}, {0x80}, {0x81, 0xFF}, {0x84, 0xFF, 0xFF, 0xFF, 0xFF},
		DERLen(l + 1),
	}
	if l > 0 {
		out = append(out, DERLen(l-1))
	} else {
		out = append(out, []byte{0x02})
	}
	out = append(out,
		[]byte{0x82, 0x80, 0x00},                                     // 2^15
		[]byte{0x84, 0x7F, 0xFF, 0xFF, 0xFF},                         // 2^31-1
		[]byte{0x85, 0x01, 0x00, 0x00, 0x00, 0x00},                   // 2^32
		[]byte{0x88, 0x7F, 0xFF, 0xFF, 0xFF, 0xFF, 0xFF, 0xFF, 0xFF}, // 2^63-1
		[]byte{0xFF}, // reserved form
		append([]byte{0x84}, byte(l>>24), byte(l>>16), byte(l>>8), byte(l)), // non-minimal, same value
	)
	return out
}

type derTree struct {
	b     []byte
	roots []*node
	all   []*node
}

func newDERTree(b []byte) *derTree {
	t := &derTree{b: b}
	// tolerate trailing garbage: parse as many leading TLVs as possible
	off := 0
	for off < len(b) {
		n, ok := parseOne(b, off, len(b), 0)
		if !ok {
			break
		}
		t.roots = append(t.roots, n)
		off = n.end
	}
	t.all = flatten(t.roots, nil)
	return t
}

// render rebuilds the input with op applied to tgt and the lengths of all its ancestors recomputed.
func (t *derTree) render(tgt *node, op func(n *node) []byte) []byte {
	var out []byte
	last := 0
	for _, r := range t.roots {
		out = append(out, t.renderNode(r, tgt, op)...)
		last = r.end
	}
	return append(out, t.b[last:]...)
}

func (t *derTree) renderNode(n, tgt *node, op func(n *node) []byte) []byte {
	if n == tgt {
		return op(n)
	}
	if len(n.kids) > 0 && tgt.start >= n.start && tgt.end <= n.end {
		var content []byte
		if n.encap == 1 {
			content = append(content, t.b[n.cStart])
		}
		for _, k := range n.kids {
			content = append(content, t.renderNode(k, tgt, op)...)
		}
		out := append([]byte{}, t.b[n.start:n.start+n.tagLen]...)
		out = append(out, DERLen(len(content))...)
		return append(out, content...)
	}
	return t.b[n.start:n.end]
}

// DERLengths is the class replacing the length octets of every TLV (including TLVs found inside
// OCTET STRING / BIT STRING contents) by each hostile value, once as a raw splice and once with
// the enclosing lengths recomputed so that only the inner length lies.
func DERLengths(base []byte) Class {
	t := newDERTree(base)
	nl := len(HostileLens(0))
	return Class{Name: "derlen", N: len(t.all) * nl * 2, Build: func(n int) []byte {
		nd := t.all[n/(nl*2)]
		k := n % (nl * 2)
		hl := HostileLens(nd.end - nd.cStart)[k/2]
		if k%2 == 0 {
			m := make([]byte, 0, len(base)+8)
			m = append(m, base[:nd.lenOff]...)
			m = append(m, hl...)
			m = append(m, base[nd.lenOff+nd.lenLen:]...)
			return m
		}
		return t.render(nd, func(x *node) []byte {
			o := append([]byte{}, base[x.start:x.start+x.tagLen]...)
			o = append(o, hl...)
			return append(o, base[x.cStart:x.end]...)
		})
	}}
}

// DERTreeOps names the structural operations of DERElements.
var DERTreeOps = []string{"delete", "dup", "empty", "onebyte", "dup8", "zero", "delete-kids-but-first", "delete-first-kid"}

// DERElements is the class of element deletion / duplication / emptying on the TLV tree, with
// enclosing lengths recomputed (this is what produces well-formed messages with empty SEQUENCE OF,
// missing fields and short bit strings).
func DERElements(base []byte) Class {
	t := newDERTree(base)
	no := len(DERTreeOps)
	return Class{Name: "derelem", N: len(t.all) * no, Build: func(n int) []byte {
		nd := t.all[n/no]
		op := n % no
		hdr := func(x *node, content []byte) []byte {
			o := append([]byte{}, base[x.start:x.start+x.tagLen]...)
			o = append(o, DERLen(len(content))...)
			return append(o, content...)
		}
		raw := func(x *node) []byte { return base[x.start:x.end] }
		switch op {
		case 0:
			return t.render(nd, func(x *node) []byte { return nil })
		case 1:
			return t.render(nd, func(x *node) []byte { return append(clone(raw(x)), raw(x)...) })
		case 2:
			if nd.end == nd.cStart {
				return nil
			}
			return t.render(nd, func(x *node) []byte { return hdr(x, nil) })
		case 3:
			if nd.end-nd.cStart < 2 {
				return nil
			}
			return t.render(nd, func(x *node) []byte { return hdr(x, base[x.cStart:x.cStart+1]) })
		case 4:
			return t.render(nd, func(x *node) []byte {
				var o []byte
				for i := 0; i < 8; i++ {
					o = append(o, raw(x)...)
				}
				return o
			})
		case 5:
			if nd.end == nd.cStart || len(nd.kids) > 0 {
				return nil
			}
			return t.render(nd, func(x *node) []byte { return hdr(x, make([]byte, x.end-x.cStart)) })
		case 6:
			if len(nd.kids) < 2 {
				return nil
			}
			return t.render(nd, func(x *node) []byte {
				var c []byte
				if x.encap == 1 {
					c = append(c, base[x.cStart])
				}
				return hdr(x, append(c, raw(x.kids[0])...))
			})
		case 7:
			if len(nd.kids) < 2 {
				return nil
			}
			return t.render(nd, func(x *node) []byte {
				var c []byte
				if x.encap == 1 {
					c = append(c, base[x.cStart])
				}
				for _, k := range x.kids[1:] {
					c = append(c, raw(k)...)
				}
				return hdr(x, c)
			})
		}
		return nil
	}}
}

// ---- binary count / length fields

type binCombo struct {
	w  int
	le bool
	vi int
}

var binVals = map[int][]uint64{
	2: {0, 1, 0x7F, 0x80, 0xFF, 0x100, 0x7FFF, 0x8000, 0xFFFF},
	4: {0, 1, 0x7F, 0x80, 0xFF, 0x7FFF, 0x8000, 0xFFFF, 0x10000, 0x100000, 0x1000000, 0x7FFFFFFF, 0x80000000, 0xFFFFFFFF},
	8: {0, 0xFFFFFFFF, 0x100000000, 0x7FFFFFFFFFFFFFFF, 0x8000000000000000, 0xFFFFFFFFFFFFFFFF},
}

// number of extra, original-relative values (orig+1, orig-1, len(input), len(input)+1)
const binRel = 4

var binCombos = func() []binCombo {
	var out []binCombo
	for _, w := range []int{2, 4, 8} {
		for _, le := range []bool{false, true} {
			for vi := 0; vi < len(binVals[w])+binRel; vi++ {
				out = append(out, binCombo{w, le, vi})
			}
		}
	}
	return out
}()

// BinaryFields is the class that treats every offset as a potential 2-, 4- or 8-byte count,
// length or offset field in either byte order and stores the hostile values
// {0,1,0x7F,0x80,0xFF,2^15-1,2^15,2^16-1,2^20,2^24,2^31-1,2^31,2^32-1,...,orig+1,orig-1,len,len+1}.
func BinaryFields(base []byte, c Config) Class {
	nc := len(binCombos)
	per := 0
	if !c.Thorough && c.QuickCap > 0 {
		per = c.QuickCap * 3 / nc
		if per < 64 {
			per = 64
		}
	}
	ps := positions(len(base), per, Mix(c.Seed, 2))
	return Class{Name: "binfield", N: len(ps) * nc, Build: func(n int) []byte {
		pos, cb := ps[n/nc], binCombos[n%nc]
		if pos+cb.w > len(base) {
			return nil
		}
		var orig uint64
		f := base[pos : pos+cb.w]
		switch {
		case cb.w == 2 && cb.le:
			orig = uint64(binary.LittleEndian.Uint16(f))
		case cb.w == 2:
			orig = uint64(binary.BigEndian.Uint16(f))
		case cb.w == 4 && cb.le:
			orig = uint64(binary.LittleEndian.Uint32(f))
		case cb.w == 4:
			orig = uint64(binary.BigEndian.Uint32(f))
		case cb.le:
			orig = binary.LittleEndian.Uint64(f)
		default:
			orig = binary.BigEndian.Uint64(f)
		}
		vs := binVals[cb.w]
		var v uint64
		switch d := cb.vi - len(vs); {
		case d < 0:
			v = vs[cb.vi]
		case d == 0:
			v = orig + 1
		case d == 1:
			v = orig - 1
		case d == 2:
			v = uint64(len(base))
		default:
			v = uint64(len(base)) + 1
		}
		if cb.w < 8 {
			v &= 1<<(8*uint(cb.w)) - 1
		}
		if v == orig {
			return nil
		}
		m := clone(base)
		g := m[pos : pos+cb.w]
		switch {
		case cb.w == 2 && cb.le:
			binary.LittleEndian.PutUint16(g, uint16(v))
		case cb.w == 2:
			binary.BigEndian.PutUint16(g, uint16(v))
		case cb.w == 4 && cb.le:
			binary.LittleEndian.PutUint32(g, uint32(v))
		case cb.w == 4:
			binary.BigEndian.PutUint32(g, uint32(v))
		case cb.le:
			binary.LittleEndian.PutUint64(g, v)
		default:
			binary.BigEndian.PutUint64(g, v)
		}
		return m
	}}
}

var chunkLens = []int{1, 2, 4, 8, 16, 32}

func gcd(a, b uint64) uint64 {
	for b != 0 {
		a, b = b, a%b
	}
	return a
}

// RelativeFields is the class for length, count and offset fields that are interpreted relative to a position in the
// input. A field is taken to be every 2- or 4-byte window, in either byte order, whose signed value is non-zero and no
// larger in magnitude than the input (real length fields and small integers qualify; key material and timestamps do not).
// Each such field is given every signed value that makes it point at another offset of the input: from "back to the
// start" (-(pos+width)) to "just beyond the end" (len-pos+8). This reaches the values that the fixed hostile list does
// not: a negative length that leads a parser back to a record it has already read, a length that ends exactly on
// another record's boundary, an offset one short of the end. The quick tier samples the space uniformly (cap cases).
func RelativeFields(base []byte, c Config, cap int) Class {
	type field struct {
		pos, w int
		le     bool
		orig   int64
	}
	var fs []field
	for pos := 0; pos < len(base); pos++ {
		for _, w := range []int{2, 4} {
			if pos+w > len(base) {
				continue
			}
			for _, le := range []bool{false, true} {
				var v int64
				switch {
				case w == 2 && le:
					v = int64(int16(binary.LittleEndian.Uint16(base[pos:])))
				case w == 2:
					v = int64(int16(binary.BigEndian.Uint16(base[pos:])))
				case le:
					v = int64(int32(binary.LittleEndian.Uint32(base[pos:])))
				default:
					v = int64(int32(binary.BigEndian.Uint32(base[pos:])))
				}
				if v == 0 || v > int64(len(base))+8 || -v > int64(len(base))+8 {
					continue
				}
				fs = append(fs, field{pos, w, le, v})
			}
		}
	}
	span := len(base) + 8 + 8 + 1 // values -span..span-1; a common span for all fields keeps the indexing simple
	n := len(fs) * 2 * span
	stride := 1
	if cap > 0 && n > cap {
		stride = (n + cap - 1) / cap
	}
	off := 0
	if stride > 1 {
		off = int(Mix(c.Seed, 7) % uint64(stride))
	}
	cnt := 0
	if n > 0 {
		cnt = (n - off + stride - 1) / stride
	}
	mult := uint64(40503) // n < 2^40 here, so idx*mult stays below 2^64
	for n > 0 && gcd(mult, uint64(n)) != 1 {
		mult += 2
	}
	return Class{Name: "relfield", N: cnt, Build: func(k int) []byte {
		idx := off + k*stride
		if stride > 1 {
			// decorrelate the sample from the field order (a bijection on [0,n): the multiplier is coprime with n)
			idx = int((uint64(idx)%uint64(n)*mult + Mix(c.Seed, 8)%uint64(n)) % uint64(n))
		}
		f := fs[idx/(2*span)]
		r := idx % (2 * span)
		v := int64(r - span) // -span .. span-1
		if v < -int64(f.pos+f.w) || v > int64(len(base)-f.pos+8) || v == f.orig {
			return nil
		}
		m := clone(base)
		g := m[f.pos : f.pos+f.w]
		switch {
		case f.w == 2 && f.le:
			binary.LittleEndian.PutUint16(g, uint16(v))
		case f.w == 2:
			binary.BigEndian.PutUint16(g, uint16(v))
		case f.le:
			binary.LittleEndian.PutUint32(g, uint32(v))
		default:
			binary.BigEndian.PutUint32(g, uint32(v))
		}
		return m
	}}
}

// Chunks is the class of element deletion / duplication for formats without self-describing
// elements: at every offset a run of 1,2,4,8,16,32 bytes is deleted or duplicated.
func Chunks(base []byte, c Config) Class {
	nc := len(chunkLens) * 2
	per := 0
	if !c.Thorough && c.QuickCap > 0 {
		per = c.QuickCap / nc
		if per < 64 {
			per = 64
		}
	}
	ps := positions(len(base), per, Mix(c.Seed, 3))
	return Class{Name: "chunk", N: len(ps) * nc, Build: func(n int) []byte {
		pos, k := ps[n/nc], n%nc
		l := chunkLens[k/2]
		if pos+l > len(base) {
			return nil
		}
		m := make([]byte, 0, len(base)+l)
		m = append(m, base[:pos]...)
		if k%2 == 1 {
			m = append(m, base[pos:pos+l]...)
			m = append(m, base[pos:pos+l]...)
		}
		return append(m, base[pos+l:]...)
	}}
}

// Lines is the class of line-level mutations of a text input: delete, duplicate, and insertion
// of each hostile line at each line position.
func Lines(base []byte, c Config) Class {
	ls := strings.SplitAfter(string(base), "\n")
	per := 2 + len(c.Lines)
	return Class{Name: "line", N: (len(ls) + 1) * per, Build: func(n int) []byte {
		i, op := n/per, n%per
		var sb strings.Builder
		switch {
		case op == 0:
			if i >= len(ls) {
				return nil
			}
			for j, l := range ls {
				if j != i {
					sb.WriteString(l)
				}
			}
		case op == 1:
			if i >= len(ls) {
				return nil
			}
			for j, l := range ls {
				sb.WriteString(l)
				if j == i {
					if !strings.HasSuffix(l, "\n") {
						sb.WriteString("\n")
					}
					sb.WriteString(l)
				}
			}
		default:
			for j, l := range ls {
				if j == i {
					sb.WriteString(c.Lines[op-2])
					sb.WriteString("\n")
				}
				sb.WriteString(l)
			}
			if i >= len(ls) {
				if len(ls) > 0 && !strings.HasSuffix(ls[len(ls)-1], "\n") {
					sb.WriteString("\n")
				}
				sb.WriteString(c.Lines[op-2])
			}
		}
		return []byte(sb.String())
	}}
}

var interesting8 = []byte{0x00, 0x01, 0x7F, 0x80, 0xFF, 0x30, 0x04, 0x03, 0x02, 0xA0, 0xA1, 0x60, 0x81, 0x82, 0x84, '{', '}', '=', '\n', ':', '\\', '@', ' '}
var interesting32 = []uint32{0, 1, 0x7F, 0x80, 0xFF, 0x100, 0x7FFF, 0x8000, 0xFFFF, 0x10000, 0x100000, 0x1000000, 0x7FFFFFFF, 0x80000000, 0xFFFFFFFF}

// Havoc is the seeded multi-point class: case n applies 1..8 stacked random operations (bit
// flips, interesting bytes and integers in both byte orders, insertions, deletions,
// duplications, block copies, truncation).
func Havoc(base []byte, c Config) Class {
	return Class{Name: "havoc", N: c.Havoc, Build: func(n int) []byte {
		r := NewRng(Mix(c.Seed, uint64(n)+77))
		m := clone(base)
		ops := 1 + r.Intn(8)
		for k := 0; k < ops; k++ {
			if len(m) == 0 {
				m = append(m, byte(r.U64()))
				continue
			}
			p := r.Intn(len(m))
			switch r.Intn(12) {
			case 0:
				m[p] ^= 1 << uint(r.Intn(8))
			case 1:
				m[p] = byte(r.U64())
			case 2:
				m[p] = interesting8[r.Intn(len(interesting8))]
			case 3:
				m[p] += byte(r.Intn(9)) - 4
			case 4: // 16-bit integer
				if p+2 <= len(m) {
					v := uint16(interesting32[r.Intn(len(interesting32))])
					if r.Intn(2) == 0 {
						binary.BigEndian.PutUint16(m[p:], v)
					} else {
						binary.LittleEndian.PutUint16(m[p:], v)
					}
				}
			case 5: // 32-bit integer
				if p+4 <= len(m) {
					v := interesting32[r.Intn(len(interesting32))]
					if r.Intn(2) == 0 {
						binary.BigEndian.PutUint32(m[p:], v)
					} else {
						binary.LittleEndian.PutUint32(m[p:], v)
					}
				}
			case 6: // insert 1..8 bytes
				l := 1 + r.Intn(8)
				ins := make([]byte, l)
				for i := range ins {
					if r.Intn(2) == 0 {
						ins[i] = byte(r.U64())
					} else {
						ins[i] = interesting8[r.Intn(len(interesting8))]
					}
				}
				m = append(m[:p], append(ins, m[p:]...)...)
			case 7: // delete a run
				l := 1 + r.Intn(16)
				if p+l > len(m) {
					l = len(m) - p
				}
				m = append(m[:p], m[p+l:]...)
			case 8: // duplicate a run in place
				l := 1 + r.Intn(32)
				if p+l > len(m) {
					l = len(m) - p
				}
				d := append([]byte{}, m[p:p+l]...)
				m = append(m[:p], append(d, m[p:]...)...)
			case 9: // copy a run over another place
				l := 1 + r.Intn(16)
				q := r.Intn(len(m))
				if p+l > len(m) {
					l = len(m) - p
				}
				if q+l > len(m) {
					l = len(m) - q
				}
				copy(m[q:q+l], append([]byte{}, m[p:p+l]...))
			case 10: // truncate
				if r.Intn(4) == 0 {
					m = m[:p]
				}
			case 11: // a run of one value
				l := 1 + r.Intn(8)
				v := interesting8[r.Intn(len(interesting8))]
				for i := p; i < p+l && i < len(m); i++ {
					m[i] = v
				}
			}
		}
		return m
	}}
}

// Classes returns the mutation classes applying to an item of the given kind.
func Classes(base []byte, kind Kind, c Config) []Class {
	out := []Class{Prefixes(base), Substitutions(base, c)}
	switch kind {
	case DER:
		out = append(out, DERLengths(base), DERElements(base))
	case Binary:
		out = append(out, BinaryFields(base, c), Chunks(base, c))
		rc := 0
		if !c.Thorough {
			rc = 5 * c.QuickCap
		} else {
			rc = 2000000
		}
		out = append(out, RelativeFields(base, c, rc))
	case Text:
		out = append(out, Lines(base, c), Chunks(base, c))
	}
	if c.Havoc > 0 {
		out = append(out, Havoc(base, c))
	}
	return out
}

// ---------------------------------------------------------------------------------------
// Allocation meter

// Bound is the allocation bound of the property for an input of n bytes.
func Bound(n int) uint64 { return 1<<20 + 1024*uint64(n) }

// Meter reads the cumulative heap allocation counter of the process.
type Meter struct{ s [1]metrics.Sample }

// NewMeter returns a meter on /gc/heap/allocs:bytes.
func NewMeter() *Meter {
	m := &Meter{}
	m.s[0].Name = "/gc/heap/allocs:bytes"
	metrics.Read(m.s[:])
	if m.s[0].Value.Kind() != metrics.KindUint64 {
		panic("hostile: /gc/heap/allocs:bytes is not available")
	}
	return m
}

// Read returns the cumulative number of bytes allocated on the heap.
func (m *Meter) Read() uint64 {
	metrics.Read(m.s[:])
	return m.s[0].Value.Uint64()
}

// Measure runs f on the calling goroutine and returns the bytes allocated meanwhile. The
// counter is process-wide: the caller must make sure no other goroutine does work. Small
// allocations are accounted when a per-P span is exchanged, so the reading can be off by a few
// span sizes (tens of KiB) in either direction; MeasureExact removes that error.
func (m *Meter) Measure(f func()) uint64 {
	a := m.Read()
	f()
	return m.Read() - a
}

// MeasureExact is Measure on runtime.ReadMemStats, which flushes the per-P caches first (and
// stops the world, so it is only used to confirm an exceedance).
func MeasureExact(f func()) uint64 {
	var a, b runtime.MemStats
	runtime.ReadMemStats(&a)
	f()
	runtime.ReadMemStats(&b)
	return b.TotalAlloc - a.TotalAlloc
}

// AllocSite runs f once more with every allocation profiled and names the function that is
// responsible for most of the bytes allocated meanwhile: the innermost function of a
// github.com/jcmturner package on the allocation stack with the largest byte count (the
// innermost non-runtime, non-reflect function if there is none). It is used only to attribute
// an exceedance that was already confirmed, so that the fingerprint of an unbounded allocation
// names the code that makes it and not only the entry point through which it was reached.
func AllocSite(f func()) (site string) {
	old := runtime.MemProfileRate
	runtime.MemProfileRate = 1
	before := memSnapshot()
	func() {
		defer func() { recover() }()
		f()
	}()
	after := memSnapshot()
	runtime.MemProfileRate = old
	type cand struct {
		k stackKey
		d int64
	}
	var cands []cand
	for k, v := range after {
		if d := v - before[k]; d > 0 {
			cands = append(cands, cand{k, d})
		}
	}
	sort.Slice(cands, func(i, j int) bool { return cands[i].d > cands[j].d })
	debug := os.Getenv("HOSTILE_ALLOC_DEBUG") != ""
	for i, c := range cands {
		n := 0
		for n < len(c.k) && c.k[n] != 0 {
			n++
		}
		frames := runtime.CallersFrames(c.k[:n])
		inner, fallback, own := "", "", false
		var all []string
		for {
			fr, more := frames.Next()
			fn := fr.Function
			all = append(all, fn)
			switch {
			case fn == "verif/hostile.memSnapshot":
				own = true // the snapshot's own record buffer: not part of the call
			case inner == "" && strings.HasPrefix(fn, "github.com/jcmturner/"):
				inner = fn
			case fallback == "" && fn != "" && !strings.HasPrefix(fn, "runtime.") && !strings.HasPrefix(fn, "reflect."):
				fallback = fn
			}
			if !more {
				break
			}
		}
		if debug && i < 5 {
			fmt.Fprintf(os.Stderr, "ALLOC %d bytes (own=%v): %s\n", c.d, own, strings.Join(all, " "))
		}
		if own {
			continue
		}
		if site == "" {
			switch {
			case inner != "":
				site = inner
			case fallback != "":
				site = fallback
			}
			if !debug && site != "" {
				return site
			}
		}
	}
	if site == "" {
		return "unattributed"
	}
	return site
}

type stackKey [32]uintptr

// memSnapshot returns the cumulative bytes allocated per allocation stack, as published after two collections.
func memSnapshot() map[stackKey]int64 {
	runtime.GC()
	runtime.GC()
	n, _ := runtime.MemProfile(nil, true)
	for {
		recs := make([]runtime.MemProfileRecord, n+64)
		m, ok := runtime.MemProfile(recs, true)
		if !ok {
			n = m
			continue
		}
		out := make(map[stackKey]int64, m)
		for _, r := range recs[:m] {
			out[stackKey(r.Stack0)] += r.AllocBytes
		}
		return out
	}
}

// ---------------------------------------------------------------------------------------
// Panic guard

// Outcome of one guarded, metered call.
type Outcome struct {
	Panicked bool
	Val      string // panic value
	Site     string // innermost github.com/jcmturner function on the panic stack (else innermost non-runtime function)
	Class    string // vh.PanicClass
	Stack    string // trimmed stack
	Alloc    uint64 // bytes allocated during the call
}

// JcmSite returns the innermost function of a github.com/jcmturner package below the panic call
// in a debug.Stack() dump taken inside a deferred recover; if there is none, vh.PanicSite.
func JcmSite(stack []byte) string {
	lines := strings.Split(string(stack), "\n")
	seenPanic := false
	for _, l := range lines {
		if strings.HasPrefix(l, "panic(") {
			seenPanic = true
			continue
		}
		if !seenPanic || strings.HasPrefix(l, "\t") || l == "" {
			continue
		}
		if strings.HasPrefix(l, "github.com/jcmturner/") {
			if j := strings.LastIndex(l, "("); j > 0 {
				l = l[:j]
			}
			return l
		}
	}
	return vh.PanicSite(stack)
}

// Guard runs f, converting a panic into an Outcome; the allocation of the call is metered.
func (m *Meter) Guard(f func()) (o Outcome) {
	a := m.Read()
	defer func() {
		if e := recover(); e != nil {
			st := debug.Stack()
			o.Panicked = true
			o.Val = fmt.Sprint(e)
			if len(o.Val) > 300 {
				o.Val = o.Val[:300]
			}
			o.Site = JcmSite(st)
			o.Class = vh.PanicClass(o.Val)
			s := string(st)
			if len(s) > 3000 {
				s = s[:3000]
			}
			o.Stack = s
		}
		o.Alloc = m.Read() - a
	}()
	f()
	return
}

// ---------------------------------------------------------------------------------------
// Hang watchdog

// HangExitCode is the exit status with which a child asks to be restarted after the current case.
const HangExitCode = 97

// Watchdog watches one call at a time. Begin/End are called by the measuring goroutine around
// each call; a separate goroutine (asleep except for a poll four times a second, allocating
// nothing) fires when the same call is still running after the budget. The watchdog goroutine
// does all the time keeping itself, on the real clock, so that the measuring goroutine may run
// inside a testing/synctest bubble with a frozen virtual clock.
type Watchdog struct {
	r      *vh.Run
	prop   string
	budget time.Duration
	seq    atomic.Uint64 // odd while a call is running
	cur    atomic.Pointer[watched]
	exit   func(int)
	onHang func(entry, key string, input []byte) // if set, called instead of recording through r
	// owned by the watchdog goroutine
	lastSeq    uint64
	lastChange time.Time
}

type watched struct {
	entry, key string
	input      []byte
}

// StartWatchdog starts the watchdog goroutine. On expiry it records the violation
// "<prop>|<entry>|hang", flushes the partial result and exits the process with HangExitCode so
// that the driver restarts the shard after the hanging case.
func StartWatchdog(r *vh.Run, prop string, budget time.Duration) *Watchdog {
	w := &Watchdog{r: r, prop: prop, budget: budget, exit: os.Exit, lastChange: time.Now()}
	go w.loop()
	return w
}

// StartWatchdogFunc starts a watchdog that calls fn (on the watchdog goroutine) when a call
// exceeds the budget; fn decides what happens next (a sacrificial executor reports the hang to
// its parent and exits).
func StartWatchdogFunc(budget time.Duration, fn func(entry, key string, input []byte)) *Watchdog {
	w := &Watchdog{budget: budget, exit: os.Exit, onHang: fn, lastChange: time.Now()}
	go w.loop()
	return w
}

func (w *Watchdog) loop() {
	for {
		time.Sleep(250 * time.Millisecond)
		if w.check() {
			return
		}
	}
}

func (w *Watchdog) check() bool {
	s := w.seq.Load()
	now := time.Now()
	if s != w.lastSeq {
		w.lastSeq, w.lastChange = s, now
		return false
	}
	if s&1 == 0 || now.Sub(w.lastChange) < w.budget {
		return false
	}
	c := w.cur.Load()
	if c == nil || w.seq.Load() != s {
		return false
	}
	if w.onHang != nil {
		w.onHang(c.entry, c.key, c.input)
		return true
	}
	in := c.input
	trunc := false
	if len(in) > 4096 {
		in, trunc = in[:4096], true
	}
	w.r.Violation(w.prop+"|"+c.entry+"|hang", fmt.Sprintf("%s did not return within %v", c.entry, w.budget),
		map[string]any{"case": c.key, "entry": c.entry, "input_len": len(c.input), "input_hex": hex.EncodeToString(in), "input_truncated": trunc})
	w.r.Inc("hangs")
	w.r.Flush()
	w.exit(HangExitCode)
	return true
}

// Begin marks the start of a call.
func (w *Watchdog) Begin(entry, key string, input []byte) {
	w.cur.Store(&watched{entry, key, input})
	w.seq.Add(1)
}

// End marks the return of the call.
func (w *Watchdog) End() { w.seq.Add(1) }

// ---------------------------------------------------------------------------------------
// Address-space limit

// DefaultASLimit is the RLIMIT_AS of a C04 child.
const DefaultASLimit = 8 << 30

// SetASLimit sets RLIMIT_AS (soft and, if it is higher, hard) to n bytes and verifies that the
// Go runtime still works under it (a fresh 64 MiB allocation, a garbage collection and a new
// OS thread). It returns the limit in force.
func SetASLimit(n uint64) (uint64, error) {
	var cur syscall.Rlimit
	if err := syscall.Getrlimit(syscall.RLIMIT_AS, &cur); err != nil {
		return 0, err
	}
	lim := syscall.Rlimit{Cur: n, Max: cur.Max}
	if cur.Max != ^uint64(0) && cur.Max < n {
		lim.Cur = cur.Max
	}
	if err := syscall.Setrlimit(syscall.RLIMIT_AS, &lim); err != nil {
		return 0, err
	}
	// the runtime must still be able to grow the heap, collect and start threads
	b := make([]byte, 64<<20)
	for i := 0; i < len(b); i += 4096 {
		b[i] = 1
	}
	runtime.KeepAlive(b)
	b = nil
	runtime.GC()
	done := make(chan struct{})
	go func() {
		runtime.LockOSThread() // forces a fresh M for whoever runs next
		close(done)
	}()
	<-done
	if err := syscall.Getrlimit(syscall.RLIMIT_AS, &cur); err != nil {
		return 0, err
	}
	return cur.Cur, nil
}

// LimitAS sets the soft RLIMIT_AS to n bytes without the self-check of SetASLimit.
func LimitAS(n uint64) error {
	var cur syscall.Rlimit
	if err := syscall.Getrlimit(syscall.RLIMIT_AS, &cur); err != nil {
		return err
	}
	if cur.Max != ^uint64(0) && cur.Max < n {
		n = cur.Max
	}
	return syscall.Setrlimit(syscall.RLIMIT_AS, &syscall.Rlimit{Cur: n, Max: cur.Max})
}

// WarmThreads makes the runtime create n OS threads now (while address space is plentiful), so
// that a later thread creation does not fail under a nearly exhausted RLIMIT_AS.
func WarmThreads(n int) {
	start := make(chan struct{})
	done := make(chan struct{}, n)
	for i := 0; i < n; i++ {
		go func() {
			runtime.LockOSThread()
			<-start
			runtime.UnlockOSThread()
			done <- struct{}{}
		}()
	}
	time.Sleep(time.Millisecond)
	close(start)
	for i := 0; i < n; i++ {
		<-done
	}
}

// VMSize returns the current virtual size of the process in bytes (0 if unknown).
func VMSize() uint64 {
	b, err := os.ReadFile("/proc/self/statm")
	if err != nil {
		return 0
	}
	var pages uint64
	fmt.Sscan(string(b), &pages)
	return pages * uint64(os.Getpagesize())
}

// ---------------------------------------------------------------------------------------
// Crash attribution (same rule as cmd/vcheck crashSummary, so that a process-fatal event gets
// the same fingerprint whether the driver or a parent child observes it)

var (
	csDigits = regexp.MustCompile(`(0x[0-9a-fA-F]+|[0-9]+)`)
	csFrame  = regexp.MustCompile(`^(github\.com/jcmturner/[^\s(]+)`)
)

// CrashSummary extracts "<first fatal line, numbers replaced by N> @ <innermost
// github.com/jcmturner frame>" from the stderr log of a dead process; ok is false when the log
// has no fatal line.
func CrashSummary(log string) (summary string, hasFrame, ok bool) {
	lines := strings.Split(log, "\n")
	first, frame := "", ""
	for i, l := range lines {
		if strings.HasPrefix(l, "runtime: out of memory: cannot allocate") {
			continue
		}
		if first == "" && (strings.HasPrefix(l, "fatal error:") || strings.HasPrefix(l, "panic:") || strings.HasPrefix(l, "runtime: out of memory") || strings.Contains(l, "SIGQUIT")) {
			first = l
			frame = crashFrame(lines[i:], csFrame)
		}
	}
	if first == "" {
		return "", false, false
	}
	if len(first) > 200 {
		first = first[:200]
	}
	first = csDigits.ReplaceAllString(first, "N")
	// every wording of a failed allocation is the same event; inside the rpc dependency the package is the site
	if strings.HasPrefix(first, "fatal error: out of memory") || strings.Contains(first, "cannot allocate memory") {
		first = "fatal error: out of memory"
	}
	if strings.HasPrefix(frame, "github.com/jcmturner/rpc/") {
		if i := strings.LastIndex(frame, "/"); i > 0 {
			if j := strings.Index(frame[i:], "."); j > 0 {
				frame = frame[:i+j]
			}
		}
	}
	return first + " @ " + frame, frame != "", true
}

// ---------------------------------------------------------------------------------------
// Progress log trimming

// TrimProgress truncates the progress log of the child (VERIF_PROGRESS). The driver only reads
// its last line, and vh appends with O_APPEND, so truncating between two cases loses nothing
// and keeps a thorough run from writing gigabytes.
func TrimProgress() {
	if p := os.Getenv("VERIF_PROGRESS"); p != "" {
		os.Truncate(p, 0)
	}
}

// crashFrame names the code under test that was executing when the process died: the innermost github.com/jcmturner frame of
// the goroutine that was running (for a fatal error thrown on the system stack, e.g. an allocation refused inside the garbage
// collector, there may be none: other goroutines that merely exist - a sleeping janitor - say nothing about the cause).
func crashFrame(lines []string, frameRe *regexp.Regexp) string {
	type block struct {
		header string
		frames []string
	}
	var blocks []block
	cur := -1
	for _, l := range lines {
		if strings.HasPrefix(l, "goroutine ") && strings.HasSuffix(strings.TrimSpace(l), ":") {
			blocks = append(blocks, block{header: l})
			cur = len(blocks) - 1
			continue
		}
		if strings.HasPrefix(l, "runtime stack:") {
			cur = -1
			continue
		}
		if cur >= 0 && l != "" && !strings.HasPrefix(l, "\t") {
			blocks[cur].frames = append(blocks[cur].frames, l)
		}
	}
	pick := func(b block) string {
		for _, f := range b.frames {
			if mm := frameRe.FindStringSubmatch(f); mm != nil {
				return mm[1]
			}
		}
		return ""
	}
	for _, b := range blocks {
		if strings.Contains(b.header, "[running") {
			return pick(b)
		}
	}
	// no goroutine was running on the thread that failed: a goroutine in the middle of an allocation is the next best witness
	for _, b := range blocks {
		for _, f := range b.frames {
			if strings.HasPrefix(f, "runtime.mallocgc") || strings.HasPrefix(f, "runtime.makeslice") || strings.HasPrefix(f, "runtime.growslice") || strings.HasPrefix(f, "runtime.newarray") {
				return pick(b)
			}
		}
	}
	if len(blocks) == 0 {
		// no goroutine dump (panic output of another shape): first frame after the fatal line, as before
		for _, l := range lines {
			if mm := frameRe.FindStringSubmatch(l); mm != nil {
				return mm[1]
			}
		}
	}
	return ""
}
