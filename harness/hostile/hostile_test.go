package hostile

import (
	"bytes"
	"encoding/binary"
	"encoding/hex"
	"os"
	"os/exec"
	"runtime"
	"strings"
	"testing"
	"time"

	"verif/vh"
)

var sink []byte

// A function that turns a 4-byte input into a 64 MiB allocation must be flagged; ordinary
// decoders must not.
func TestMeterFlagsLengthDrivenAllocation(t *testing.T) {
	m := NewMeter()
	in := []byte{0x04, 0x00, 0x00, 0x00} // "length" 0x04000000 = 64 MiB, little endian reversed on purpose
	hostileFn := func() {
		n := int(in[0]) << 24
		sink = make([]byte, n)
	}
	got := m.Measure(hostileFn)
	if got < 64<<20 {
		t.Fatalf("meter read %d bytes for a 64 MiB allocation", got)
	}
	if got <= Bound(len(in)) {
		t.Fatalf("64 MiB from a 4-byte input not above the bound %d", Bound(len(in)))
	}
	sink = nil
	if ex := MeasureExact(hostileFn); ex < 64<<20 || ex > 65<<20 {
		t.Fatalf("exact meter read %d bytes for a 64 MiB allocation", ex)
	}
	sink = nil
	o := m.Guard(hostileFn)
	if o.Panicked || o.Alloc < 64<<20 {
		t.Fatalf("Guard: %+v", o)
	}
	sink = nil
}

func TestMeterQuietOnProportionalWork(t *testing.T) {
	m := NewMeter()
	in := bytes.Repeat([]byte{1}, 1000)
	var worst uint64
	for i := 0; i < 2000; i++ {
		got := m.Measure(func() {
			// a decoder-like workload: copies and small objects proportional to the input
			var parts [][]byte
			for j := 0; j+10 <= len(in); j += 10 {
				parts = append(parts, append([]byte{}, in[j:j+10]...))
			}
			sink = bytes.Join(parts, nil)
		})
		if got > worst {
			worst = got
		}
	}
	if worst > Bound(len(in)) {
		t.Fatalf("proportional workload measured at %d bytes, above the bound %d", worst, Bound(len(in)))
	}
	// many small allocations that add up to more than the bound are seen although small objects
	// are accounted span-wise
	got := m.Measure(func() {
		for i := 0; i < 200000; i++ {
			sink = make([]byte, 48)
		}
	})
	if got < 8<<20 {
		t.Fatalf("9.6 MB of 48-byte objects measured as %d", got)
	}
}

func TestGuardNamesInnermostJcmFrame(t *testing.T) {
	m := NewMeter()
	o := m.Guard(func() {
		var b []byte
		_ = b[3]
	})
	if !o.Panicked || o.Class != "index" {
		t.Fatalf("%+v", o)
	}
	st := "goroutine 1 [running]:\nruntime/debug.Stack()\n\t/x/stack.go:26 +0x5e\nverif/hostile.(*Meter).Guard.func1()\n\t/x/h.go:1 +0x1\npanic({0x1, 0x2})\n\t/go/src/runtime/panic.go:792 +0x132\n" +
		"encoding/binary.bigEndian.Uint16(...)\n\t/go/src/encoding/binary/binary.go:179\ngithub.com/jcmturner/gokrb5/v8/kadmin.(*Reply).Unmarshal(0xc0, {0x0, 0x0, 0x0})\n\t/repo/v8/kadmin/message.go:71 +0x1\n" +
		"github.com/jcmturner/gokrb5/v8/client.(*Client).sendToKPasswd(...)\n\t/repo/x.go:1\nverif/props/c04.TestProp()\n"
	if s := JcmSite([]byte(st)); s != "github.com/jcmturner/gokrb5/v8/kadmin.(*Reply).Unmarshal" {
		t.Fatalf("JcmSite = %q", s)
	}
}

func TestGenerators(t *testing.T) {
	base, _ := hex.DecodeString("300c3003020105a1053003020107") // SEQ{ SEQ{INT 5}, [1]{SEQ{INT 7}} }
	if c := Prefixes(base); c.N != len(base) || len(c.Build(3)) != 3 {
		t.Fatal("prefixes")
	}
	q := Substitutions(base, Config{})
	if q.N != len(base)*8 {
		t.Fatalf("quick substitutions: %d", q.N)
	}
	seen := map[string]bool{}
	for n := 0; n < q.N; n++ {
		m := q.Build(n)
		if m == nil {
			continue
		}
		if bytes.Equal(m, base) || seen[string(m)] {
			t.Fatalf("quick substitution %d is trivial or repeated", n)
		}
		seen[string(m)] = true
	}
	th := Substitutions(base, Config{Thorough: true})
	if th.N != len(base)*255 {
		t.Fatal("thorough substitutions")
	}
	seen = map[string]bool{}
	for n := 0; n < th.N; n++ {
		m := th.Build(n)
		if bytes.Equal(m, base) || seen[string(m)] {
			t.Fatalf("thorough substitution %d is trivial or repeated", n)
		}
		seen[string(m)] = true
	}
	// structural: emptying the inner sequence keeps the outer length consistent
	el := DERElements(base)
	want := map[string]bool{
		"3009" + "3000" + "a1053003020107":                      false, // inner SEQ emptied
		"3007" + "a1053003020107":                               false, // first element deleted
		"3011" + "3003020105" + "3003020105" + "a1053003020107": false, // duplicated
		"3009" + "3003020105" + "a1023000":                      false, // deep: SEQ inside [1] emptied, two ancestors fixed
		"3005" + "3003020105":                                   false, // second element deleted
		"300b" + "3003020105" + "a1043002" + "0200" + "":        false, // INTEGER emptied
	}
	for n := 0; n < el.N; n++ {
		if m := el.Build(n); m != nil {
			h := hex.EncodeToString(m)
			if _, ok := want[h]; ok {
				want[h] = true
			}
		}
	}
	for h, ok := range want {
		if !ok {
			t.Errorf("structural class does not produce %s", h)
		}
	}
	dl := DERLengths(base)
	found := 0
	for n := 0; n < dl.N; n++ {
		h := hex.EncodeToString(dl.Build(n))
		if h == "3084ffffffff3003020105a1053003020107" || h == "300c30"+"81ff"+"020105a1053003020107" {
			found++
		}
	}
	if found < 2 {
		t.Errorf("length class: %d of 2 expected raw splices", found)
	}
	// TLVs inside OCTET STRINGs are found
	oct, _ := hex.DecodeString("30080406" + "30040202" + "0102")
	if n := len(newDERTree(oct).all); n != 4 {
		t.Errorf("encapsulated TLVs: %d nodes", n)
	}
	bf := BinaryFields([]byte{0, 0, 0, 2, 9, 9, 9, 9}, Config{Thorough: true})
	hit := false
	for n := 0; n < bf.N; n++ {
		if m := bf.Build(n); m != nil && hex.EncodeToString(m) == "ffffffff09090909" {
			hit = true
		}
	}
	if !hit {
		t.Error("binary field class does not produce 2^32-1 in the first field")
	}
	ln := Lines([]byte("[realms]\n A = {\n }\n"), Config{Lines: []string{"}", "x"}})
	hit = false
	for n := 0; n < ln.N; n++ {
		if m := ln.Build(n); string(m) == "[realms]\n A = {\n}\n }\n" {
			hit = true
		}
	}
	if !hit {
		t.Error("line class does not insert a stray brace")
	}
	hv := Havoc(base, Config{Seed: 5, Havoc: 100})
	if !bytes.Equal(hv.Build(17), hv.Build(17)) {
		t.Error("havoc is not deterministic")
	}
	diff := 0
	for n := 0; n < 100; n++ {
		if !bytes.Equal(hv.Build(n), base) {
			diff++
		}
	}
	if diff < 90 {
		t.Errorf("havoc changed only %d of 100", diff)
	}
	if p := positions(10000, 500, 9); len(p) != 500 || p[47] != 47 {
		t.Error("position sampling")
	}
}

func TestWatchdogFires(t *testing.T) {
	os.Setenv("VERIF_OUT", "")
	r := vh.Start("CXX")
	code := 0
	w := &Watchdog{r: r, prop: "CXX", budget: 30 * time.Millisecond, exit: func(c int) { code = c }, lastChange: time.Now()}
	w.Begin("entry", "entry|k|0|1;", []byte{1, 2, 3})
	if w.check() {
		t.Fatal("fired before the budget")
	}
	w.End()
	time.Sleep(40 * time.Millisecond)
	if w.check() || w.check() {
		t.Fatal("fired although the call returned")
	}
	w.Begin("entry", "entry|k|0|2;", []byte{1, 2, 3})
	if w.check() {
		t.Fatal("fired on first sight of a new call")
	}
	time.Sleep(40 * time.Millisecond)
	if !w.check() || code != HangExitCode {
		t.Fatalf("did not fire (code %d)", code)
	}
}

// The address-space limit: the runtime keeps working under 8 GiB, and an allocation the OS
// refuses is a process-fatal "out of memory" (run in a re-executed child).
func TestASLimit(t *testing.T) {
	if os.Getenv("HOSTILE_RLIMIT_CHILD") != "" {
		lim, err := SetASLimit(DefaultASLimit)
		if err != nil {
			println("setrlimit failed:", err.Error())
			os.Exit(3)
		}
		println("limit", lim, "vmsize", VMSize())
		if os.Getenv("HOSTILE_RLIMIT_CHILD") == "ok" {
			// 2 GiB is fine under the limit
			b := make([]byte, 2<<30)
			b[len(b)-1] = 1
			runtime.KeepAlive(b)
			println("allocated 2 GiB")
			os.Exit(0)
		}
		n := 9 << 30
		b := make([]byte, n)
		b[n-1] = 1
		println("allocated 9 GiB although limited")
		os.Exit(0)
	}
	for _, mode := range []string{"ok", "over"} {
		cmd := exec.Command(os.Args[0], "-test.run", "^TestASLimit$")
		cmd.Env = append(os.Environ(), "HOSTILE_RLIMIT_CHILD="+mode)
		out, err := cmd.CombinedOutput()
		s := string(out)
		if mode == "ok" {
			if err != nil || !strings.Contains(s, "allocated 2 GiB") {
				t.Fatalf("runtime does not work under RLIMIT_AS=8GiB: %v\n%s", err, s)
			}
			t.Log(strings.TrimSpace(s))
			continue
		}
		if err == nil || !strings.Contains(s, "out of memory") {
			t.Fatalf("9 GiB allocation under RLIMIT_AS=8GiB: err=%v\n%s", err, s)
		}
	}
}

func TestCrashSummary(t *testing.T) {
	lg := "=== RUN   TestProp\nruntime: out of memory: cannot allocate 34229714944-byte block (100040704 in use)\nfatal error: out of memory\n\ngoroutine 41 gp=0x3a68 m=4 [running]:\nruntime.throw({0x7b4fdb?, 0x3fc001?})\n\t/go/src/runtime/panic.go:1229 +0x48\n" +
		"reflect.MakeSlice({0x7ef728, 0x739540}, 0xff00001a, 0xff00001a)\n\t/go/src/reflect/value.go:3061 +0xa5\ngithub.com/jcmturner/rpc/v2/ndr.(*Decoder).fillUniDimensionalConformantArray(0x3a68, {0x73})\n\t/x/arrays.go:177 +0xfd\n" +
		"github.com/jcmturner/gokrb5/v8/pac.(*KerbValidationInfo).Unmarshal(0x3a)\n"
	s, jcm, ok := CrashSummary(lg)
	if !ok || !jcm || s != "fatal error: out of memory @ github.com/jcmturner/rpc/v2/ndr" {
		t.Fatalf("%q %v %v", s, jcm, ok)
	}
	// an allocation refused inside the garbage collector: thrown on the system stack, no goroutine was running; a janitor that
	// merely exists must not be blamed
	gc := "runtime: out of memory: cannot allocate 4194304-byte block (473563136 in use)\nfatal error: out of memory\n\nruntime stack:\nruntime.throw({0x7f7302?, 0x438c3a?})\n\t/go/src/runtime/panic.go:1229 +0x48\nruntime.getempty()\n\t/go/src/runtime/mgcwork.go:453 +0x1a5\n\n" +
		"goroutine 19 gp=0x1 m=nil [sleep]:\ntime.Sleep(0x1)\n\t/go/src/runtime/time.go:363 +0x165\ngithub.com/jcmturner/gokrb5/v8/service.GetReplayCache.func1.1()\n\t/repo/v8/service/cache.go:78 +0x2f\n\n" +
		"goroutine 7 gp=0x2 m=nil [GC worker (idle)]:\nruntime.gopark(0x0?, 0x0?, 0x0?, 0x0?, 0x0?)\n\t/go/src/runtime/proc.go:460 +0xce\n"
	if s, jcm, ok := CrashSummary(gc); !ok || jcm || s != "fatal error: out of memory @ " {
		t.Fatalf("%q %v %v", s, jcm, ok)
	}
	if _, _, ok := CrashSummary("PASS\nok\n"); ok {
		t.Fatal("summary of a clean log")
	}
	s, jcm, _ = CrashSummary("fatal error: stack overflow 1234 0xdead\nruntime.x()\n")
	if jcm || s != "fatal error: stack overflow N N @ " {
		t.Fatalf("%q", s)
	}
}

func TestRelativeFields(t *testing.T) {
	base := append([]byte{5, 2, 0, 0, 0, 16}, make([]byte, 16)...)
	for i := 6; i < 22; i++ {
		base[i] = 0xA0 + byte(i) // not a plausible field
	}
	base = append(base, 0xff, 0xff, 0xff, 0xf5) // a hole of 11 bytes
	base = append(base, make([]byte, 11)...)
	want := clone(base)
	binary.BigEndian.PutUint32(want[22:], uint32(0xffffffff-24+1)) // -(16+8): back to the start of the entry
	cl := RelativeFields(base, Config{Seed: 1}, 0)
	found, seen := false, map[string]bool{}
	for k := 0; k < cl.N; k++ {
		m := cl.Build(k)
		if m == nil {
			continue
		}
		if seen[string(m)] && false {
			t.Fatalf("duplicate case %d", k)
		}
		seen[string(m)] = true
		if bytes.Equal(m, want) {
			found = true
		}
	}
	if !found {
		t.Fatalf("the negative length that leads back to the entry is not in the class (%d cases)", cl.N)
	}
	// a sample of the same space: distinct indices, no panics, size near the cap
	cs := RelativeFields(base, Config{Seed: 3}, 500)
	if cs.N < 250 || cs.N > 500 {
		t.Fatalf("sample size %d for cap 500", cs.N)
	}
	for k := 0; k < cs.N; k++ {
		cs.Build(k)
	}
}
