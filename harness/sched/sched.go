// Package sched is a cooperative scheduler for exhaustive exploration of interleavings at
// yield-point granularity. Worker goroutines park at every call of Yield; the scheduler grants
// one step at a time and enumerates, depth first, every sequence of choices (stateless model
// checking by re-execution). Yield points must never be inside a critical section.
package sched

import (
	"bytes"
	"fmt"
	"runtime"
	"strconv"
	"sync"
)

type event struct {
	worker int
	point  string
	done   bool
	panic  any
}

// Run is one execution under a given choice prefix.
type Run struct {
	mu      sync.Mutex
	gids    map[uint64]int
	resume  []chan struct{}
	notify  chan event
	Trace   []Step
	Steps   int64 // logical clock: incremented at every grant and every completion
	stepsMu sync.Mutex
}

// Step records one decision.
type Step struct {
	Enabled int    // number of enabled workers at the decision
	Choice  int    // index among the enabled workers
	Worker  int    // worker granted
	Point   string // yield point at which the worker was parked ("start" initially)
}

func gid() uint64 {
	var buf [64]byte
	n := runtime.Stack(buf[:], false)
	b := buf[:n]
	b = bytes.TrimPrefix(b, []byte("goroutine "))
	if i := bytes.IndexByte(b, ' '); i > 0 {
		b = b[:i]
	}
	v, _ := strconv.ParseUint(string(b), 10, 64)
	return v
}

// current is the run the yield hook dispatches to.
var (
	curMu sync.RWMutex
	cur   *Run
)

// Yield is installed as the yield hook of the code under test.
func Yield(point string) {
	curMu.RLock()
	r := cur
	curMu.RUnlock()
	if r == nil {
		return
	}
	r.mu.Lock()
	w, ok := r.gids[gid()]
	r.mu.Unlock()
	if !ok {
		return // not a scheduled worker
	}
	r.notify <- event{worker: w, point: point}
	<-r.resume[w]
}

// Clock returns the logical time of the current run (for call/return stamps).
func (r *Run) Clock() int64 {
	r.stepsMu.Lock()
	defer r.stepsMu.Unlock()
	r.Steps++
	return r.Steps
}

// Execute runs the workers under the schedule prefix (choices beyond the prefix default to 0)
// and returns the trace of decisions. A worker panic is returned as error.
func Execute(workers []func(r *Run), prefix []int) (*Run, error) {
	n := len(workers)
	r := &Run{gids: map[uint64]int{}, resume: make([]chan struct{}, n), notify: make(chan event)}
	for i := range r.resume {
		r.resume[i] = make(chan struct{})
	}
	curMu.Lock()
	cur = r
	curMu.Unlock()
	defer func() {
		curMu.Lock()
		cur = nil
		curMu.Unlock()
	}()
	parked := make([]string, n) // yield point each worker is parked at; "" = finished
	var started sync.WaitGroup
	for i := 0; i < n; i++ {
		parked[i] = "start"
		started.Add(1)
		go func(i int) {
			r.mu.Lock()
			r.gids[gid()] = i
			r.mu.Unlock()
			started.Done()
			<-r.resume[i]
			var pv any
			func() {
				defer func() { pv = recover() }()
				workers[i](r)
			}()
			r.notify <- event{worker: i, done: true, panic: pv}
		}(i)
	}
	started.Wait()
	var firstPanic error
	for d := 0; ; d++ {
		var enabled []int
		for i, p := range parked {
			if p != "" {
				enabled = append(enabled, i)
			}
		}
		if len(enabled) == 0 {
			break
		}
		c := 0
		if d < len(prefix) {
			c = prefix[d]
		}
		if c >= len(enabled) {
			return r, fmt.Errorf("sched: schedule prefix does not fit (choice %d of %d at depth %d): non-deterministic workers", c, len(enabled), d)
		}
		w := enabled[c]
		r.Trace = append(r.Trace, Step{Enabled: len(enabled), Choice: c, Worker: w, Point: parked[w]})
		r.resume[w] <- struct{}{}
		ev := <-r.notify
		if ev.worker != w {
			return r, fmt.Errorf("sched: worker %d moved while worker %d was granted (yield inside blocking section?)", ev.worker, w)
		}
		if ev.done {
			parked[w] = ""
			if ev.panic != nil && firstPanic == nil {
				firstPanic = fmt.Errorf("worker %d panicked: %v", w, ev.panic)
			}
		} else {
			parked[w] = ev.point
		}
	}
	return r, firstPanic
}

// Explore enumerates every schedule depth first. mk builds fresh workers (and fresh shared
// state) for each execution; after each execution visit receives the run. It returns the
// number of schedules explored. maxSchedules bounds the exploration (0 = unbounded); the second
// result reports whether the space was exhausted.
func Explore(mk func() []func(r *Run), visit func(r *Run, schedule []int, err error), maxSchedules int) (int, bool) {
	var prefix []int
	count := 0
	for {
		r, err := Execute(mk(), prefix)
		sch := make([]int, len(r.Trace))
		for i, s := range r.Trace {
			sch[i] = s.Choice
		}
		visit(r, sch, err)
		count++
		if maxSchedules > 0 && count >= maxSchedules {
			return count, false
		}
		// next schedule: last decision that has an untried alternative
		i := len(r.Trace) - 1
		for ; i >= 0; i-- {
			if r.Trace[i].Choice+1 < r.Trace[i].Enabled {
				break
			}
		}
		if i < 0 {
			return count, true
		}
		prefix = append(append([]int{}, sch[:i]...), sch[i]+1)
	}
}
