package leak

import "testing"

func TestSelf(t *testing.T) {
	if err := SelfTest(); err != nil {
		t.Fatal(err)
	}
}
