// Package leak plants high-entropy marker secrets and scans observed outputs for them in raw,
// hex and base64 form (including the shifted base64 alignments that occur when the secret sits
// inside a larger encoded blob).
package leak

import (
	"bytes"
	"encoding/base64"
	"encoding/hex"
	"fmt"
	"strings"
	"unicode/utf16"
)

// Secret is one planted value.
type Secret struct {
	Name     string
	Value    []byte
	patterns []pattern
}

type pattern struct {
	enc string
	b   []byte
}

// b64Cores returns, for each of the three byte alignments and both alphabets, the characters of the
// base64 rendering that are fully determined by the secret itself.
func b64Cores(s []byte) []pattern {
	var out []pattern
	for o := 0; o < 3; o++ {
		// surround with bytes of both polarities to find the characters that do not depend on the neighbours
		a := append(append(bytes.Repeat([]byte{0x00}, o), s...), 0x00, 0x00, 0x00)
		b := append(append(bytes.Repeat([]byte{0xff}, o), s...), 0xff, 0xff, 0xff)
		for _, encd := range []*base64.Encoding{base64.StdEncoding, base64.URLEncoding} {
			ea, eb := encd.EncodeToString(a), encd.EncodeToString(b)
			// longest common substring starting after the prefix-dependent chars
			start, end := -1, -1
			for i := 0; i < len(ea) && i < len(eb); i++ {
				if ea[i] == eb[i] {
					if start < 0 {
						start = i
					}
					end = i + 1
				} else if start >= 0 {
					break
				}
			}
			if start >= 0 && end-start >= 12 {
				name := "base64"
				if encd == base64.URLEncoding {
					name = "base64url"
				}
				out = append(out, pattern{fmt.Sprintf("%s(align %d)", name, o), []byte(ea[start:end])})
			}
		}
	}
	return out
}

// New builds the search patterns of a secret. Text secrets are also searched as UTF-16LE.
func New(name string, value []byte, text bool) *Secret {
	s := &Secret{Name: name, Value: append([]byte{}, value...)}
	if len(value) < 8 {
		return s // too short to search for without false alarms
	}
	s.patterns = append(s.patterns, pattern{"raw", s.Value})
	s.patterns = append(s.patterns, pattern{"hex", []byte(hex.EncodeToString(value))})
	s.patterns = append(s.patterns, pattern{"HEX", []byte(strings.ToUpper(hex.EncodeToString(value)))})
	s.patterns = append(s.patterns, b64Cores(value)...)
	if text {
		u := utf16.Encode([]rune(string(value)))
		ub := make([]byte, 2*len(u))
		for i, c := range u {
			ub[2*i], ub[2*i+1] = byte(c), byte(c>>8)
		}
		s.patterns = append(s.patterns, pattern{"utf16le", ub})
	}
	return s
}

// Hit is one finding.
type Hit struct {
	Secret   string
	Encoding string
	Offset   int
}

// Scan searches data for every pattern of every secret.
func Scan(data []byte, secrets []*Secret) []Hit {
	var hits []Hit
	for _, s := range secrets {
		for _, p := range s.patterns {
			if i := bytes.Index(data, p.b); i >= 0 {
				hits = append(hits, Hit{s.Name, p.enc, i})
			}
		}
	}
	return hits
}

// SelfTest plants every encoding of a marker into a dummy stream and requires the scanner to find it.
func SelfTest() error {
	marker := []byte{0x13, 0x37, 0xc0, 0xde, 0xfa, 0xce, 0xb0, 0x0c, 0x99, 0x42, 0x10, 0x7f, 0x80, 0xee, 0x01, 0xab, 0x55, 0xaa, 0x00, 0xff, 0x3c, 0xc3}
	s := New("marker", marker, false)
	for o := 0; o < 7; o++ {
		blob := append(append(bytes.Repeat([]byte{0xa5}, o), marker...), 0x5a, 0x77)
		for name, enc := range map[string][]byte{
			"raw":          blob,
			"hex":          []byte(hex.EncodeToString(blob)),
			"HEX":          []byte(strings.ToUpper(hex.EncodeToString(blob))),
			"base64":       []byte(base64.StdEncoding.EncodeToString(blob)),
			"base64raw":    []byte(base64.RawStdEncoding.EncodeToString(blob)),
			"base64url":    []byte(base64.URLEncoding.EncodeToString(blob)),
			"base64rawurl": []byte(base64.RawURLEncoding.EncodeToString(blob)),
		} {
			stream := append(append([]byte("prefix text {\"k\": \""), enc...), []byte("\"} suffix")...)
			if len(Scan(stream, []*Secret{s})) == 0 {
				return fmt.Errorf("leak: scanner misses the marker in %s at offset %d", name, o)
			}
		}
	}
	if len(Scan([]byte("nothing to see here 0123456789abcdef"), []*Secret{s})) != 0 {
		return fmt.Errorf("leak: false hit")
	}
	pw := New("pw", []byte("Marker-Passw0rd-XyZ"), true)
	if len(Scan([]byte("M\x00a\x00r\x00k\x00e\x00r\x00-\x00P\x00a\x00s\x00s\x00w\x000\x00r\x00d\x00-\x00X\x00y\x00Z\x00"), []*Secret{pw})) == 0 {
		return fmt.Errorf("leak: scanner misses UTF-16LE text")
	}
	return nil
}
