// vcheck is the driver of the verification harness: it builds a property's test binary from
// /repo's current working tree (hooks on), runs it in child processes, merges the shard
// results, applies the known-findings file, writes the evidence file and prints the verdict
// lines. Exit codes: 0 held, 1 violated, 2 inconclusive.
package main

import (
	"bufio"
	"encoding/json"
	"fmt"
	"os"
	"os/exec"
	"path/filepath"
	"regexp"
	"sort"
	"strconv"
	"strings"
	"sync"
	"time"

	"verif/vh"
)

type propCfg struct {
	race          bool
	shards        int
	level         string
	quickTimeout  time.Duration // generous watchdogs, not verdicts
	thoroTimeout  time.Duration
	crashIsViol   bool // a process-fatal event with gokrb5 frames is a violation of this property
	restartShards bool // restart a crashed shard after the last logged case (C04)
	coverThorough bool
}

var cfgs = map[string]propCfg{
	"C01": {level: "exploration", crashIsViol: true},
	"C02": {level: "exploration", race: true, crashIsViol: true},
	"C03": {level: "exploration", crashIsViol: true},
	"C04": {level: "exploration", shards: 16, crashIsViol: true, restartShards: true},
	"C05": {level: "exploration", crashIsViol: true},
	"C06": {level: "exploration", crashIsViol: true},
	"C07": {level: "exploration", crashIsViol: true},
	"C08": {level: "exploration", crashIsViol: true},
	"C09": {level: "exploration", crashIsViol: true},
	"C10": {level: "exploration", crashIsViol: true},
	"C11": {level: "exploration", race: true, crashIsViol: true},
	"C12": {level: "fault_enumeration", crashIsViol: true},
	"C13": {level: "exploration", crashIsViol: true},
	"C14": {level: "exploration", crashIsViol: true},
	"C15": {level: "exploration", crashIsViol: true},
	"C16": {level: "exploration", crashIsViol: true},
	"C17": {level: "exploration", crashIsViol: true},
	"C18": {level: "exploration", crashIsViol: true},
	"C19": {level: "exploration", crashIsViol: true},
	"C20": {level: "exploration", crashIsViol: true},
}

const goBin = "/opt/veriftools/go1.26.8/bin/go"

var (
	verifDir   string
	harnessDir string
)

type known struct {
	Property    string `json:"property"`
	Fingerprint string `json:"fingerprint"`
	Status      string `json:"status"`
	Commit      string `json:"commit"`
	What        string `json:"what"`
}

func loadKnown(prop string) map[string]known {
	m := map[string]known{}
	f, err := os.Open(filepath.Join(verifDir, "KNOWN_FINDINGS.jsonl"))
	if err != nil {
		return m
	}
	defer f.Close()
	sc := bufio.NewScanner(f)
	sc.Buffer(make([]byte, 1<<20), 1<<20)
	for sc.Scan() {
		l := strings.TrimSpace(sc.Text())
		if l == "" || strings.HasPrefix(l, "#") {
			continue
		}
		var k known
		if json.Unmarshal([]byte(l), &k) != nil {
			continue
		}
		if k.Property == prop && k.Status == "known" {
			m[k.Fingerprint] = k
		}
	}
	return m
}

func goEnv() []string {
	env := os.Environ()
	env = append(env, "GOFLAGS=-mod=mod", "GOPROXY=off", "GOSUMDB=off", "GOTOOLCHAIN=local", "CGO_ENABLED=1")
	return env
}

func build(prop string, c propCfg, cover bool) (string, error) {
	bdir := filepath.Join(verifDir, ".build")
	os.MkdirAll(bdir, 0o755)
	out := filepath.Join(bdir, strings.ToLower(prop)+".test")
	if cover {
		out = filepath.Join(bdir, strings.ToLower(prop)+".cover.test")
	}
	args := []string{"test", "-c", "-tags", "verif", "-vet=off", "-o", out}
	if c.race {
		args = append(args, "-race")
	}
	if cover {
		args = append(args, "-cover", "-coverpkg=github.com/jcmturner/gokrb5/v8/...")
	}
	if alt := os.Getenv("VERIF_REPO"); alt != "" {
		// development aid (seeded-change campaign): build against a scratch copy of the repository instead of /repo
		mf := filepath.Join(bdir, fmt.Sprintf("alt-%d.mod", os.Getpid()))
		gm, err := os.ReadFile(filepath.Join(harnessDir, "go.mod"))
		if err != nil {
			return "", err
		}
		os.WriteFile(mf, []byte(strings.Replace(string(gm), "=> /repo/v8", "=> "+alt+"/v8", 1)), 0o644)
		gs, _ := os.ReadFile(filepath.Join(harnessDir, "go.sum"))
		os.WriteFile(strings.TrimSuffix(mf, ".mod")+".sum", gs, 0o644)
		defer os.Remove(mf)
		defer os.Remove(strings.TrimSuffix(mf, ".mod") + ".sum")
		out = filepath.Join(bdir, fmt.Sprintf("%s-alt-%d.test", strings.ToLower(prop), os.Getpid()))
		if cover {
			out = filepath.Join(bdir, fmt.Sprintf("%s-alt-%d.cover.test", strings.ToLower(prop), os.Getpid()))
		}
		args[6] = out
		args = append(args, "-modfile="+mf)
	}
	args = append(args, "./props/"+strings.ToLower(prop))
	cmd := exec.Command(goBin, args...)
	cmd.Dir = harnessDir
	cmd.Env = goEnv()
	b, err := cmd.CombinedOutput()
	if err != nil {
		return "", fmt.Errorf("build failed: %v\n%s", err, b)
	}
	return out, nil
}

type shardOutcome struct {
	res        *vh.Result
	partial    *vh.Result // flushed before a crash
	controlled bool
	crashed    bool
	timedOut   bool
	logPath    string
	crashMsg   string
	lastCase   string
}

func runShard(bin, prop, tier string, seed string, i, n int, wdir string, timeout time.Duration, extraEnv []string, attempt int) shardOutcome {
	tag := fmt.Sprintf("shard%02d.%d", i, attempt)
	outPath := filepath.Join(wdir, tag+".json")
	logPath := filepath.Join(wdir, tag+".log")
	progPath := filepath.Join(wdir, tag+".progress")
	os.Remove(outPath)
	os.Remove(progPath)
	lf, _ := os.Create(logPath)
	defer lf.Close()
	secs := int(timeout.Seconds())
	args := []string{"-s", "QUIT", "-k", "30", fmt.Sprint(secs), bin, "-test.run", "^TestProp$", "-test.timeout", "0", "-test.v"}
	for _, e := range extraEnv {
		if e == "VERIF_COVER=1" {
			args = append(args, "-test.coverprofile="+filepath.Join(wdir, tag+".cover"))
		}
	}
	cmd := exec.Command("timeout", args...)
	cmd.Dir = wdir
	cmd.Stdout = lf
	cmd.Stderr = lf
	env := goEnv()
	env = append(env, "VERIF_TIER="+tier, "VERIF_SEED="+seed, fmt.Sprintf("VERIF_SHARD=%d/%d", i, n),
		"VERIF_OUT="+outPath, "VERIF_PROGRESS="+progPath, "VERIF_DIR="+verifDir, "VERIF_WORK="+wdir,
		"GORACE=halt_on_error=0 log_path="+filepath.Join(wdir, fmt.Sprintf("race.%02d", i)))
	env = append(env, extraEnv...)
	cmd.Env = env
	err := cmd.Run()
	so := shardOutcome{logPath: logPath}
	if b, e := os.ReadFile(outPath); e == nil {
		var r vh.Result
		if json.Unmarshal(b, &r) == nil {
			if r.Done {
				so.res = &r
			} else {
				so.partial = &r
			}
		}
	}
	if err != nil || so.res == nil {
		if ee, ok := err.(*exec.ExitError); ok && ee.ExitCode() == 124 {
			so.timedOut = true
		}
		// exit code 97: the child recorded a verdict for the current case itself (e.g. a hang), flushed, and asks to be restarted after it
		if ee, ok := err.(*exec.ExitError); ok && ee.ExitCode() == 97 && so.partial != nil {
			so.controlled = true
		}
		// a test binary exits 1 when t.Error was called; that is fine if the result file is complete
		if so.res == nil {
			so.crashed = true
			so.crashMsg = crashSummary(logPath)
			if b, e := os.ReadFile(progPath); e == nil {
				ls := strings.Split(strings.TrimSpace(string(b)), "\n")
				so.lastCase = ls[len(ls)-1]
			}
		}
	}
	return so
}

// statementCoverage merges the cover profiles the shard children wrote on exit (a child that died wrote none: the figures are
// lower bounds) and reports, for the files the property is anchored in, how many statements the workload executed.
func statementCoverage(wdir, prop string) map[string]any {
	files, _ := filepath.Glob(filepath.Join(wdir, "*.cover"))
	if len(files) == 0 {
		return nil
	}
	type blk struct {
		n   int
		hit bool
	}
	blocks := map[string]*blk{}
	for _, f := range files {
		b, err := os.ReadFile(f)
		if err != nil {
			continue
		}
		for _, l := range strings.Split(string(b), "\n") {
			if l == "" || strings.HasPrefix(l, "mode:") {
				continue
			}
			fs := strings.Fields(l)
			if len(fs) != 3 {
				continue
			}
			n, _ := strconv.Atoi(fs[1])
			cnt, _ := strconv.Atoi(fs[2])
			bk := blocks[fs[0]]
			if bk == nil {
				bk = &blk{n: n}
				blocks[fs[0]] = bk
			}
			if cnt > 0 {
				bk.hit = true
			}
		}
	}
	// anchors of the property
	var anchors []string
	if pb, err := os.ReadFile(filepath.Join(verifDir, "properties.jsonl")); err == nil {
		for _, l := range strings.Split(string(pb), "\n") {
			var p struct {
				ID      string `json:"id"`
				Anchors struct {
					Files []string `json:"files"`
				} `json:"anchors"`
			}
			if json.Unmarshal([]byte(l), &p) == nil && p.ID == prop {
				anchors = p.Anchors.Files
			}
		}
	}
	const mod = "github.com/jcmturner/gokrb5/"
	type fc struct{ hit, total int }
	per := map[string]*fc{}
	for k, bk := range blocks {
		file := k[:strings.LastIndex(k, ":")]
		rel := strings.TrimPrefix(file, mod)
		c := per[rel]
		if c == nil {
			c = &fc{}
			per[rel] = c
		}
		c.total += bk.n
		if bk.hit {
			c.hit += bk.n
		}
	}
	anchored := map[string]string{}
	ah, at, oh, ot := 0, 0, 0, 0
	for rel, c := range per {
		isA := false
		for _, a := range anchors {
			if rel == a || strings.HasPrefix(rel, strings.TrimSuffix(a, "/")+"/") {
				isA = true
			}
		}
		oh, ot = oh+c.hit, ot+c.total
		if isA {
			ah, at = ah+c.hit, at+c.total
			anchored[rel] = fmt.Sprintf("%d/%d statements (%.1f%%)", c.hit, c.total, 100*float64(c.hit)/float64(max(c.total, 1)))
		}
	}
	return map[string]any{
		"profiles_merged":     len(files),
		"anchored_files":      anchored,
		"anchored_total":      fmt.Sprintf("%d/%d statements (%.1f%%)", ah, at, 100*float64(ah)/float64(max(at, 1))),
		"all_gokrb5_packages": fmt.Sprintf("%d/%d statements (%.1f%%)", oh, ot, 100*float64(oh)/float64(max(ot, 1))),
		"note":                "statements executed at least once by the quick-tier workload of this seed, measured in a separate pass with a binary built with go test -cover -coverpkg=github.com/jcmturner/gokrb5/v8/... (the deciding thorough run uses the plain binary: coverage counters slow tight loops 5-8x); children that died (and C04's executor processes) write no profile; lower bounds for the thorough workload",
	}
}

var digitsRe = regexp.MustCompile(`(0x[0-9a-fA-F]+|[0-9]+)`)

var frameRe = regexp.MustCompile(`^(github\.com/jcmturner/[^\s(]+)`)

// crashSummary extracts the fatal line and innermost jcmturner frame from a child's log.
func crashSummary(logPath string) string {
	b, err := os.ReadFile(logPath)
	if err != nil {
		return "no log"
	}
	lines := strings.Split(string(b), "\n")
	first := ""
	frame := ""
	for i, l := range lines {
		if strings.HasPrefix(l, "runtime: out of memory: cannot allocate") {
			continue // the "fatal error: out of memory" line that follows is the stable one
		}
		if first == "" && (strings.HasPrefix(l, "fatal error:") || strings.HasPrefix(l, "panic:") || strings.HasPrefix(l, "runtime: out of memory") || strings.Contains(l, "SIGQUIT")) {
			first = l
			frame = crashFrame(lines[i:], frameRe)
		}
	}
	if first == "" {
		if len(lines) > 6 {
			lines = lines[len(lines)-6:]
		}
		return "no fatal line; tail: " + strings.Join(lines, " | ")
	}
	if len(first) > 200 {
		first = first[:200]
	}
	// sizes, addresses and goroutine numbers vary from input to input: keep the fingerprint stable
	first = digitsRe.ReplaceAllString(first, "N")
	// every wording of a failed allocation is the same event; inside the rpc dependency the package is the site
	if strings.HasPrefix(first, "fatal error: out of memory") || strings.Contains(first, "cannot allocate memory") {
		first = "fatal error: out of memory"
	}
	if strings.HasPrefix(frame, "github.com/jcmturner/rpc/") {
		if i := strings.LastIndex(frame, "/"); i > 0 {
			if j := strings.Index(frame[i:], "."); j > 0 {
				frame = frame[:i+j]
			}
		}
	}
	return first + " @ " + frame
}

func main() {
	if len(os.Args) < 2 {
		fmt.Fprintln(os.Stderr, "usage: vcheck <ID> [quick|thorough] [--replay path]")
		os.Exit(2)
	}
	prop := strings.ToUpper(os.Args[1])
	tier := "quick"
	replay := ""
	for i := 2; i < len(os.Args); i++ {
		switch os.Args[i] {
		case "quick", "thorough":
			tier = os.Args[i]
		case "--replay":
			if i+1 < len(os.Args) {
				replay = os.Args[i+1]
				i++
			}
		}
	}
	if t := os.Getenv("VERIF_TIER"); t == "quick" || t == "thorough" {
		tier = t
	}
	seed := os.Getenv("VERIF_SEED")
	if seed == "" {
		seed = "1"
	}
	verifDir = os.Getenv("VERIF_DIR")
	if verifDir == "" {
		verifDir = "/verif"
	}
	harnessDir = filepath.Join(verifDir, "harness")
	c, ok := cfgs[prop]
	if !ok {
		fmt.Fprintln(os.Stderr, "unknown property", prop)
		os.Exit(2)
	}
	if c.shards == 0 {
		c.shards = 1
	}
	timeout := c.quickTimeout
	if tier == "thorough" {
		timeout = c.thoroTimeout
	}
	if timeout == 0 {
		timeout = 25 * time.Minute
		if tier == "thorough" {
			timeout = 3 * time.Hour
		}
	}
	start := time.Now()
	wdir := filepath.Join(verifDir, ".work", prop)
	altRepo := os.Getenv("VERIF_REPO") != ""
	if altRepo {
		wdir = filepath.Join(verifDir, ".work", fmt.Sprintf("%s-alt-%d", prop, os.Getpid()))
	}
	os.RemoveAll(wdir)
	os.MkdirAll(wdir, 0o755)
	os.MkdirAll(filepath.Join(verifDir, "evidence"), 0o755)
	os.MkdirAll(filepath.Join(verifDir, "replay"), 0o755)

	var extraEnv []string
	if replay != "" {
		b, err := os.ReadFile(replay)
		if err != nil {
			fmt.Fprintln(os.Stderr, "cannot read replay file:", err)
			os.Exit(2)
		}
		var rp struct {
			Only string `json:"only"`
			Seed string `json:"seed"`
			Tier string `json:"tier"`
		}
		json.Unmarshal(b, &rp)
		if rp.Seed != "" {
			seed = rp.Seed
		}
		if rp.Tier != "" {
			tier = rp.Tier
		}
		extraEnv = append(extraEnv, "VERIF_ONLY="+rp.Only, "VERIF_REPLAY="+replay)
		c.shards = 1
	}

	// the thorough tier measures which statements of gokrb5 the workload executed (go test -cover over all gokrb5 packages)
	// (not for the race-detector builds: every coverage counter update becomes an instrumented atomic access, C02's thorough
	// tier then ran nine times longer and was killed at 37 GB)
	// The deciding run uses the plain binary. Coverage counters cost tight loops a factor of 5-8 on 16 cores (C17: 350 s ->
	// 2630 s), so the instrumented binary runs afterwards, once, on the quick-tier workload of the same seed: its verdicts are
	// not used, only the profiles (statement coverage saturates long before the thorough workload ends; the figures are lower
	// bounds for the thorough run).
	cover := tier == "thorough" && replay == "" && os.Getenv("VERIF_NOCOVER") == "" && !c.race
	bin, err := build(prop, c, false)
	if err != nil {
		fmt.Printf("INCONCLUSIVE property=%s reason=%s\n", prop, strings.ReplaceAll(err.Error(), "\n", " | "))
		os.Exit(2)
	}
	coverBin := ""
	if cover {
		if coverBin, err = build(prop, c, true); err != nil {
			cover = false
		}
	}

	// run shards
	outcomes := make([][]shardOutcome, c.shards)
	var wg sync.WaitGroup
	for i := 0; i < c.shards; i++ {
		wg.Add(1)
		go func(i int) {
			defer wg.Done()
			env := extraEnv
			for attempt := 0; attempt < 40; attempt++ {
				so := runShard(bin, prop, tier, seed, i, c.shards, wdir, timeout, env, attempt)
				outcomes[i] = append(outcomes[i], so)
				if !so.crashed || !c.restartShards || so.lastCase == "" || so.timedOut && false {
					break
				}
				// restart after the case that killed the child
				env = append(append([]string{}, extraEnv...), "VERIF_SKIP_THROUGH="+so.lastCase)
			}
		}(i)
	}
	wg.Wait()
	if cover {
		cdir := filepath.Join(wdir, "coverage-pass")
		os.RemoveAll(cdir)
		os.MkdirAll(cdir, 0o755)
		var cw sync.WaitGroup
		for i := 0; i < c.shards; i++ {
			cw.Add(1)
			go func(i int) {
				defer cw.Done()
				env := append(append([]string{}, extraEnv...), "VERIF_COVER=1")
				for attempt := 0; attempt < 6; attempt++ {
					so := runShard(coverBin, prop, "quick", seed, i, c.shards, cdir, timeout, env, attempt)
					if !so.crashed || !c.restartShards || so.lastCase == "" {
						break
					}
					env = append(append([]string{}, extraEnv...), "VERIF_COVER=1", "VERIF_SKIP_THROUGH="+so.lastCase)
				}
			}(i)
		}
		cw.Wait()
		if altRepo {
			os.Remove(coverBin)
		}
	}

	// merge
	merged := vh.Result{Prop: prop, Tier: tier, Counts: map[string]int64{}, Violations: map[string]*vh.Violation{},
		Requires: map[string]int64{}, Exhaustive: map[string]bool{}, Extra: map[string]any{}}
	var inconclusive []string
	exhaustiveAll := map[string]int{}
	nres := 0
	for i := range outcomes {
		for _, so := range outcomes[i] {
			if so.crashed && so.controlled {
				// verdict already inside the partial result
			} else if so.crashed {
				fp := fmt.Sprintf("%s|fatal|%s", prop, so.crashMsg)
				what := fmt.Sprintf("child process died (%s) at case %q; log %s", so.crashMsg, so.lastCase, so.logPath)
				if so.timedOut {
					inconclusive = append(inconclusive, "watchdog fired: "+what)
				} else if c.crashIsViol && strings.Contains(so.crashMsg, "github.com/jcmturner/") {
					v := merged.Violations[fp]
					if v == nil {
						v = &vh.Violation{Fingerprint: fp, What: what, Detail: map[string]any{"last_case": so.lastCase, "log": so.logPath}}
						merged.Violations[fp] = v
					}
					v.Count++
				} else {
					inconclusive = append(inconclusive, what)
				}
				if so.partial == nil {
					continue
				}
			}
			r := so.res
			if r == nil {
				r = so.partial
			}
			nres++
			merged.Evaluations += r.Evaluations
			merged.Distinct += r.Distinct
			for k, v := range r.Counts {
				merged.Counts[k] += v
			}
			for k, v := range r.Requires {
				merged.Requires[k] = v
			}
			for k := range r.Exhaustive {
				exhaustiveAll[k]++
			}
			for k, v := range r.Extra {
				merged.Extra[k] = v
			}
			for _, s := range r.Samples {
				if len(merged.Samples) < 24 {
					merged.Samples = append(merged.Samples, s)
				}
			}
			for k, v := range r.Violations {
				if m := merged.Violations[k]; m != nil {
					m.Count += v.Count
				} else {
					merged.Violations[k] = v
				}
			}
			inconclusive = append(inconclusive, r.Inconclusive...)
			for _, n := range r.Notes {
				merged.Notes = appendUniq(merged.Notes, n)
			}
			for _, n := range r.Assumptions {
				merged.Assumptions = appendUniq(merged.Assumptions, n)
			}
			if r.Rule != "" {
				merged.Rule = r.Rule
			}
		}
	}
	// race detector logs
	raceReports := collectRace(wdir)
	for fp, rr := range raceReports {
		v := merged.Violations[fp]
		if v == nil {
			merged.Violations[fp] = &vh.Violation{Fingerprint: fp, What: "data race reported by the Go race detector", Detail: rr.text, Count: rr.n}
		} else {
			v.Count += rr.n
		}
	}
	if c.race {
		n := 0
		for _, rr := range raceReports {
			n += rr.n
		}
		merged.Counts["race_detector_reports"] = int64(n)
	}
	if replay == "" {
		for k, min := range merged.Requires {
			if merged.Counts[k] < min {
				inconclusive = append(inconclusive, fmt.Sprintf("minimum-observation threshold not met: %s = %d < %d", k, merged.Counts[k], min))
			}
		}
	}

	// known findings
	kn := loadKnown(prop)
	var fps []string
	for k := range merged.Violations {
		fps = append(fps, k)
	}
	sort.Strings(fps)
	nviol := 0
	var knownSeen []string
	var out []string
	for _, fp := range fps {
		v := merged.Violations[fp]
		if k, ok := kn[fp]; ok {
			out = append(out, fmt.Sprintf("KNOWN-FINDING: property=%s %s [%s] (observed %d times)", prop, k.What, fp, v.Count))
			knownSeen = append(knownSeen, fp)
			continue
		}
		nviol++
		rp := filepath.Join(verifDir, "replay", fmt.Sprintf("%s-%016x.json", prop, vh.H64(fp)))
		if altRepo {
			rp = filepath.Join(wdir, fmt.Sprintf("replay-%016x.json", vh.H64(fp)))
		}
		only := ""
		if m, ok := v.Detail.(map[string]any); ok {
			if s, ok := m["case"].(string); ok {
				only = s
			}
		}
		b, _ := json.MarshalIndent(map[string]any{"property": prop, "fingerprint": fp, "what": v.What, "detail": v.Detail, "count": v.Count,
			"seed": seed, "tier": tier, "only": only}, "", " ")
		os.WriteFile(rp, b, 0o644)
		out = append(out, fmt.Sprintf("VIOLATION property=%s replay=%s", prop, rp))
		out = append(out, fmt.Sprintf("  fingerprint: %s", fp))
		out = append(out, fmt.Sprintf("  what: %s (x%d)", oneLine(v.What, 400), v.Count))
	}

	// evidence
	exh := false
	var exhNames []string
	for k, n := range exhaustiveAll {
		if n == nres {
			exhNames = append(exhNames, k)
		}
	}
	sort.Strings(exhNames)
	counts := map[string]int64{}
	for k, v := range merged.Counts {
		if !strings.HasPrefix(k, "_samples:") {
			counts[k] = v
		}
	}
	if len(merged.Samples) == 0 {
		merged.Samples = []any{}
	}
	cov := map[string]any{
		"evaluations":          merged.Evaluations,
		"distinct_nontrivial":  merged.Distinct,
		"rule":                 merged.Rule,
		"samples":              merged.Samples,
		"exhaustive":           exh,
		"exhaustive_subspaces": exhNames,
		"observed":             counts,
		"notes":                merged.Notes,
		"known_findings_seen":  knownSeen,
		"inconclusive":         inconclusive,
		"shards":               c.shards,
		"race_detector":        c.race,
	}
	for k, v := range merged.Extra {
		cov[k] = v
	}
	if cover {
		if sc := statementCoverage(filepath.Join(wdir, "coverage-pass"), prop); sc != nil {
			cov["statement_coverage"] = sc
		}
	} else {
		cov["statement_coverage"] = "not measured in this run (only the thorough tier builds with -cover, and not the race-detector builds of C02 and C11)"
	}
	verdict := "held"
	if nviol > 0 {
		verdict = "violated"
	} else if len(inconclusive) > 0 {
		verdict = "inconclusive"
	}
	cov["verdict"] = verdict
	seedInt := int64(vhSeed(seed))
	ev := map[string]any{
		"property_id": prop, "tier": tier, "seed": seedInt, "level": c.level, "coverage": cov,
		"assumptions": merged.Assumptions, "wall_s": time.Since(start).Seconds(), "violations": nviol,
	}
	if replay == "" {
		b, _ := json.MarshalIndent(ev, "", " ")
		if altRepo {
			os.WriteFile(filepath.Join(wdir, "evidence.json"), b, 0o644)
		} else {
			os.WriteFile(filepath.Join(verifDir, "evidence", prop+".json"), b, 0o644)
		}
	}
	if altRepo {
		defer os.Remove(bin)
	}

	for _, l := range out {
		fmt.Println(l)
	}
	fmt.Printf("%s tier=%s seed=%s evaluations=%d distinct_nontrivial=%d violations=%d known=%d wall=%.1fs verdict=%s\n",
		prop, tier, seed, merged.Evaluations, merged.Distinct, nviol, len(knownSeen), time.Since(start).Seconds(), verdict)
	if nviol > 0 {
		os.Exit(1)
	}
	if len(inconclusive) > 0 {
		for _, s := range inconclusive {
			fmt.Printf("INCONCLUSIVE property=%s reason=%s\n", prop, oneLine(s, 500))
		}
		os.Exit(2)
	}
}

func vhSeed(s string) uint64 {
	var v int64
	_, err := fmt.Sscan(s, &v)
	if err != nil {
		return 1
	}
	return uint64(v)
}

func oneLine(s string, n int) string {
	s = strings.ReplaceAll(s, "\n", " | ")
	if len(s) > n {
		s = s[:n] + "..."
	}
	return s
}

func appendUniq(xs []string, s string) []string {
	for _, x := range xs {
		if x == s {
			return xs
		}
	}
	return append(xs, s)
}

type raceRep struct {
	n    int
	text string
}

var raceFuncRe = regexp.MustCompile(`^\s+((?:github\.com/jcmturner/gokrb5/|verif/)\S+?)\(\)\s*$`)

// collectRace parses GORACE log files: one fingerprint per unordered pair of innermost
// gokrb5 access-site functions (line numbers stripped).
func collectRace(wdir string) map[string]raceRep {
	out := map[string]raceRep{}
	files, _ := filepath.Glob(filepath.Join(wdir, "race.*"))
	for _, f := range files {
		b, err := os.ReadFile(f)
		if err != nil {
			continue
		}
		blocks := strings.Split(string(b), "WARNING: DATA RACE")
		for _, blk := range blocks[1:] {
			// sections: the two access stacks are the first two paragraphs
			paras := strings.Split(blk, "\n\n")
			var sites []string
			for _, p := range paras {
				if len(sites) >= 2 {
					break
				}
				t := strings.TrimSpace(p)
				if !(strings.HasPrefix(t, "Read at") || strings.HasPrefix(t, "Write at") || strings.HasPrefix(t, "Previous read at") || strings.HasPrefix(t, "Previous write at") ||
					strings.HasPrefix(t, "Atomic") || strings.HasPrefix(t, "Previous atomic")) {
					continue
				}
				site := "?"
				for _, l := range strings.Split(p, "\n") {
					if m := raceFuncRe.FindStringSubmatch(l); m != nil && strings.HasPrefix(m[1], "github.com/jcmturner/gokrb5/") {
						site = strings.TrimPrefix(m[1], "github.com/jcmturner/gokrb5/v8/")
						break
					}
				}
				sites = append(sites, site)
			}
			for len(sites) < 2 {
				sites = append(sites, "?")
			}
			sort.Strings(sites)
			// Client.Destroy replaces cl.Credentials without synchronisation: every race with Destroy on one of the two
			// access stacks is that one defect, whatever the other access is
			if strings.Contains(blk, "client.(*Client).Destroy()") {
				fp := "race|client.(*Client).Destroy|concurrent-use-of-client"
				r := out[fp]
				r.n++
				if r.text == "" {
					if len(blk) > 4000 {
						blk = blk[:4000]
					}
					r.text = blk
				}
				out[fp] = r
				continue
			}
			if sites[0] == "?" && sites[1] == "?" {
				// race entirely inside the harness or a dependency: harness bug, not a verdict
				fp := "race|harness-only"
				r := out[fp]
				r.n++
				if r.text == "" {
					r.text = oneLine(blk, 3000)
				}
				out[fp] = r
				continue
			}
			fp := "race|" + sites[0] + "|" + sites[1]
			r := out[fp]
			r.n++
			if r.text == "" {
				if len(blk) > 4000 {
					blk = blk[:4000]
				}
				r.text = blk
			}
			out[fp] = r
		}
	}
	return out
}

// crashFrame names the code under test that was executing when the process died: the innermost github.com/jcmturner frame of
// the goroutine that was running (for a fatal error thrown on the system stack, e.g. an allocation refused inside the garbage
// collector, there may be none: other goroutines that merely exist - a sleeping janitor - say nothing about the cause).
func crashFrame(lines []string, frameRe *regexp.Regexp) string {
	type block struct {
		header string
		frames []string
	}
	var blocks []block
	cur := -1
	for _, l := range lines {
		if strings.HasPrefix(l, "goroutine ") && strings.HasSuffix(strings.TrimSpace(l), ":") {
			blocks = append(blocks, block{header: l})
			cur = len(blocks) - 1
			continue
		}
		if strings.HasPrefix(l, "runtime stack:") {
			cur = -1
			continue
		}
		if cur >= 0 && l != "" && !strings.HasPrefix(l, "\t") {
			blocks[cur].frames = append(blocks[cur].frames, l)
		}
	}
	pick := func(b block) string {
		for _, f := range b.frames {
			if mm := frameRe.FindStringSubmatch(f); mm != nil {
				return mm[1]
			}
		}
		return ""
	}
	for _, b := range blocks {
		if strings.Contains(b.header, "[running") {
			return pick(b)
		}
	}
	// no goroutine was running on the thread that failed: a goroutine in the middle of an allocation is the next best witness
	for _, b := range blocks {
		for _, f := range b.frames {
			if strings.HasPrefix(f, "runtime.mallocgc") || strings.HasPrefix(f, "runtime.makeslice") || strings.HasPrefix(f, "runtime.growslice") || strings.HasPrefix(f, "runtime.newarray") {
				return pick(b)
			}
		}
	}
	if len(blocks) == 0 {
		// no goroutine dump (panic output of another shape): first frame after the fatal line, as before
		for _, l := range lines {
			if mm := frameRe.FindStringSubmatch(l); mm != nil {
				return mm[1]
			}
		}
	}
	return ""
}
