// Package vh is the common run recorder of the verification harness: every property's
// test binary records evaluations, observations, samples and violations through it and
// writes one result file per shard which cmd/vcheck merges into the evidence file.
package vh

import (
	"encoding/json"
	"fmt"
	"hash/fnv"
	"os"
	"runtime"
	"runtime/debug"
	"sort"
	"strconv"
	"strings"
	"sync"
	"time"
)

// Violation is one refuting observation.
type Violation struct {
	Fingerprint string `json:"fingerprint"`
	What        string `json:"what"`
	Detail      any    `json:"detail,omitempty"`
	Count       int    `json:"count"`
}

// Result is what one shard writes.
type Result struct {
	Prop         string                `json:"prop"`
	Tier         string                `json:"tier"`
	Seed         uint64                `json:"seed"`
	Shard        int                   `json:"shard"`
	NShards      int                   `json:"nshards"`
	Evaluations  int64                 `json:"evaluations"`
	Distinct     int64                 `json:"distinct_nontrivial"`
	Counts       map[string]int64      `json:"counts"`
	Samples      []any                 `json:"samples"`
	Violations   map[string]*Violation `json:"violations"`
	Inconclusive []string              `json:"inconclusive"`
	Requires     map[string]int64      `json:"requires"`
	Exhaustive   map[string]bool       `json:"exhaustive"`
	Notes        []string              `json:"notes"`
	Rule         string                `json:"rule"`
	Assumptions  []string              `json:"assumptions"`
	Extra        map[string]any        `json:"extra"`
	WallS        float64               `json:"wall_s"`
	Done         bool                  `json:"done"`
}

// Run is the recorder.
type Run struct {
	mu       sync.Mutex
	res      Result
	seen     map[uint64]struct{}
	start    time.Time
	out      string
	only     string
	progress *os.File
	maxSamp  int
}

// Env accessors.
func Tier() string {
	t := os.Getenv("VERIF_TIER")
	if t != "thorough" {
		return "quick"
	}
	return t
}

// Thorough reports whether the thorough tier is selected.
func Thorough() bool { return Tier() == "thorough" }

// Seed returns VERIF_SEED (default 1).
func Seed() uint64 {
	s := os.Getenv("VERIF_SEED")
	if s == "" {
		return 1
	}
	v, err := strconv.ParseInt(s, 10, 64)
	if err != nil {
		u, err2 := strconv.ParseUint(s, 10, 64)
		if err2 != nil {
			return 1
		}
		return u
	}
	return uint64(v)
}

// Shard returns (index, count) from VERIF_SHARD = "i/n".
func Shard() (int, int) {
	s := os.Getenv("VERIF_SHARD")
	if s == "" {
		return 0, 1
	}
	p := strings.SplitN(s, "/", 2)
	if len(p) != 2 {
		return 0, 1
	}
	i, _ := strconv.Atoi(p[0])
	n, _ := strconv.Atoi(p[1])
	if n <= 0 {
		return 0, 1
	}
	return i, n
}

// Start begins a run for property prop.
func Start(prop string) *Run {
	i, n := Shard()
	r := &Run{start: time.Now(), out: os.Getenv("VERIF_OUT"), only: os.Getenv("VERIF_ONLY"), maxSamp: 12}
	r.res = Result{Prop: prop, Tier: Tier(), Seed: Seed(), Shard: i, NShards: n,
		Counts: map[string]int64{}, Violations: map[string]*Violation{}, Requires: map[string]int64{}, Exhaustive: map[string]bool{}}
	r.seen = map[uint64]struct{}{}
	if p := os.Getenv("VERIF_PROGRESS"); p != "" {
		f, err := os.OpenFile(p, os.O_CREATE|os.O_WRONLY|os.O_APPEND, 0o644)
		if err == nil {
			r.progress = f
		}
	}
	return r
}

// H64 is the FNV-1a hash used for sharding and distinctness.
func H64(s string) uint64 {
	h := fnv.New64a()
	h.Write([]byte(s))
	return h.Sum64()
}

// Mine reports whether the case with this key belongs to this shard (and, in replay mode,
// whether it is the selected case). Cases are partitioned by key hash so that distinct counts
// of the shards add up exactly.
func (r *Run) Mine(key string) bool {
	if r.only != "" {
		return key == r.only || strings.HasPrefix(key, r.only)
	}
	if r.res.NShards <= 1 {
		return true
	}
	return int(H64(key)%uint64(r.res.NShards)) == r.res.Shard
}

// MineIdx partitions by index.
func (r *Run) MineIdx(i int) bool {
	if r.res.NShards <= 1 {
		return true
	}
	return i%r.res.NShards == r.res.Shard
}

// Only returns the replay selector (empty if none).
func (r *Run) Only() string { return r.only }

// Eval records one evaluated case; nontrivial cases are counted as distinct by key.
func (r *Run) Eval(key string, nontrivial bool) {
	r.mu.Lock()
	r.res.Evaluations++
	if nontrivial {
		h := H64(key)
		if _, ok := r.seen[h]; !ok {
			r.seen[h] = struct{}{}
			r.res.Distinct++
		}
	}
	r.mu.Unlock()
}

// Progress appends the case key to the progress log (used to attribute process-fatal events).
func (r *Run) Progress(key string) {
	if r.progress != nil {
		r.progress.WriteString(key + "\n")
	}
}

// Count adds n to a named observation counter.
func (r *Run) Count(name string, n int64) {
	r.mu.Lock()
	r.res.Counts[name] += n
	r.mu.Unlock()
}

// Inc adds one.
func (r *Run) Inc(name string) { r.Count(name, 1) }

// Counter returns the current value of a counter.
func (r *Run) Counter(name string) int64 {
	r.mu.Lock()
	defer r.mu.Unlock()
	return r.res.Counts[name]
}

// Require states a minimum-observation threshold on a counter (checked on the merged result).
func (r *Run) Require(name string, min int64) {
	r.mu.Lock()
	r.res.Requires[name] = min
	r.mu.Unlock()
}

// Exhaustive marks a named sub-space as completely enumerated by this run.
func (r *Run) Exhaustive(name string) {
	r.mu.Lock()
	r.res.Exhaustive[name] = true
	r.mu.Unlock()
}

// Note adds a free-text note to the evidence.
func (r *Run) Note(s string) {
	r.mu.Lock()
	for _, n := range r.res.Notes {
		if n == s {
			r.mu.Unlock()
			return
		}
	}
	r.res.Notes = append(r.res.Notes, s)
	r.mu.Unlock()
}

// SetRule states how cases are generated and what makes one distinct / non-trivial.
func (r *Run) SetRule(s string) {
	r.mu.Lock()
	r.res.Rule = s
	r.mu.Unlock()
}

// Assume records an assumption / trusted-base item for the evidence file.
func (r *Run) Assume(s string) {
	r.mu.Lock()
	for _, n := range r.res.Assumptions {
		if n == s {
			r.mu.Unlock()
			return
		}
	}
	r.res.Assumptions = append(r.res.Assumptions, s)
	r.mu.Unlock()
}

// Extra stores a property-specific evidence value.
func (r *Run) Extra(k string, v any) {
	r.mu.Lock()
	if r.res.Extra == nil {
		r.res.Extra = map[string]any{}
	}
	r.res.Extra[k] = v
	r.mu.Unlock()
}

// Sample keeps up to a dozen sample cases (only shard 0 keeps them unless few).
func (r *Run) Sample(v any) {
	r.mu.Lock()
	if len(r.res.Samples) < r.maxSamp {
		r.res.Samples = append(r.res.Samples, v)
	}
	r.mu.Unlock()
}

// SampleN is Sample with a per-kind cap: at most n samples whose kind is k.
func (r *Run) SampleKind(k string, n int, v any) {
	r.mu.Lock()
	c := r.res.Counts["_samples:"+k]
	if c < int64(n) && len(r.res.Samples) < 40 {
		r.res.Counts["_samples:"+k] = c + 1
		r.res.Samples = append(r.res.Samples, map[string]any{"kind": k, "case": v})
	}
	r.mu.Unlock()
}

// Violation records a refuting observation. fingerprint identifies the specific failing thing.
func (r *Run) Violation(fingerprint, what string, detail any) {
	r.mu.Lock()
	v, ok := r.res.Violations[fingerprint]
	if !ok {
		v = &Violation{Fingerprint: fingerprint, What: what, Detail: detail}
		r.res.Violations[fingerprint] = v
	}
	v.Count++
	r.mu.Unlock()
}

// Inconclusive records a reason for which no verdict can be given.
func (r *Run) Inconclusive(reason string) {
	r.mu.Lock()
	if len(r.res.Inconclusive) < 50 {
		r.res.Inconclusive = append(r.res.Inconclusive, reason)
	}
	r.mu.Unlock()
}

// Flush writes the current state as a partial result (Done=false). A child that may be killed by
// a process-fatal event calls it periodically so that the driver can merge what was observed
// before the crash.
func (r *Run) Flush() {
	r.mu.Lock()
	defer r.mu.Unlock()
	if r.out == "" {
		return
	}
	r.res.WallS = time.Since(r.start).Seconds()
	r.res.Done = false
	if b, err := json.Marshal(&r.res); err == nil {
		tmp := r.out + ".tmp"
		if os.WriteFile(tmp, b, 0o644) == nil {
			os.Rename(tmp, r.out)
		}
	}
}

// SkipThrough returns the case key after which a restarted shard resumes ("" if not a restart).
func SkipThrough() string { return os.Getenv("VERIF_SKIP_THROUGH") }

// Finish writes the shard result.
func (r *Run) Finish() {
	// Finish is the deferred call of every TestProp. A panic that escapes the monitor (a bubble deadlock reported by synctest,
	// a gokrb5 panic outside a Guard, a bug of the monitor itself) must not be recorded as a completed run: whatever was
	// observed up to it is kept, and the run is inconclusive.
	if p := recover(); p != nil {
		stack := debug.Stack()
		fmt.Fprintf(os.Stderr, "vh: panic escaped the monitor: %v\n%s\n", p, stack)
		msg := fmt.Sprint(p)
		if len(msg) > 300 {
			msg = msg[:300] + "..."
		}
		r.Inconclusive("the monitor did not run to its end: panic " + msg + " @ " + PanicSite(stack))
	}
	r.mu.Lock()
	defer r.mu.Unlock()
	r.res.WallS = time.Since(r.start).Seconds()
	r.res.Done = true
	b, err := json.MarshalIndent(&r.res, "", " ")
	if err != nil {
		// a detail that cannot be marshalled must not lose the verdict
		for _, v := range r.res.Violations {
			v.Detail = fmt.Sprintf("%+v", v.Detail)
		}
		r.res.Samples = nil
		b, _ = json.MarshalIndent(&r.res, "", " ")
	}
	if r.out != "" {
		if err := os.WriteFile(r.out, b, 0o644); err != nil {
			fmt.Fprintln(os.Stderr, "vh: cannot write result:", err)
			os.Exit(3)
		}
	} else {
		// stand-alone: print a summary
		keys := make([]string, 0, len(r.res.Counts))
		for k := range r.res.Counts {
			keys = append(keys, k)
		}
		sort.Strings(keys)
		fmt.Printf("prop=%s tier=%s seed=%d evaluations=%d distinct=%d wall=%.1fs\n", r.res.Prop, r.res.Tier, r.res.Seed, r.res.Evaluations, r.res.Distinct, r.res.WallS)
		for _, k := range keys {
			fmt.Printf("  %-50s %d\n", k, r.res.Counts[k])
		}
		for k, min := range r.res.Requires {
			if r.res.Counts[k] < min {
				fmt.Printf("  UNMET require %s: %d < %d\n", k, r.res.Counts[k], min)
			}
		}
		for _, s := range r.res.Inconclusive {
			fmt.Println("  INCONCLUSIVE:", s)
		}
		fps := make([]string, 0)
		for k := range r.res.Violations {
			fps = append(fps, k)
		}
		sort.Strings(fps)
		for _, k := range fps {
			v := r.res.Violations[k]
			d, _ := json.Marshal(v.Detail)
			if len(d) > 600 {
				d = append(d[:600], "..."...)
			}
			fmt.Printf("  VIOLATION x%d [%s] %s %s\n", v.Count, k, v.What, d)
		}
	}
}

// Guard runs f and converts a panic into (true, description, innermost non-runtime frames).
func Guard(f func()) (panicked bool, val string, where string) {
	defer func() {
		if e := recover(); e != nil {
			panicked = true
			val = fmt.Sprint(e)
			where = PanicSite(debug.Stack())
		}
	}()
	f()
	return
}

// PanicSite extracts the innermost function below the panic call that is not in package
// runtime, from a debug.Stack() dump taken inside a deferred recover.
func PanicSite(stack []byte) string {
	lines := strings.Split(string(stack), "\n")
	seenPanic := false
	for i := 0; i < len(lines); i++ {
		l := lines[i]
		if strings.HasPrefix(l, "panic(") {
			seenPanic = true
			continue
		}
		if !seenPanic || strings.HasPrefix(l, "\t") || l == "" {
			continue
		}
		if strings.HasPrefix(l, "runtime.") || strings.HasPrefix(l, "runtime/") {
			continue
		}
		// strip arguments
		if j := strings.LastIndex(l, "("); j > 0 {
			l = l[:j]
		}
		return l
	}
	return "unknown"
}

// PanicClass maps a panic value to a coarse class for fingerprints.
func PanicClass(val string) string {
	switch {
	case strings.Contains(val, "index out of range"):
		return "index"
	case strings.Contains(val, "slice bounds out of range"):
		return "slice-bounds"
	case strings.Contains(val, "nil pointer dereference"), strings.Contains(val, "nil map"):
		return "nil"
	case strings.Contains(val, "divide by zero"):
		return "divide"
	case strings.Contains(val, "makeslice"), strings.Contains(val, "len out of range"), strings.Contains(val, "cap out of range"):
		return "makeslice"
	case strings.Contains(val, "interface conversion"):
		return "type-assert"
	}
	return "other"
}

// Rand is a splitmix64 stream.
type Rand struct{ s uint64 }

// NewRand derives a stream from the seed and a list of labels.
func NewRand(labels ...any) *Rand {
	h := Seed()*0x9E3779B97F4A7C15 + 0x1234567
	for _, l := range labels {
		h ^= H64(fmt.Sprint(l))
		h *= 0xBF58476D1CE4E5B9
		h ^= h >> 29
	}
	return &Rand{s: h}
}

// U64 returns the next value.
func (r *Rand) U64() uint64 {
	r.s += 0x9E3779B97F4A7C15
	z := r.s
	z = (z ^ (z >> 30)) * 0xBF58476D1CE4E5B9
	z = (z ^ (z >> 27)) * 0x94D049BB133111EB
	return z ^ (z >> 31)
}

// Intn returns a value in [0,n).
func (r *Rand) Intn(n int) int {
	if n <= 0 {
		return 0
	}
	return int(r.U64() % uint64(n))
}

// Bytes returns n pseudo-random bytes.
func (r *Rand) Bytes(n int) []byte {
	b := make([]byte, n)
	for i := 0; i < n; i += 8 {
		v := r.U64()
		for j := 0; j < 8 && i+j < n; j++ {
			b[i+j] = byte(v >> (8 * j))
		}
	}
	return b
}

// Bool returns a pseudo-random bool.
func (r *Rand) Bool() bool { return r.U64()&1 == 1 }

// Pick returns one of the arguments.
func Pick[T any](r *Rand, xs ...T) T { return xs[r.Intn(len(xs))] }

// Workers runs f(i) for i in [0,n) on all cores.
func Workers(n int, f func(i int)) {
	w := runtime.GOMAXPROCS(0)
	if w > n {
		w = n
	}
	var wg sync.WaitGroup
	ch := make(chan int, 64)
	for k := 0; k < w; k++ {
		wg.Add(1)
		go func() {
			defer wg.Done()
			for i := range ch {
				f(i)
			}
		}()
	}
	for i := 0; i < n; i++ {
		ch <- i
	}
	close(ch)
	wg.Wait()
}
