package vh
import ("testing";"os";"encoding/json")
func TestFinishRecovers(t *testing.T) {
	f := t.TempDir()+"/out.json"
	os.Setenv("VERIF_OUT", f)
	defer os.Unsetenv("VERIF_OUT")
	func() {
		r := Start("CXX")
		defer r.Finish()
		panic("boom")
	}()
	b, err := os.ReadFile(f)
	if err != nil { t.Fatal(err) }
	var m map[string]any
	json.Unmarshal(b, &m)
	if inc, _ := m["inconclusive"].([]any); len(inc) != 1 { t.Fatalf("inconclusive = %v", m["inconclusive"]) }
}
