package simkdc

import (
	crand "crypto/rand"
	"encoding/binary"
	"fmt"
	"io"
	"net"
	"sync"
	"sync/atomic"
	"time"
)

// Endpoint behaviours (C12).
const (
	Answers      = "answers"
	Refuses      = "refuses"    // no socket bound: UDP gets ICMP port unreachable, TCP connection refused
	Silent       = "silent"     // reads and never replies
	KrbError     = "krb-error"  // answers KRB-ERROR(6)
	TooBig       = "too-big"    // UDP only: KRB_ERR_RESPONSE_TOO_BIG
	EmptyReply   = "empty"      // UDP only: empty datagram
	CloseAtOnce  = "close"      // TCP: accept then close before sending anything
	CloseInLen   = "close-len"  // TCP: send 2 bytes of the length prefix, close
	CloseInBody  = "close-body" // TCP: send the length prefix and half the body, close
	GarbageReply = "garbage"    // answers bytes that are no Kerberos message
)

// Endpoint is one KDC address: a UDP and a TCP listener on the same port.
type Endpoint struct {
	Name    string
	KDC     *KDC
	Port    int
	UDPMode string
	TCPMode string
	udp     *net.UDPConn
	tcp     *net.TCPListener
	wg      sync.WaitGroup
	closed  atomic.Bool
	// counters
	UDPDatagrams atomic.Int64
	TCPConns     atomic.Int64
	Answered     atomic.Int64
	// MaxUDPReply: replies larger than this get KRB_ERR_RESPONSE_TOO_BIG over UDP (0 = unlimited)
	MaxUDPReply int
	conns       sync.Map
}

// Addr returns host:port.
func (e *Endpoint) Addr() string { return fmt.Sprintf("127.0.0.1:%d", e.Port) }

// Ports come from a private pool below the kernel's ephemeral range so that a side that must
// REFUSE (nothing bound) cannot be re-bound by a concurrently created endpoint or by a client's
// ephemeral source port. The pool position starts at a random offset per process.
var portCtr atomic.Int64

func init() {
	var b [2]byte
	crand.Read(b[:])
	portCtr.Store(int64(binary.BigEndian.Uint16(b[:])) % poolSize)
}

const (
	poolBase = 10240
	poolSize = 20000
)

func nextPort() int { return poolBase + int(portCtr.Add(1)%poolSize) }

// NewEndpoint binds what the modes need on a fresh pool port.
func NewEndpoint(name string, k *KDC, udpMode, tcpMode string) (*Endpoint, error) {
	for try := 0; try < 200; try++ {
		port := nextPort()
		l, err := net.ListenTCP("tcp4", &net.TCPAddr{IP: net.IPv4(127, 0, 0, 1), Port: port})
		if err != nil {
			continue
		}
		u, err := net.ListenUDP("udp4", &net.UDPAddr{IP: net.IPv4(127, 0, 0, 1), Port: port})
		if err != nil {
			l.Close()
			continue
		}
		e := &Endpoint{Name: name, KDC: k, Port: port, UDPMode: udpMode, TCPMode: tcpMode}
		if tcpMode == Refuses {
			l.Close()
		} else {
			e.tcp = l
			e.wg.Add(1)
			go e.serveTCP()
		}
		if udpMode == Refuses {
			u.Close()
		} else {
			e.udp = u
			e.wg.Add(1)
			go e.serveUDP()
		}
		return e, nil
	}
	return nil, fmt.Errorf("no free port")
}

// Close stops the listeners.
func (e *Endpoint) Close() {
	e.closed.Store(true)
	if e.udp != nil {
		e.udp.Close()
	}
	if e.tcp != nil {
		e.tcp.Close()
	}
	e.conns.Range(func(k, _ any) bool { k.(net.Conn).Close(); return true })
	e.wg.Wait()
}

func (e *Endpoint) errorReply(code int32) []byte {
	return e.KDC.errReply(code, "", kmsgName0(), nil, nil, nil).DER()
}

func (e *Endpoint) serveUDP() {
	defer e.wg.Done()
	buf := make([]byte, 65536)
	for {
		n, addr, err := e.udp.ReadFromUDP(buf)
		if err != nil {
			return
		}
		e.UDPDatagrams.Add(1)
		req := append([]byte{}, buf[:n]...)
		switch e.UDPMode {
		case Silent:
			continue
		case EmptyReply:
			e.udp.WriteToUDP([]byte{}, addr)
		case KrbError:
			e.udp.WriteToUDP(e.errorReply(ErrCPrincipalUnknown), addr)
		case TooBig:
			e.udp.WriteToUDP(e.errorReply(ErrResponseTooBig), addr)
		case GarbageReply:
			e.udp.WriteToUDP([]byte{0x30, 0x03, 0x02, 0x01, 0x05}, addr)
		default:
			rep := e.KDC.Handle(req, "udp", e.Name)
			if e.MaxUDPReply > 0 && len(rep) > e.MaxUDPReply {
				rep = e.errorReply(ErrResponseTooBig)
			}
			e.Answered.Add(1)
			e.udp.WriteToUDP(rep, addr)
		}
	}
}

func (e *Endpoint) serveTCP() {
	defer e.wg.Done()
	for {
		c, err := e.tcp.AcceptTCP()
		if err != nil {
			return
		}
		e.TCPConns.Add(1)
		e.conns.Store(c, true)
		e.wg.Add(1)
		go func(c *net.TCPConn) {
			defer e.wg.Done()
			defer e.conns.Delete(c)
			defer c.Close()
			if e.TCPMode == CloseAtOnce {
				return
			}
			c.SetDeadline(time.Now().Add(30 * time.Second))
			var hdr [4]byte
			if _, err := io.ReadFull(c, hdr[:]); err != nil {
				return
			}
			l := binary.BigEndian.Uint32(hdr[:])
			if l > 1<<20 {
				return
			}
			req := make([]byte, l)
			if _, err := io.ReadFull(c, req); err != nil {
				return
			}
			var rep []byte
			switch e.TCPMode {
			case Silent:
				// hold the connection without replying until the client gives up
				io.Copy(io.Discard, c)
				return
			case KrbError:
				rep = e.errorReply(ErrCPrincipalUnknown)
			case GarbageReply:
				rep = []byte{0x30, 0x03, 0x02, 0x01, 0x05}
			default:
				rep = e.KDC.Handle(req, "tcp", e.Name)
			}
			out := make([]byte, 4+len(rep))
			binary.BigEndian.PutUint32(out, uint32(len(rep)))
			copy(out[4:], rep)
			switch e.TCPMode {
			case CloseInLen:
				c.Write(out[:2])
				return
			case CloseInBody:
				c.Write(out[:4+len(rep)/2])
				return
			}
			e.Answered.Add(1)
			c.Write(out)
		}(c)
	}
}
