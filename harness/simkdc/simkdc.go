// Package simkdc is a simulated RFC 4120 KDC built only on the reference packages (ref/kmsg,
// ref/kcrypto, ref/der): it decodes every request with the strict reference decoder and logs
// the decoded request, verifies pre-authentication with the reference crypto, issues tickets
// and keeps an issue log. It never imports gokrb5, so an encoding or crypto error in the code
// under test cannot cancel out.
package simkdc

import (
	"bytes"
	"encoding/binary"
	"fmt"
	"sync"
	"time"

	"verif/ref/der"
	"verif/ref/kcrypto"
	"verif/ref/kmsg"
)

// KRB error codes used.
const (
	ErrCPrincipalUnknown = 6
	ErrSPrincipalUnknown = 7
	ErrEtypeNoSupp       = 14
	ErrPreauthFailed     = 24
	ErrPreauthRequired   = 25
	ErrTktExpired        = 32
	ErrTktNYV            = 33
	ErrBadIntegrity      = 31
	ErrSkew              = 37
	ErrModified          = 41
	ErrResponseTooBig    = 52
	ErrGeneric           = 60
	ErrWrongRealm        = 68
	ErrBadOption         = 13
	ErrPolicy            = 12
)

// Ticket flag bits (bit 0 = MSB).
const (
	FlagForwardable = 1
	FlagProxiable   = 3
	FlagRenewable   = 8
	FlagInitial     = 9
	FlagPreAuthent  = 10
	OptRenew        = 30
	OptCanonicalize = 15
	OptEncTktInSkey = 28
)

func bit(n int) uint32 { return 1 << uint(31-n) }

// KeyInfo is one long-term key.
type KeyInfo struct {
	Etype int32
	Key   []byte
	Kvno  uint32
	Salt  *string // nil = default salt (password principals)
	Iter  uint32  // 0 = default
}

// Principal is a client or service.
type Principal struct {
	Name     kmsg.Name
	Password string // "" for keytab/service principals
	Keys     []KeyInfo
	// PreAuth overrides the realm policy when non-empty: "none", "info2", "info+pwsalt".
	PreAuth string
}

func (p *Principal) key(et int32) (KeyInfo, bool) {
	for _, k := range p.Keys {
		if k.Etype == et {
			return k, true
		}
	}
	return KeyInfo{}, false
}

// Realm holds the principals database of one realm.
type Realm struct {
	Name       string
	Principals map[string]*Principal // by Name.String()
	PreAuth    string                // "none", "info2", "info+pwsalt"
	MaxLife    time.Duration
	MaxRenew   time.Duration
	// Referrals maps a service principal name to the next realm (a krbtgt/NEXT@Name key must exist).
	Referrals map[string]string
	// TGSEtypePref is the order in which the KDC picks the session key etype.
	Etypes []int32
}

// Issue is one issued ticket.
type Issue struct {
	Serial    int
	Kind      string // AS, TGS, RENEW, REFERRAL, XREALM
	Realm     string // issuing realm
	CName     kmsg.Name
	CRealm    string
	SName     kmsg.Name
	Ticket    []byte
	SessKey   kmsg.Key
	AuthTime  time.Time
	StartTime time.Time
	EndTime   time.Time
	RenewTill *time.Time
	Flags     uint32
}

// ReqRecord is one decoded request.
type ReqRecord struct {
	Serial     int
	Transport  string
	Raw        []byte
	DecodeErr  string
	Req        *kmsg.KDCReq
	Now        time.Time
	PreauthTS  *time.Time // PA-ENC-TIMESTAMP value if present and decryptable
	PreauthErr string
	TGSAuth    *kmsg.Authenticator // PA-TGS-REQ authenticator if verified
	TGSTicket  *kmsg.EncTicketPart
	TGSErr     string
	ReplyCode  int32 // 0 = ticket issued
	IssueSer   int
	Endpoint   string
}

// Reply is the model of a reply before encoding; the Perturb hook may change it.
type Reply struct {
	Kind      string // "AS" or "TGS"
	Req       *kmsg.KDCReq
	Rep       kmsg.KDCRep
	Enc       kmsg.EncKDCRepPart
	EncKey    kmsg.Key
	EncUsage  uint32
	EncKvno   *uint32
	TktModel  kmsg.EncTicketPart
	Tkt       kmsg.Ticket // Enc.Cipher filled after sealing
	TktKey    kmsg.Key
	CipherMut func([]byte) []byte // applied to the encrypted reply part
	Raw       []byte              // if non-nil, sent instead of the encoded reply
	Error     *kmsg.KRBError      // if non-nil, a KRB-ERROR is sent instead
}

// KDC is the simulated KDC (all realms in one process).
type KDC struct {
	mu      sync.Mutex
	Realms  map[string]*Realm
	Clock   func() time.Time
	Skew    time.Duration
	Rand    func(n int) []byte
	Perturb func(r *Reply)
	// ForceError, when non-zero, makes every request answer this KRB-ERROR code.
	ForceError int32
	// ForceErrorWhen, if set, restricts ForceError to the requests for which it returns true.
	ForceErrorWhen func(req *kmsg.KDCReq) bool
	reqs       []*ReqRecord
	issues     []*Issue
	serial     int
	lastReply  map[string][]byte
}

// LastReply returns the raw bytes of the last ticket-issuing reply of the kind ("AS", "TGS", ...).
func (k *KDC) LastReply(kind string) []byte {
	k.mu.Lock()
	defer k.mu.Unlock()
	return k.lastReply[kind]
}

// New creates an empty KDC.
func New(clock func() time.Time, rnd func(n int) []byte) *KDC {
	return &KDC{Realms: map[string]*Realm{}, Clock: clock, Skew: 5 * time.Minute, Rand: rnd}
}

// AddRealm adds a realm with a krbtgt principal holding keys for all six etypes.
func (k *KDC) AddRealm(name string) *Realm {
	r := &Realm{Name: name, Principals: map[string]*Principal{}, PreAuth: "info2", MaxLife: 24 * time.Hour, MaxRenew: 7 * 24 * time.Hour,
		Referrals: map[string]string{}, Etypes: []int32{18, 17, 20, 19, 23, 16}}
	k.Realms[name] = r
	k.AddService(name, kmsg.N(2, "krbtgt", name), kcrypto.Etypes...)
	return r
}

func (k *KDC) randKey(et int32) []byte { return kcrypto.RandomToKey(et, k.Rand(kcrypto.SeedLen(et))) }

// AddService adds a principal with random keys for the given etypes (kvno 1).
func (k *KDC) AddService(realm string, name kmsg.Name, etypes ...int32) *Principal {
	p := &Principal{Name: name}
	for _, et := range etypes {
		p.Keys = append(p.Keys, KeyInfo{Etype: et, Key: k.randKey(et), Kvno: 1})
	}
	k.Realms[realm].Principals[name.String()] = p
	return p
}

// AddCrossRealm creates krbtgt/to@from (in realm from) and the same key as krbtgt/to in realm to's
// database under the name krbtgt/to@from lookup, so that realm `to` can decrypt referral TGTs.
func (k *KDC) AddCrossRealm(from, to string, etypes ...int32) {
	p := k.AddService(from, kmsg.N(2, "krbtgt", to), etypes...)
	k.Realms[to].Principals["xrealm:"+from] = p
}

// AddPasswordClient adds a client whose keys derive from a password.
func (k *KDC) AddPasswordClient(realm string, name kmsg.Name, password string, salt *string, iter uint32, etypes ...int32) (*Principal, error) {
	p := &Principal{Name: name, Password: password}
	for _, et := range etypes {
		s := kcrypto.DefaultSalt(realm, name.Parts)
		if salt != nil {
			s = *salt
		}
		key, err := kcrypto.StringToKey(et, password, s, iter)
		if err != nil {
			return nil, err
		}
		p.Keys = append(p.Keys, KeyInfo{Etype: et, Key: key, Kvno: 1, Salt: salt, Iter: iter})
	}
	k.Realms[realm].Principals[name.String()] = p
	return p, nil
}

// Requests returns a copy of the request log.
func (k *KDC) Requests() []*ReqRecord {
	k.mu.Lock()
	defer k.mu.Unlock()
	return append([]*ReqRecord{}, k.reqs...)
}

// Issues returns a copy of the issue log.
func (k *KDC) Issues() []*Issue {
	k.mu.Lock()
	defer k.mu.Unlock()
	return append([]*Issue{}, k.issues...)
}

// ResetIssuesKeepRequests forgets the issued tickets (a destroyed client can no longer hold them) but keeps the request log.
func (k *KDC) ResetIssuesKeepRequests() {
	k.mu.Lock()
	defer k.mu.Unlock()
	k.issues = nil
}

// ResetLogs clears both logs.
func (k *KDC) ResetLogs() {
	k.mu.Lock()
	defer k.mu.Unlock()
	k.reqs, k.issues = nil, nil
}

func (k *KDC) errReply(code int32, realm string, sname kmsg.Name, edata []byte, crealm *string, cname *kmsg.Name) *kmsg.KRBError {
	now := k.Clock()
	return &kmsg.KRBError{STime: now.Truncate(time.Second), Susec: 0, Code: code, Realm: realm, SName: sname, EData: edata, CRealm: crealm, CName: cname}
}

// Handle processes one request message and returns the reply bytes.
func (k *KDC) Handle(raw []byte, transport, endpoint string) []byte {
	k.mu.Lock()
	defer k.mu.Unlock()
	k.serial++
	rec := &ReqRecord{Serial: k.serial, Transport: transport, Raw: append([]byte{}, raw...), Now: k.Clock(), Endpoint: endpoint}
	k.reqs = append(k.reqs, rec)
	req, err := kmsg.ParseKDCReq(raw)
	if err != nil {
		rec.DecodeErr = err.Error()
		rec.ReplyCode = ErrGeneric
		return k.errReply(ErrGeneric, "", kmsg.N(0), nil, nil, nil).DER()
	}
	rec.Req = &req
	var rp *Reply
	if k.ForceError != 0 && (k.ForceErrorWhen == nil || k.ForceErrorWhen(&req)) {
		sn := kmsg.N(2, "krbtgt", req.Body.Realm)
		if req.Body.SName != nil {
			sn = *req.Body.SName
		}
		rp = &Reply{Req: &req, Error: k.errReply(k.ForceError, req.Body.Realm, sn, nil, nil, nil)}
	} else if req.MsgType == 10 {
		rp = k.handleAS(rec, &req)
	} else {
		rp = k.handleTGS(rec, &req)
	}
	if k.Perturb != nil {
		k.Perturb(rp)
	}
	if rp.Raw != nil {
		return rp.Raw
	}
	if rp.Error != nil {
		rec.ReplyCode = rp.Error.Code
		return rp.Error.DER()
	}
	// seal ticket
	tc, err := kcrypto.EncryptConf(rp.TktKey.Type, rp.TktKey.Value, 2, rp.TktModel.DER(), k.Rand(kcrypto.ConfLen(rp.TktKey.Type)))
	if err != nil {
		return k.errReply(ErrGeneric, "", kmsg.N(0), nil, nil, nil).DER()
	}
	rp.Tkt.Enc.Cipher = tc
	tb := rp.Tkt.DER()
	rp.Rep.Ticket = tb
	ec, err := kcrypto.EncryptConf(rp.EncKey.Type, rp.EncKey.Value, rp.EncUsage, rp.Enc.DER(), k.Rand(kcrypto.ConfLen(rp.EncKey.Type)))
	if err != nil {
		return k.errReply(ErrGeneric, "", kmsg.N(0), nil, nil, nil).DER()
	}
	if rp.CipherMut != nil {
		ec = rp.CipherMut(ec)
	}
	rp.Rep.Enc = kmsg.EncData{Etype: rp.EncKey.Type, Kvno: rp.EncKvno, Cipher: ec}
	// issue log
	is := &Issue{Serial: len(k.issues) + 1, Kind: rp.Kind, Realm: rp.Tkt.Realm, CName: rp.TktModel.CName, CRealm: rp.TktModel.CRealm, SName: rp.Tkt.SName, Ticket: tb,
		SessKey: rp.TktModel.Key, AuthTime: rp.TktModel.AuthTime, EndTime: rp.TktModel.EndTime, RenewTill: rp.TktModel.RenewTill, Flags: rp.TktModel.Flags}
	is.StartTime = rp.TktModel.AuthTime
	if rp.TktModel.StartTime != nil {
		is.StartTime = *rp.TktModel.StartTime
	}
	k.issues = append(k.issues, is)
	rec.IssueSer = is.Serial
	out := rp.Rep.DER()
	if k.lastReply == nil {
		k.lastReply = map[string][]byte{}
	}
	k.lastReply[rp.Kind] = out
	return out
}

func (k *KDC) pickEtype(req []int32, have func(int32) bool) (int32, bool) {
	for _, e := range req {
		if kcrypto.KeyLen(e) != 0 && have(e) {
			return e, true
		}
	}
	return 0, false
}

func (k *KDC) preauthHint(realm *Realm, p *Principal, policy string, et int32, ki KeyInfo) []kmsg.PA {
	salt := kcrypto.DefaultSalt(realm.Name, p.Name.Parts)
	if ki.Salt != nil {
		salt = *ki.Salt
	}
	var params []byte
	if kcrypto.DefaultIter(et) != 0 {
		it := ki.Iter
		if it == 0 {
			it = kcrypto.DefaultIter(et)
		}
		params = make([]byte, 4)
		binary.BigEndian.PutUint32(params, it)
	}
	other := int32(17)
	if et == 17 {
		other = 18
	}
	otherSalt := "salt of the overridden hint"
	switch policy {
	case "info2,info-other-etype":
		// both hints: ETYPE-INFO2 overrides ETYPE-INFO (RFC 4120 5.2.7.5) whatever their order; the overridden one names another etype
		return []kmsg.PA{{Type: 19, Value: kmsg.EtypeInfo2DER([]kmsg.EtypeInfo2Entry{{Etype: et, Salt: &salt, Params: params}})},
			{Type: 11, Value: kmsg.EtypeInfoDER([]kmsg.EtypeInfoEntry{{Etype: other, Salt: []byte(otherSalt)}})}, {Type: 3, Value: []byte(otherSalt)}, {Type: 2, Value: []byte{}}}
	case "info-other-etype,info2":
		return []kmsg.PA{{Type: 2, Value: []byte{}}, {Type: 3, Value: []byte(otherSalt)}, {Type: 11, Value: kmsg.EtypeInfoDER([]kmsg.EtypeInfoEntry{{Etype: other, Salt: []byte(otherSalt)}})},
			{Type: 19, Value: kmsg.EtypeInfo2DER([]kmsg.EtypeInfo2Entry{{Etype: et, Salt: &salt, Params: params}})}}
	case "info+pwsalt":
		// old style: ETYPE-INFO and PW-SALT (no s2k parameters can be conveyed: only usable with default iterations)
		return []kmsg.PA{{Type: 11, Value: kmsg.EtypeInfoDER([]kmsg.EtypeInfoEntry{{Etype: et, Salt: []byte(salt)}})}, {Type: 3, Value: []byte(salt)}, {Type: 2, Value: []byte{}}}
	default:
		return []kmsg.PA{{Type: 19, Value: kmsg.EtypeInfo2DER([]kmsg.EtypeInfo2Entry{{Etype: et, Salt: &salt, Params: params}})}, {Type: 2, Value: []byte{}}}
	}
}

func (k *KDC) handleAS(rec *ReqRecord, req *kmsg.KDCReq) *Reply {
	now := k.Clock()
	b := req.Body
	tgsName := kmsg.N(2, "krbtgt", b.Realm)
	sname := tgsName
	if b.SName != nil {
		sname = *b.SName
	}
	fail := func(code int32, edata []byte) *Reply {
		return &Reply{Kind: "AS", Req: req, Error: k.errReply(code, b.Realm, sname, edata, nil, nil)}
	}
	realm, ok := k.Realms[b.Realm]
	if !ok {
		return fail(ErrWrongRealm, nil)
	}
	if b.CName == nil {
		return fail(ErrCPrincipalUnknown, nil)
	}
	cl, ok := realm.Principals[b.CName.String()]
	if !ok {
		return fail(ErrCPrincipalUnknown, nil)
	}
	sp, ok := realm.Principals[sname.String()]
	if !ok {
		return fail(ErrSPrincipalUnknown, nil)
	}
	et, ok := k.pickEtype(b.Etypes, func(e int32) bool { _, ok := cl.key(e); return ok })
	if !ok {
		return fail(ErrEtypeNoSupp, nil)
	}
	ck, _ := cl.key(et)
	policy := realm.PreAuth
	if cl.PreAuth != "" {
		policy = cl.PreAuth
	}
	preauthed := false
	if policy != "none" {
		var pats *kmsg.PA
		for i := range req.PAData {
			if req.PAData[i].Type == 2 {
				pats = &req.PAData[i]
			}
		}
		if pats == nil {
			return fail(ErrPreauthRequired, kmsg.PAsDER(k.preauthHint(realm, cl, policy, et, ck)))
		}
		n, err := der.ParseOne(pats.Value)
		var ed kmsg.EncData
		if err == nil {
			ed, err = kmsg.ParseEncData(n)
		}
		if err != nil {
			rec.PreauthErr = "PA-ENC-TIMESTAMP not an EncryptedData: " + err.Error()
			return fail(ErrPreauthFailed, kmsg.PAsDER(k.preauthHint(realm, cl, policy, et, ck)))
		}
		pk, ok := cl.key(ed.Etype)
		if !ok {
			rec.PreauthErr = fmt.Sprintf("PA-ENC-TIMESTAMP under etype %d for which the client has no key", ed.Etype)
			return fail(ErrPreauthFailed, kmsg.PAsDER(k.preauthHint(realm, cl, policy, et, ck)))
		}
		pt, _, err := kcrypto.Decrypt(pk.Etype, pk.Key, 1, ed.Cipher)
		if err != nil {
			rec.PreauthErr = "PA-ENC-TIMESTAMP does not decrypt under the client key with usage 1: " + err.Error()
			return fail(ErrPreauthFailed, kmsg.PAsDER(k.preauthHint(realm, cl, policy, et, ck)))
		}
		ts, err := kmsg.ParsePAEncTSEnc(pt)
		if err != nil {
			rec.PreauthErr = "PA-ENC-TS-ENC malformed: " + err.Error()
			return fail(ErrPreauthFailed, nil)
		}
		t := ts.Timestamp
		if ts.Usec != nil {
			t = t.Add(time.Duration(*ts.Usec) * time.Microsecond)
		}
		rec.PreauthTS = &t
		if now.Sub(t) > k.Skew || t.Sub(now) > k.Skew {
			rec.PreauthErr = fmt.Sprintf("PA-ENC-TIMESTAMP %v outside skew of KDC time %v", t, now)
			return fail(ErrSkew, nil)
		}
		preauthed = true
		// the reply key is the one used for pre-authentication
		et, ck = pk.Etype, pk
	}
	// session key etype: KDC preference among requested
	set, ok := k.pickEtype(realm.Etypes, func(e int32) bool {
		for _, r := range b.Etypes {
			if r == e {
				_, has := sp.key(e)
				return has || true
			}
		}
		return false
	})
	if !ok {
		return fail(ErrEtypeNoSupp, nil)
	}
	// ticket key: server's strongest key among realm preference
	tet, ok := k.pickEtype(realm.Etypes, func(e int32) bool { _, ok := sp.key(e); return ok })
	if !ok {
		return fail(ErrEtypeNoSupp, nil)
	}
	tk, _ := sp.key(tet)
	flags := bit(FlagInitial)
	if preauthed {
		flags |= bit(FlagPreAuthent)
	}
	if b.Options&bit(FlagForwardable) != 0 {
		flags |= bit(FlagForwardable)
	}
	if b.Options&bit(FlagProxiable) != 0 {
		flags |= bit(FlagProxiable)
	}
	nowS := now.Truncate(time.Second)
	end := nowS.Add(realm.MaxLife)
	if !b.Till.IsZero() && b.Till.Unix() > 0 && b.Till.Before(end) {
		end = b.Till
	}
	var renew *time.Time
	if b.Options&bit(FlagRenewable) != 0 && b.RTime != nil {
		rt := nowS.Add(realm.MaxRenew)
		if b.RTime.Before(rt) {
			rt = *b.RTime
		}
		renew = &rt
		flags |= bit(FlagRenewable)
	}
	sess := kmsg.Key{Type: set, Value: k.randKey(set)}
	etp := kmsg.EncTicketPart{Flags: flags, Key: sess, CRealm: realm.Name, CName: *b.CName, AuthTime: nowS, StartTime: kmsg.T(nowS), EndTime: end, RenewTill: renew, CAddr: b.Addresses}
	rp := &Reply{Kind: "AS", Req: req, TktModel: etp, TktKey: kmsg.Key{Type: tk.Etype, Value: tk.Key},
		Tkt:    kmsg.Ticket{Realm: realm.Name, SName: sname, Enc: kmsg.EncData{Etype: tk.Etype, Kvno: kmsg.U32(tk.Kvno)}},
		EncKey: kmsg.Key{Type: ck.Etype, Value: ck.Key}, EncUsage: 3, EncKvno: kmsg.U32(ck.Kvno),
		Rep: kmsg.KDCRep{MsgType: 11, CRealm: realm.Name, CName: *b.CName},
		Enc: kmsg.EncKDCRepPart{AppTag: 25, Key: sess, LastReqs: []kmsg.LastReq{{Type: 0, Value: nowS}}, Nonce: b.Nonce, Flags: flags, AuthTime: nowS, StartTime: kmsg.T(nowS),
			EndTime: end, RenewTill: renew, SRealm: realm.Name, SName: sname, CAddr: b.Addresses},
	}
	if cl.Password != "" {
		// tell the client how the reply key was derived (always ETYPE-INFO2 in the reply; the policy only shapes the error hint)
		salt := kcrypto.DefaultSalt(realm.Name, cl.Name.Parts)
		if ck.Salt != nil {
			salt = *ck.Salt
		}
		var params []byte
		if kcrypto.DefaultIter(ck.Etype) != 0 && ck.Iter != 0 {
			params = make([]byte, 4)
			binary.BigEndian.PutUint32(params, ck.Iter)
		}
		if policy == "info+pwsalt" {
			rp.Rep.PAData = []kmsg.PA{{Type: 3, Value: []byte(salt)}}
		} else {
			rp.Rep.PAData = []kmsg.PA{{Type: 19, Value: kmsg.EtypeInfo2DER([]kmsg.EtypeInfo2Entry{{Etype: ck.Etype, Salt: &salt, Params: params}})}}
		}
	}
	return rp
}

// tgtKey finds the key that sealed a TGT presented to realm r.
func (k *KDC) tgtKey(realm *Realm, t kmsg.Ticket) (KeyInfo, bool) {
	var p *Principal
	if t.Realm == realm.Name {
		p = realm.Principals[t.SName.String()]
	} else if len(t.SName.Parts) == 2 && t.SName.Parts[0] == "krbtgt" && t.SName.Parts[1] == realm.Name {
		p = realm.Principals["xrealm:"+t.Realm]
	}
	if p == nil {
		return KeyInfo{}, false
	}
	ki, ok := p.key(t.Enc.Etype)
	if ok && t.Enc.Kvno != nil && *t.Enc.Kvno != 0 && *t.Enc.Kvno != ki.Kvno {
		return KeyInfo{}, false
	}
	return ki, ok
}

func (k *KDC) handleTGS(rec *ReqRecord, req *kmsg.KDCReq) *Reply {
	now := k.Clock()
	b := req.Body
	sname := kmsg.N(0)
	if b.SName != nil {
		sname = *b.SName
	}
	fail := func(code int32, why string) *Reply {
		rec.TGSErr = why
		return &Reply{Kind: "TGS", Req: req, Error: k.errReply(code, b.Realm, sname, nil, nil, nil)}
	}
	realm, ok := k.Realms[b.Realm]
	if !ok {
		return fail(ErrWrongRealm, "unknown realm "+b.Realm)
	}
	var apb []byte
	for _, pa := range req.PAData {
		if pa.Type == 1 {
			apb = pa.Value
		}
	}
	if apb == nil {
		return fail(ErrPreauthRequired, "no PA-TGS-REQ")
	}
	ap, err := kmsg.ParseAPReq(apb)
	if err != nil {
		return fail(ErrGeneric, "PA-TGS-REQ is not a well-formed AP-REQ: "+err.Error())
	}
	if ap.Pvno != 5 || ap.MsgType != 14 {
		return fail(ErrGeneric, "AP-REQ pvno/msg-type")
	}
	tgt, _ := kmsg.ParseTicket(ap.Ticket)
	tki, ok := k.tgtKey(realm, tgt)
	if !ok {
		return fail(ErrSPrincipalUnknown, fmt.Sprintf("no key for presented ticket %s@%s etype %d", tgt.SName, tgt.Realm, tgt.Enc.Etype))
	}
	pt, _, err := kcrypto.Decrypt(tki.Etype, tki.Key, 2, tgt.Enc.Cipher)
	if err != nil {
		return fail(ErrBadIntegrity, "presented ticket does not decrypt: "+err.Error())
	}
	etp, err := kmsg.ParseEncTicketPart(pt)
	if err != nil {
		return fail(ErrGeneric, "presented ticket malformed: "+err.Error())
	}
	rec.TGSTicket = &etp
	start := etp.AuthTime
	if etp.StartTime != nil {
		start = *etp.StartTime
	}
	if start.Sub(now) > k.Skew {
		return fail(ErrTktNYV, "presented ticket not yet valid")
	}
	if now.Sub(etp.EndTime) > 0 {
		return fail(ErrTktExpired, fmt.Sprintf("presented ticket expired at %v (KDC time %v)", etp.EndTime, now))
	}
	at, _, err := kcrypto.Decrypt(etp.Key.Type, etp.Key.Value, 7, ap.Auth.Cipher)
	if err != nil {
		return fail(ErrBadIntegrity, "PA-TGS-REQ authenticator does not decrypt under the TGT session key with usage 7: "+err.Error())
	}
	au, err := kmsg.ParseAuthenticator(at)
	if err != nil {
		return fail(ErrGeneric, "authenticator malformed: "+err.Error())
	}
	if !au.CName.Equal(etp.CName) || au.CRealm != etp.CRealm {
		return fail(36, fmt.Sprintf("authenticator client %s@%s != ticket client %s@%s", au.CName, au.CRealm, etp.CName, etp.CRealm))
	}
	ct := au.CTime.Add(time.Duration(au.Cusec) * time.Microsecond)
	if now.Sub(ct) > k.Skew || ct.Sub(now) > k.Skew {
		return fail(ErrSkew, fmt.Sprintf("authenticator ctime %v outside skew of KDC time %v", ct, now))
	}
	if au.Cksum == nil {
		return fail(ErrModified, "authenticator carries no checksum over the request body")
	}
	cet, okc := kcrypto.EtypeOfCksum[au.Cksum.Type]
	if !okc || cet != etp.Key.Type {
		return fail(50, fmt.Sprintf("body checksum type %d is not the keyed checksum of the session key etype %d", au.Cksum.Type, etp.Key.Type))
	}
	want, err := kcrypto.Checksum(cet, etp.Key.Value, 6, req.BodyRaw)
	if err != nil || !bytes.Equal(want, au.Cksum.Sum) {
		return fail(ErrModified, "body checksum (usage 6) does not match the encoded req-body")
	}
	rec.TGSAuth = &au
	encKey, encUsage := etp.Key, uint32(8)
	if au.Subkey != nil {
		encKey, encUsage = *au.Subkey, 9
	}
	nowS := now.Truncate(time.Second)
	flags := uint32(0)
	if etp.Flags&bit(FlagPreAuthent) != 0 {
		flags |= bit(FlagPreAuthent)
	}
	if b.Options&bit(FlagForwardable) != 0 && etp.Flags&bit(FlagForwardable) != 0 {
		flags |= bit(FlagForwardable)
	}
	if b.Options&bit(FlagProxiable) != 0 && etp.Flags&bit(FlagProxiable) != 0 {
		flags |= bit(FlagProxiable)
	}
	mk := func(kind string, issuingRealm string, tsname kmsg.Name, sp *Principal, end time.Time, renew *time.Time, authTime time.Time) *Reply {
		tet, ok := k.pickEtype(realm.Etypes, func(e int32) bool { _, ok := sp.key(e); return ok })
		if !ok {
			return fail(ErrEtypeNoSupp, "service has no usable key")
		}
		tk, _ := sp.key(tet)
		set, ok := k.pickEtype(realm.Etypes, func(e int32) bool {
			for _, r := range b.Etypes {
				if r == e {
					return true
				}
			}
			return false
		})
		if !ok {
			return fail(ErrEtypeNoSupp, "no common session key etype")
		}
		if renew != nil {
			flags |= bit(FlagRenewable)
		}
		sess := kmsg.Key{Type: set, Value: k.randKey(set)}
		t := kmsg.EncTicketPart{Flags: flags, Key: sess, CRealm: etp.CRealm, CName: etp.CName, AuthTime: authTime, StartTime: kmsg.T(nowS), EndTime: end, RenewTill: renew, CAddr: etp.CAddr}
		if etp.CRealm != issuingRealm {
			t.TrType, t.TrContents = 1, []byte(etp.CRealm)
		}
		return &Reply{Kind: kind, Req: req, TktModel: t, TktKey: kmsg.Key{Type: tk.Etype, Value: tk.Key},
			Tkt:    kmsg.Ticket{Realm: issuingRealm, SName: tsname, Enc: kmsg.EncData{Etype: tk.Etype, Kvno: kmsg.U32(tk.Kvno)}},
			EncKey: encKey, EncUsage: encUsage,
			Rep: kmsg.KDCRep{MsgType: 13, CRealm: etp.CRealm, CName: etp.CName},
			Enc: kmsg.EncKDCRepPart{AppTag: 26, Key: sess, LastReqs: []kmsg.LastReq{{Type: 0, Value: nowS}}, Nonce: b.Nonce, Flags: flags, AuthTime: authTime, StartTime: kmsg.T(nowS),
				EndTime: end, RenewTill: renew, SRealm: issuingRealm, SName: tsname, CAddr: etp.CAddr}}
	}
	endFor := func() time.Time {
		end := nowS.Add(realm.MaxLife)
		if b.Till.Unix() > 0 && b.Till.Before(end) {
			end = b.Till
		}
		if etp.EndTime.Before(end) {
			end = etp.EndTime
		}
		return end
	}
	// renewal
	if b.Options&bit(OptRenew) != 0 {
		if etp.Flags&bit(FlagRenewable) == 0 || etp.RenewTill == nil {
			return fail(ErrBadOption, "renewal of a ticket that is not renewable")
		}
		if !now.Before(*etp.RenewTill) {
			return fail(ErrTktExpired, "renew-till passed")
		}
		sp := realm.Principals[tgt.SName.String()]
		if tgt.Realm != realm.Name || sp == nil {
			return fail(ErrSPrincipalUnknown, "renewal of a ticket not issued by this realm")
		}
		life := etp.EndTime.Sub(start)
		end := nowS.Add(life)
		if etp.RenewTill.Before(end) {
			end = *etp.RenewTill
		}
		flags |= etp.Flags & (bit(FlagForwardable) | bit(FlagProxiable) | bit(FlagInitial))
		return mk("RENEW", realm.Name, tgt.SName, sp, end, etp.RenewTill, etp.AuthTime)
	}
	if b.SName == nil {
		return fail(ErrSPrincipalUnknown, "no sname")
	}
	var renew *time.Time
	if b.Options&bit(FlagRenewable) != 0 && etp.Flags&bit(FlagRenewable) != 0 && etp.RenewTill != nil && b.RTime != nil {
		rt := *etp.RenewTill
		if b.RTime.Before(rt) {
			rt = *b.RTime
		}
		renew = &rt
	}
	// local service (incl. explicit cross-realm TGT requests krbtgt/OTHER)
	if sp, ok := realm.Principals[sname.String()]; ok {
		kind := "TGS"
		if len(sname.Parts) == 2 && sname.Parts[0] == "krbtgt" && sname.Parts[1] != realm.Name {
			kind = "XREALM"
		}
		return mk(kind, realm.Name, sname, sp, endFor(), renew, etp.AuthTime)
	}
	// referral
	if next, ok := realm.Referrals[sname.String()]; ok {
		rn := kmsg.N(2, "krbtgt", next)
		if sp, ok := realm.Principals[rn.String()]; ok {
			return mk("REFERRAL", realm.Name, rn, sp, endFor(), renew, etp.AuthTime)
		}
	}
	return fail(ErrSPrincipalUnknown, "service "+sname.String()+" unknown in "+realm.Name)
}

func kmsgName0() kmsg.Name { return kmsg.N(0) }
