// Package randfault is the part of the C05 check that needs the repository's own Go toolchain (go <= 1.23): there
// crypto/rand.Read returns the error of a failing rand.Reader, since go 1.24 it cannot fail. A failing random source is injected
// while gokrb5 encrypts: the call must return an error, or - if it succeeds - still produce different ciphertexts for two
// encryptions of one plaintext (C05: "each uses a fresh random confounder").
//
// The test prints one JSON line per case on stdout (prefix "RANDFAULT "); the C05 monitor, which starts it, does the judging
// and the evidence.
package randfault

import (
	"bytes"
	"crypto/rand"
	"encoding/json"
	"errors"
	"fmt"
	"io"
	"runtime"
	"testing"

	"github.com/jcmturner/gokrb5/v8/crypto"
	"github.com/jcmturner/gokrb5/v8/types"
)

// failAfter delivers n bytes of the real source and then fails.
type failAfter struct {
	n   int
	src io.Reader
}

func (f *failAfter) Read(p []byte) (int, error) {
	if f.n <= 0 {
		return 0, errors.New("injected failure of the random source")
	}
	if len(p) > f.n {
		p = p[:f.n]
	}
	n, err := f.src.Read(p)
	f.n -= n
	return n, err
}

type line struct {
	Etype      int32  `json:"etype"`
	Usage      uint32 `json:"usage"`
	Len        int    `json:"plaintext_len"`
	GoodBytes  int    `json:"random_bytes_before_failure"`
	API        string `json:"api"`
	Err1       string `json:"err1"`
	Err2       string `json:"err2"`
	Identical  bool   `json:"both_succeeded_with_identical_ciphertexts"`
	Ciphertext string `json:"ciphertext,omitempty"`
	Panic      string `json:"panic,omitempty"`
	Go         string `json:"go"`
}

func TestRandFault(t *testing.T) {
	real := rand.Reader
	defer func() { rand.Reader = real }()
	keyLen := map[int32]int{16: 24, 17: 16, 18: 32, 19: 16, 20: 32, 23: 16}
	for _, et := range []int32{16, 17, 18, 19, 20, 23} {
		key := make([]byte, keyLen[et])
		if _, err := io.ReadFull(real, key); err != nil {
			t.Fatal(err)
		}
		if et == 16 {
			// odd parity, not weak: a fixed valid des3 key
			key = []byte{0x85, 0x0b, 0xb5, 0x13, 0x58, 0x54, 0x8c, 0xd0, 0x5e, 0x86, 0x76, 0x8c, 0x31, 0x3e, 0x3b, 0xfe, 0xf7, 0x51, 0x19, 0x37, 0xdc, 0xf7, 0x2c, 0x3e}
		}
		ety, err := crypto.GetEtype(et)
		if err != nil {
			t.Fatal(err)
		}
		for _, usage := range []uint32{0, 1, 3, 11} {
			for _, n := range []int{0, 1, 16, 17, 100} {
				for _, good := range []int{0, 1, 7, 15} {
					for _, api := range []string{"crypto.GetEncryptedData", "EType.EncryptMessage"} {
						if usage == 0 && api == "crypto.GetEncryptedData" {
							continue
						}
						pt := bytes.Repeat([]byte{0x5a}, n)
						l := line{Etype: et, Usage: usage, Len: n, GoodBytes: good, API: api, Go: runtime.Version()}
						enc := func() (c []byte, err error) {
							rand.Reader = &failAfter{n: good, src: real}
							defer func() {
								rand.Reader = real
								if r := recover(); r != nil {
									l.Panic = fmt.Sprint(r)
									err = fmt.Errorf("panic: %v", r)
								}
							}()
							if api == "crypto.GetEncryptedData" {
								ed, e := crypto.GetEncryptedData(append([]byte{}, pt...), types.EncryptionKey{KeyType: et, KeyValue: key}, usage, 1)
								return ed.Cipher, e
							}
							_, c, e := ety.EncryptMessage(append([]byte{}, key...), append([]byte{}, pt...), usage)
							return c, e
						}
						c1, e1 := enc()
						c2, e2 := enc()
						l.Err1, l.Err2 = fmt.Sprint(e1), fmt.Sprint(e2)
						if e1 == nil && e2 == nil && bytes.Equal(c1, c2) {
							l.Identical = true
							l.Ciphertext = fmt.Sprintf("%x", c1)
						}
						b, _ := json.Marshal(l)
						fmt.Printf("RANDFAULT %s\n", b)
					}
				}
			}
		}
	}
}
