module verif123

go 1.23

require github.com/jcmturner/gokrb5/v8 v8.0.0

require (
	github.com/hashicorp/go-uuid v1.0.3 // indirect
	github.com/jcmturner/aescts/v2 v2.0.0 // indirect
	github.com/jcmturner/dnsutils/v2 v2.0.0 // indirect
	github.com/jcmturner/gofork v1.7.6 // indirect
	github.com/jcmturner/goidentity/v6 v6.0.1 // indirect
	github.com/jcmturner/rpc/v2 v2.0.3 // indirect
	golang.org/x/crypto v0.6.0 // indirect
	golang.org/x/net v0.7.0 // indirect
)

replace github.com/jcmturner/gokrb5/v8 => /repo/v8
