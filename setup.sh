#!/bin/sh
# Builds the framework offline from files on disk only and warms the Go build cache.
set -e
D="$(cd "$(dirname "$0")" && pwd)"
export VERIF_DIR="$D"
export GOFLAGS=-mod=mod GOPROXY=off GOSUMDB=off GOTOOLCHAIN=local
GO=/opt/veriftools/go1.26.8/bin/go
mkdir -p "$D/.build" "$D/evidence" "$D/replay"
cd "$D/harness"
$GO build -o "$D/.build/vcheck" ./cmd/vcheck
# reference self-tests (oracle sanity) and cache warm-up for every property binary
$GO test -count=1 ./ref/kcrypto/ ./ref/pac/ ./vh/
for ID in $(jq -r '.checks[].property_id' "$D/MANIFEST.json"); do
  id=$(echo "$ID" | tr 'A-Z' 'a-z')
  p="props/$id"
  case "$id" in c02|c11) RACE=-race;; *) RACE=;; esac
  $GO test -c -tags verif -vet=off $RACE -o "$D/.build/$id.test" "./$p" || exit 1
done
# warm the build cache of the small go <= 1.23 module (fault injection at the random source, started by the C05 monitor)
(cd "$D/harness123" && go test -count=1 -run '^$' ./randfault/ >/dev/null 2>&1) || true
echo setup ok
